//! Witness search for C19 (interrupted writes never leave a partial file under a final name; every record that was retrievable
//! before the interrupted operation is still retrievable; leftovers are ignored or cleaned up) against the REAL crates.
//!
//! A process stop cannot be injected into the middle of an operation, so this program drives the FAULT paths of the same
//! operations (a source that fails part-way, a file system that refuses more bytes = RLIMIT_FSIZE lowered around ONE call with
//! SIGXFSZ ignored, a rename that cannot succeed, a directory that is not a directory) and then looks at the directory the way a
//! restarted process would: by an independent walk (every file under a final name must be complete and consistent with its name)
//! and through the real re-open entry points.  What an operation leaves behind when it stops at a fault is what a crash at that
//! point would leave behind.  It never proves anything; it prints `WITNESS ...` and exits 1 on the first violation.
//!
//! Oracle, from the property text: (1) every `<64 hex>.mdb` in a shard directory is a complete shard (header, footer, both info
//! sections parse, length == what the footer says) whose content hash equals its name; every `default.<hash>` in the xorb
//! directory deserializes and yields the bytes that were put; every cache hit equals the bytes that were put; (2) the records
//! (file records, xorb records, chunks; cached ranges; xorbs) that were retrievable before the faulted call are retrievable
//! afterwards - in the running object AND after re-opening the directory (`MDBShardFile::load_all_valid`, a fresh
//! `ShardFileManager`, `DiskCache::initialize`, a fresh `LocalClient`); (3) if the faulted call nevertheless reports success, what
//! it reports exists and is complete; (4) re-open never fails or panics because of leftovers.  Whether a faulted call returns an
//! error is NOT judged (only reported on stderr), except that a panic of the code under test is a violation.
//!
//! Scenarios:
//!  A  `MDBShardFile::write_out_from_reader` into a directory that already holds shard S0, with readers over the bytes of a valid
//!     shard S1 that fail part-way: hard error at offset 0 / 1 / middle / len-1 / exactly at EOF, `ErrorKind::Interrupted` once at
//!     0 / middle / len-1, Interrupted once and later a hard error, short reads of 1 and 7 bytes, and the healthy reader.  Then the
//!     history "write S1, delete its file, write the same bytes again" (the handle returned must name an existing complete file),
//!     and the same with a faulting reader in between.
//!  B  `MDBInMemoryShard::write_to_directory` and `ShardFileManager::flush` with RLIMIT_FSIZE = 100 bytes, and with the shard
//!     directory replaced by a regular file: nothing partial under a final name, S0 still served, the records held in memory by
//!     the manager before the failed flush are still answered by it, and a later flush (fault gone) publishes them completely.
//!  F  `consolidate_shards_in_directory` of three shards with RLIMIT_FSIZE = size of the largest input (the merged shard cannot be
//!     written): every record of the three inputs is still retrievable; then the same call without the fault.
//!  C  `chunk_cache::DiskCache::put` of an item [0,8) that encompasses the cached ranges [2,4) and [5,6) (all smaller than the
//!     writer's 8 KiB buffer, so the fault surfaces in the publish step): (C1) RLIMIT_FSIZE = 8 bytes; (C2) the rename cannot
//!     succeed because a non-empty directory sits under the item's final name (name learnt from a scratch cache).  Old ranges
//!     must still be hits in the running cache and after `DiskCache::initialize`; if `put` reports success the new range must be
//!     a hit.  (C3) two handles on one directory, B opened before A put item X; B re-puts X while a watcher thread samples the
//!     item's final name (200 rounds): never missing, never another length.
//!  D  `cas_client::LocalClient::put` of a small xorb (below 8 KiB: nothing reaches the file system before the publish step) with
//!     RLIMIT_FSIZE = 8 bytes, and with the `xorbs` directory replaced by a regular file: no `default.<hash>` that does not
//!     deserialize to the bytes put, the xorb stored earlier is still served (also by a fresh client on the directory), a later
//!     put succeeds.
//!  E  `file_utils::SafeFileCreator`: (E1) small write + `close` whose flush fails (RLIMIT_FSIZE), fresh destination and existing
//!     destination; (E2) a 64 KiB write that fails part-way, after which the process is gone (`mem::forget`, no destructor);
//!     (E3) existing destination V1, a second writer writes V2, its temp file is taken away, `close` fails at the rename
//!     (= the process stops right before rename(2)), forget: V1 must still be there; (E4) healthy replace; (E5) a watcher thread
//!     samples the final name while it is republished 2000 times: never missing, never partial.
//!  G  further writers: (G1) `SafeFileCreator::new_unnamed` + `set_dest_path` (close before a destination is set publishes
//!     nothing; healthy close; failing flush under RLIMIT_FSIZE) and `replace_existing` (healthy: new content, permission bits of
//!     the old file kept; failing flush: the old file survives); (G2) `shard_file_union` / `shard_file_difference` whose output
//!     cannot be written (RLIMIT_FSIZE = size of the larger input): the output path is absent or a complete shard holding the
//!     expected records, both inputs intact; then the same calls without the fault; (G3) `LocalClient::upload_shard` with
//!     RLIMIT_FSIZE = 100 bytes: every `<64 hex>.mdb` of the `shards` directory complete, a fresh client on the directory
//!     opens; then the upload without the fault and the file record is served by the same and by a fresh client.
//! KNOWN on HEAD and deliberately NOT exercised: a SafeFileCreator that is DROPPED (or closed by its caller) after a write that
//! failed part-way renames the partial temp file onto the final name (/verif/findings/c19_drop_commits_partial.rs); this is why
//! C and D use items below the 8 KiB buffer and E2 forgets the creator instead of dropping it.
//!
//! Deterministic; VERIF_SEED (default 0) varies the generated hashes and payloads.  `VERIF_C19_ONLY=A,B,...,G` selects scenarios.
//! Linux only (RLIMIT_FSIZE = 1, SIGXFSZ = 25); if lowering the limit has no effect the RLIMIT cases are skipped with a note.
//! Exit 0 `no violation found`, 1 `WITNESS ...`, 2 harness trouble.
use std::collections::BTreeSet;
use std::io::{self, Cursor, Read, Write};
use std::os::fd::AsRawFd;
use std::panic::{catch_unwind, AssertUnwindSafe};
use std::path::{Path, PathBuf};
use std::sync::atomic::{AtomicBool, AtomicU64, Ordering};
use std::sync::Arc;

use cas_client::{LocalClient, UploadClient};
use cas_types::{ChunkRange, Key};
use chunk_cache::{CacheConfig, ChunkCache, DiskCache};
use file_utils::SafeFileCreator;
use mdb_shard::cas_structs::{CASChunkSequenceEntry, CASChunkSequenceHeader, MDBCASInfo};
use mdb_shard::file_structs::{FileDataSequenceEntry, FileDataSequenceHeader, MDBFileInfo};
use mdb_shard::session_directory::consolidate_shards_in_directory;
use mdb_shard::shard_file_reconstructor::FileReconstructor;
use mdb_shard::shard_in_memory::MDBInMemoryShard;
use mdb_shard::utils::parse_shard_filename;
use mdb_shard::{MDBShardFile, MDBShardInfo, ShardFileManager};
use merklehash::{compute_data_hash, MerkleHash};

type W = Result<(), String>;

fn infra(msg: String) -> ! {
    eprintln!("harness failure: {msg}");
    println!("harness failure: {msg}");
    std::process::exit(2)
}
fn io_ok<T>(what: &str, r: io::Result<T>) -> T {
    r.unwrap_or_else(|e| infra(format!("{what}: {e}")))
}
fn panic_msg(p: Box<dyn std::any::Any + Send>) -> String {
    if let Some(s) = p.downcast_ref::<&str>() {
        s.to_string()
    } else if let Some(s) = p.downcast_ref::<String>() {
        s.clone()
    } else {
        "<non-string panic payload>".into()
    }
}
fn guarded<T>(what: &str, f: impl FnOnce() -> T) -> Result<T, String> {
    catch_unwind(AssertUnwindSafe(f)).map_err(|p| format!("{what}: the code under test panicked: {}", panic_msg(p)))
}
fn splitmix(mut z: u64) -> u64 {
    z = z.wrapping_add(0x9E3779B97F4A7C15);
    z = (z ^ (z >> 30)).wrapping_mul(0xBF58476D1CE4E5B9);
    z = (z ^ (z >> 27)).wrapping_mul(0x94D049BB133111EB);
    z ^ (z >> 31)
}
fn hash_of(a: u64, b: u64) -> MerkleHash {
    let mut bytes = [0u8; 32];
    for j in 0..4u64 {
        bytes[j as usize * 8..j as usize * 8 + 8].copy_from_slice(&splitmix(a ^ splitmix(b.wrapping_mul(4).wrapping_add(j))).to_le_bytes());
    }
    MerkleHash::from_slice(&bytes).unwrap_or_else(|_| infra("MerkleHash::from_slice".into()))
}
fn bytes_of(seed: u64, len: usize) -> Vec<u8> {
    let mut x = splitmix(seed) | 1;
    (0..len)
        .map(|_| {
            x ^= x << 13;
            x ^= x >> 7;
            x ^= x << 17;
            (x >> 24) as u8
        })
        .collect()
}
fn tmp() -> tempfile::TempDir {
    tempfile::tempdir().unwrap_or_else(|e| infra(format!("tempdir: {e}")))
}
fn list(dir: &Path) -> String {
    let mut v: Vec<String> = match std::fs::read_dir(dir) {
        Ok(rd) => rd
            .filter_map(|e| e.ok())
            .map(|e| format!("{} ({})", e.file_name().to_string_lossy(), e.metadata().map(|m| if m.is_dir() { "dir".to_string() } else { format!("{} bytes", m.len()) }).unwrap_or_default()))
            .collect(),
        Err(e) => vec![format!("<unreadable: {e}>")],
    };
    v.sort();
    format!("[{}]", v.join(", "))
}

// ---------------------------------------------------------------- the file system refusing more bytes
#[repr(C)]
struct RLimit {
    cur: u64,
    max: u64,
}
const RLIMIT_FSIZE: i32 = 1;
const SIGXFSZ: i32 = 25;
const SIG_IGN: usize = 1;
extern "C" {
    fn getrlimit(resource: i32, rlim: *mut RLimit) -> i32;
    fn setrlimit(resource: i32, rlim: *const RLimit) -> i32;
    fn signal(signum: i32, handler: usize) -> usize;
    fn dup(fd: i32) -> i32;
    fn dup2(from: i32, to: i32) -> i32;
    fn close(fd: i32) -> i32;
}
/// Runs `f` while no file of this process may grow beyond `limit` bytes (writes past it fail with EFBIG).  stderr is pointed at
/// /dev/null meanwhile (the checks redirect it into a regular file, which the limit would hit as well; `eprintln!` panics when
/// its write fails).  Returns Err(panic message) if `f` panicked.
fn with_fsize_limit<T>(limit: u64, f: impl FnOnce() -> T) -> Result<T, String> {
    let _ = io::stdout().flush();
    let _ = io::stderr().flush();
    let devnull = io_ok("open /dev/null", std::fs::OpenOptions::new().write(true).open("/dev/null"));
    let mut old = RLimit { cur: 0, max: 0 };
    let saved_err;
    unsafe {
        signal(SIGXFSZ, SIG_IGN);
        if getrlimit(RLIMIT_FSIZE, &mut old) != 0 {
            infra("getrlimit failed".into());
        }
        saved_err = dup(2);
        if saved_err < 0 || dup2(devnull.as_raw_fd(), 2) < 0 {
            infra("dup of stderr failed".into());
        }
        let new = RLimit { cur: limit, max: old.max };
        if setrlimit(RLIMIT_FSIZE, &new) != 0 {
            dup2(saved_err, 2);
            infra("setrlimit failed".into());
        }
    }
    let r = catch_unwind(AssertUnwindSafe(f));
    unsafe {
        let ok = setrlimit(RLIMIT_FSIZE, &old) == 0;
        dup2(saved_err, 2);
        close(saved_err);
        if !ok {
            infra("could not restore RLIMIT_FSIZE".into());
        }
    }
    r.map_err(panic_msg)
}
fn fsize_limit_works() -> bool {
    let d = tmp();
    let p = d.path().join("probe");
    let r = with_fsize_limit(8, || std::fs::write(&p, [7u8; 100]));
    let limited = matches!(r, Ok(Err(_)));
    let after = std::fs::write(d.path().join("probe2"), [7u8; 100]).is_ok();
    limited && after
}

// ---------------------------------------------------------------- shards: model, generation, independent walk
#[derive(Clone)]
struct ShardModel {
    name: String,
    files: Vec<MerkleHash>,
    xorbs: Vec<(MerkleHash, Vec<MerkleHash>)>,
}
fn make_shard(seed: u64, tag: u64, n_xorbs: usize, chunks_per: usize, n_files: usize) -> (MDBInMemoryShard, ShardModel) {
    let mut s = MDBInMemoryShard::default();
    let mut model = ShardModel { name: format!("S{tag}"), files: vec![], xorbs: vec![] };
    let t = seed.wrapping_mul(1000).wrapping_add(tag);
    for x in 0..n_xorbs as u64 {
        let xh = hash_of(t ^ 0xCA5, x);
        let mut pos = 0u32;
        let mut chunks = Vec::new();
        let mut hashes = Vec::new();
        for c in 0..chunks_per as u64 {
            let len = 1000 + (splitmix(t ^ x ^ c) % 5000) as u32;
            let ch = hash_of(t ^ 0xC4, x * 1000 + c);
            chunks.push(CASChunkSequenceEntry::new(ch, len, pos));
            hashes.push(ch);
            pos += len;
        }
        let header = CASChunkSequenceHeader::new(xh, chunks_per as u32, pos);
        if let Err(e) = s.add_cas_block(MDBCASInfo { metadata: header, chunks }) {
            infra(format!("add_cas_block: {e:?}"));
        }
        model.xorbs.push((xh, hashes));
    }
    for f in 0..n_files as u64 {
        let fh = hash_of(t ^ 0xF11E, f);
        let (xh, _) = model.xorbs[(f as usize) % n_xorbs];
        let fi = MDBFileInfo {
            metadata: FileDataSequenceHeader::new(fh, 1u32, false, false),
            segments: vec![FileDataSequenceEntry::new(xh, 1234u32, 0u32, 1u32)],
            verification: vec![],
            metadata_ext: None,
        };
        if let Err(e) = s.add_file_reconstruction_info(fi) {
            infra(format!("add_file_reconstruction_info: {e:?}"));
        }
        model.files.push(fh);
    }
    (s, model)
}
fn shard_bytes(s: &MDBInMemoryShard) -> Vec<u8> {
    let mut out = Vec::new();
    if let Err(e) = MDBShardInfo::serialize_from(&mut out, s) {
        infra(format!("serialize_from: {e:?}"));
    }
    out
}

struct DirView {
    files: BTreeSet<MerkleHash>,
    xorbs: BTreeSet<MerkleHash>,
    chunks: BTreeSet<MerkleHash>,
    final_names: Vec<(PathBuf, Vec<u8>)>,
}
/// (1) of the oracle for a shard directory: every `<64 hex>.mdb` must be a complete shard named by its content hash
fn walk_shard_dir(dir: &Path, ctx: &str) -> Result<DirView, String> {
    let mut v = DirView { files: BTreeSet::new(), xorbs: BTreeSet::new(), chunks: BTreeSet::new(), final_names: vec![] };
    let rd = std::fs::read_dir(dir).map_err(|e| format!("{ctx}: the shard directory {dir:?} can no longer be read: {e}"))?;
    for ent in rd {
        let ent = io_ok("dir entry", ent);
        let path = ent.path();
        let Some(name_hash) = parse_shard_filename(&path) else { continue };
        let shown = format!("{} ({} bytes)", ent.file_name().to_string_lossy(), ent.metadata().map(|m| m.len()).unwrap_or(0));
        let bytes = std::fs::read(&path).map_err(|e| format!("{ctx}: {shown} is visible under a final shard name but cannot be read: {e}"))?;
        let content_hash = compute_data_hash(&bytes);
        let mut cur = Cursor::new(&bytes);
        let parsed = guarded("parsing a shard file", || -> Result<(Vec<MDBFileInfo>, Vec<MDBCASInfo>, u64), String> {
            let info = MDBShardInfo::load_from_reader(&mut cur).map_err(|e| format!("{e:?}"))?;
            let files = info.read_all_file_info_sections(&mut cur).map_err(|e| format!("file info section: {e:?}"))?;
            let cas = info.read_all_cas_blocks_full(&mut cur).map_err(|e| format!("cas info section: {e:?}"))?;
            Ok((files, cas, info.num_bytes()))
        });
        let (files, cas, num_bytes) = match parsed {
            Ok(Ok(x)) => x,
            Ok(Err(e)) | Err(e) => {
                return Err(format!(
                    "{ctx}: {shown} is visible under a final shard name but is not a complete shard ({e}); its content hash is {} (name {}); directory: {}",
                    content_hash.hex(),
                    if content_hash == name_hash { "matches" } else { "does not match" },
                    list(dir)
                ))
            },
        };
        if content_hash != name_hash {
            return Err(format!("{ctx}: {shown} is visible under a final shard name but its content hash is {}", content_hash.hex()));
        }
        if num_bytes != bytes.len() as u64 {
            return Err(format!("{ctx}: {shown} is visible under a final shard name but its footer describes a shard of {num_bytes} bytes"));
        }
        for f in files {
            v.files.insert(f.metadata.file_hash);
        }
        for c in cas {
            v.xorbs.insert(c.metadata.cas_hash);
            v.chunks.extend(c.chunks.iter().map(|e| e.chunk_hash));
        }
        v.final_names.push((path, bytes));
    }
    Ok(v)
}

/// (1), (2), (4) for a shard directory: independent walk, then the real re-open entry points
fn check_shard_dir(rt: &tokio::runtime::Runtime, dir: &Path, expect: &[&ShardModel], allowed_bytes: Option<&[&Vec<u8>]>, ctx: &str) -> W {
    let view = walk_shard_dir(dir, ctx)?;
    if let Some(allowed) = allowed_bytes {
        for (p, b) in &view.final_names {
            if !allowed.iter().any(|a| *a == b) {
                return Err(format!(
                    "{ctx}: {:?} ({} bytes) is visible under a final shard name but is none of the complete shards written so far (sizes {:?})",
                    p.file_name().unwrap_or_default(),
                    b.len(),
                    allowed.iter().map(|a| a.len()).collect::<Vec<_>>()
                ));
            }
        }
    }
    for m in expect {
        for f in &m.files {
            if !view.files.contains(f) {
                return Err(format!("{ctx}: file record {} of shard {} was retrievable before and is in no shard file of the directory any more; directory: {}", f.hex(), m.name, list(dir)));
            }
        }
        for (x, chunks) in &m.xorbs {
            if !view.xorbs.contains(x) || chunks.iter().any(|c| !view.chunks.contains(c)) {
                return Err(format!("{ctx}: xorb record {} of shard {} was retrievable before and is in no shard file of the directory any more; directory: {}", x.hex(), m.name, list(dir)));
            }
        }
    }
    // the real re-open paths
    let loaded = guarded(&format!("{ctx}: MDBShardFile::load_all_valid"), || MDBShardFile::load_all_valid(dir))?
        .map_err(|e| format!("{ctx}: re-opening the directory fails: MDBShardFile::load_all_valid returned {e:?}; directory: {}", list(dir)))?;
    for m in expect {
        for f in &m.files {
            let mut found = false;
            for s in &loaded {
                let r = guarded(&format!("{ctx}: get_file_reconstruction_info"), || s.get_file_reconstruction_info(f))?;
                if matches!(r, Ok(Some(_))) {
                    found = true;
                }
            }
            if !found {
                return Err(format!("{ctx}: after load_all_valid no loaded shard answers file record {} of shard {}", f.hex(), m.name));
            }
        }
    }
    let mgr = guarded(&format!("{ctx}: ShardFileManager::new_in_session_directory"), || rt.block_on(ShardFileManager::new_in_session_directory(dir)))?
        .map_err(|e| format!("{ctx}: a fresh ShardFileManager over the directory fails: {e:?}; directory: {}", list(dir)))?;
    check_manager(rt, &mgr, expect, &format!("{ctx}; fresh ShardFileManager over the directory"))
}
fn check_manager(rt: &tokio::runtime::Runtime, mgr: &Arc<ShardFileManager>, expect: &[&ShardModel], ctx: &str) -> W {
    for m in expect {
        for f in &m.files {
            let r = guarded(&format!("{ctx}: get_file_reconstruction_info"), || rt.block_on(mgr.get_file_reconstruction_info(f)))?;
            if !matches!(r, Ok(Some(_))) {
                return Err(format!("{ctx}: file record {} of shard {} is not found any more ({:?})", f.hex(), m.name, r.map(|o| o.map(|_| "..."))));
            }
        }
        for (x, chunks) in &m.xorbs {
            let q = [chunks[0], chunks[1 % chunks.len()]];
            let q = &q[..chunks.len().min(2)];
            let r = guarded(&format!("{ctx}: chunk_hash_dedup_query"), || rt.block_on(mgr.chunk_hash_dedup_query(q)))?;
            match r {
                Ok(Some((n, e))) if n >= 1 && e.cas_hash == *x => {},
                other => {
                    return Err(format!(
                        "{ctx}: the first chunks of xorb {} of shard {} are not found any more by chunk_hash_dedup_query ({:?})",
                        x.hex(),
                        m.name,
                        other.map(|o| o.map(|(n, e)| (n, e.cas_hash.hex())))
                    ))
                },
            }
        }
    }
    Ok(())
}

// ---------------------------------------------------------------- A: write_out_from_reader with faulting readers
#[derive(Clone, Copy, Debug, PartialEq)]
enum Fault {
    None,
    Hard(usize),
    InterruptedOnce(usize),
    InterruptedThenHard(usize, usize),
    Short(usize),
}
struct FaultyReader {
    data: Vec<u8>,
    pos: usize,
    fault: Fault,
    interrupted: bool,
    fired: bool,
}
impl Read for FaultyReader {
    fn read(&mut self, buf: &mut [u8]) -> io::Result<usize> {
        let (int_at, hard_at, max) = match self.fault {
            Fault::None => (None, None, usize::MAX),
            Fault::Hard(a) => (None, Some(a), usize::MAX),
            Fault::InterruptedOnce(a) => (Some(a), None, usize::MAX),
            Fault::InterruptedThenHard(a, b) => (Some(a), Some(b), usize::MAX),
            Fault::Short(n) => (None, None, n),
        };
        if let Some(a) = int_at {
            if self.pos >= a && !self.interrupted {
                self.interrupted = true;
                self.fired = true;
                return Err(io::Error::from(io::ErrorKind::Interrupted));
            }
        }
        if let Some(a) = hard_at {
            if self.pos >= a {
                self.fired = true;
                return Err(io::Error::new(io::ErrorKind::Other, "injected read failure"));
            }
        }
        let mut n = buf.len().min(max).min(self.data.len() - self.pos);
        for stop in [int_at.filter(|_| !self.interrupted), hard_at].into_iter().flatten() {
            if self.pos < stop {
                n = n.min(stop - self.pos);
            }
        }
        buf[..n].copy_from_slice(&self.data[self.pos..self.pos + n]);
        self.pos += n;
        Ok(n)
    }
}

fn scenario_a(rt: &tokio::runtime::Runtime, seed: u64) -> W {
    let (s0, m0) = make_shard(seed, 0, 3, 4, 3);
    let (s1, m1) = make_shard(seed, 1, 4, 6, 3);
    let b0 = shard_bytes(&s0);
    let b1 = shard_bytes(&s1);
    let len = b1.len();
    let faults = [
        Fault::Hard(0),
        Fault::Hard(1),
        Fault::Hard(len / 2),
        Fault::Hard(len - 1),
        Fault::Hard(len),
        Fault::InterruptedOnce(0),
        Fault::InterruptedOnce(len / 2),
        Fault::InterruptedOnce(len - 1),
        Fault::InterruptedThenHard(len / 3, 2 * len / 3),
        Fault::Short(1),
        Fault::Short(7),
        Fault::None,
    ];
    for fault in faults {
        let d = tmp();
        let dir = d.path();
        let ctx0 = format!("A: directory holding shard S0 ({} bytes)", b0.len());
        let p0 = guarded(&ctx0, || s0.write_to_directory(dir))?.map_err(|e| format!("{ctx0}: write_to_directory of a valid shard failed: {e:?}"))?;
        check_shard_dir(rt, dir, &[&m0], Some(&[&b0]), &format!("{ctx0}, before the fault"))?;
        let ctx = format!("{ctx0}; then MDBShardFile::write_out_from_reader(dir, reader over the {len} bytes of valid shard S1 with fault {fault:?})");
        let mut reader = FaultyReader { data: b1.clone(), pos: 0, fault, interrupted: false, fired: false };
        let res = guarded(&ctx, || MDBShardFile::write_out_from_reader(dir, &mut reader))?;
        eprintln!("A {fault:?}: returned {}", match &res { Ok(sf) => format!("Ok({})", sf.shard_hash.hex()), Err(e) => format!("Err({e:?})") });
        let mut expect = vec![&m0];
        if let Ok(sf) = &res {
            let ctx = format!("{ctx} returned Ok");
            if !sf.path.exists() {
                return Err(format!("{ctx} with a handle to {:?}, which does not exist; directory: {}", sf.path, list(dir)));
            }
            let got = io_ok("read", std::fs::read(&sf.path));
            if got != b1 || sf.shard_hash != compute_data_hash(&b1) {
                return Err(format!("{ctx} but the file it names has {} bytes / hash {}, not the {len} bytes of S1", got.len(), sf.shard_hash.hex()));
            }
            expect.push(&m1);
        }
        check_shard_dir(rt, dir, &expect, Some(&[&b0, &b1]), &ctx)?;
        if !p0.exists() {
            return Err(format!("{ctx}: the file of S0 is gone"));
        }
    }
    // history: write S1, delete its file, write the same bytes again (with and without a faulted attempt in between)
    for faulted_attempt in [false, true] {
        let d = tmp();
        let dir = d.path();
        let ctx = "A: write_out_from_reader(S1) into a directory holding S0; the file of S1 is deleted".to_string();
        guarded(&ctx, || s0.write_to_directory(dir))?.map_err(|e| format!("{ctx}: {e:?}"))?;
        let first = guarded(&ctx, || MDBShardFile::write_out_from_reader(dir, &mut Cursor::new(b1.clone())))?
            .map_err(|e| format!("{ctx}: writing a valid shard from a healthy reader failed: {e:?}"))?;
        check_shard_dir(rt, dir, &[&m0, &m1], Some(&[&b0, &b1]), &ctx)?;
        io_ok("remove", std::fs::remove_file(&first.path));
        let mut ctx = ctx;
        if faulted_attempt {
            let mut reader = FaultyReader { data: b1.clone(), pos: 0, fault: Fault::Hard(len / 2), interrupted: false, fired: false };
            let _ = guarded(&ctx, || MDBShardFile::write_out_from_reader(dir, &mut reader))?;
            ctx = format!("{ctx}; an attempt with a reader failing at offset {} is made", len / 2);
            check_shard_dir(rt, dir, &[&m0], Some(&[&b0, &b1]), &ctx)?;
        }
        let ctx = format!("{ctx}; write_out_from_reader(the same bytes of S1) again");
        let second = guarded(&ctx, || MDBShardFile::write_out_from_reader(dir, &mut Cursor::new(b1.clone())))?
            .map_err(|e| format!("{ctx}: failed: {e:?}"))?;
        if !second.path.exists() {
            return Err(format!("{ctx} returned a handle to {:?}, which does not exist; directory: {}", second.path, list(dir)));
        }
        check_shard_dir(rt, dir, &[&m0, &m1], Some(&[&b0, &b1]), &ctx)?;
    }
    Ok(())
}

// ---------------------------------------------------------------- B: write_to_directory / flush
fn scenario_b(rt: &tokio::runtime::Runtime, seed: u64, fsize: bool) -> W {
    let (s0, m0) = make_shard(seed, 10, 3, 4, 3);
    let (s1, m1) = make_shard(seed, 11, 5, 8, 4);
    let b0 = shard_bytes(&s0);
    let b1 = shard_bytes(&s1);
    // write_to_directory
    {
        let d = tmp();
        let dir = d.path();
        guarded("B", || s0.write_to_directory(dir))?.map_err(|e| format!("B: write_to_directory of a valid shard failed: {e:?}"))?;
        if fsize {
            let ctx = format!("B: directory holding S0; MDBInMemoryShard::write_to_directory(S1, {} bytes) while files cannot grow beyond 100 bytes (RLIMIT_FSIZE)", b1.len());
            let res = with_fsize_limit(100, || s1.write_to_directory(dir)).map_err(|p| format!("{ctx}: the code under test panicked: {p}"))?;
            eprintln!("B write_to_directory under the limit: {res:?}");
            let mut expect = vec![&m0];
            if let Ok(p) = &res {
                if !p.exists() {
                    return Err(format!("{ctx} returned Ok({p:?}) but that file does not exist; directory: {}", list(dir)));
                }
                expect.push(&m1);
            }
            check_shard_dir(rt, dir, &expect, Some(&[&b0, &b1]), &ctx)?;
        }
        let not_a_dir = dir.join("plain-file");
        io_ok("write", std::fs::write(&not_a_dir, b"x"));
        let ctx = "B: MDBInMemoryShard::write_to_directory(S1) where the target 'directory' is a regular file".to_string();
        let res = guarded(&ctx, || s1.write_to_directory(&not_a_dir))?;
        if let Ok(p) = res {
            if !p.exists() {
                return Err(format!("{ctx} returned Ok({p:?}) but that file does not exist"));
            }
        }
        check_shard_dir(rt, dir, &[&m0], Some(&[&b0, &b1]), &ctx)?;
    }
    // ShardFileManager::flush
    for mode in ["rlimit", "not-a-directory"] {
        if mode == "rlimit" && !fsize {
            continue;
        }
        let d = tmp();
        let dir = d.path().join("session");
        io_ok("mkdir", std::fs::create_dir(&dir));
        guarded("B", || s0.write_to_directory(&dir))?.map_err(|e| format!("B: write_to_directory of a valid shard failed: {e:?}"))?;
        let ctx0 = "B: session directory holding S0; ShardFileManager::new_in_session_directory; the records of S1 are added (add_cas_block / add_file_reconstruction_info)".to_string();
        let mgr = guarded(&ctx0, || rt.block_on(ShardFileManager::new_in_session_directory(&dir)))?.map_err(|e| format!("{ctx0}: {e:?}"))?;
        for (_, cas) in s1.cas_content.iter() {
            let cas: MDBCASInfo = (**cas).clone();
            guarded(&ctx0, || rt.block_on(mgr.add_cas_block(cas)))?.map_err(|e| format!("{ctx0}: add_cas_block failed: {e:?}"))?;
        }
        for (_, fi) in s1.file_content.iter() {
            guarded(&ctx0, || rt.block_on(mgr.add_file_reconstruction_info(fi.clone())))?.map_err(|e| format!("{ctx0}: add_file_reconstruction_info failed: {e:?}"))?;
        }
        check_manager(rt, &mgr, &[&m0, &m1], &format!("{ctx0}; before the flush"))?;
        let ctx;
        let res;
        if mode == "rlimit" {
            ctx = format!("{ctx0}; flush() while files cannot grow beyond 100 bytes (RLIMIT_FSIZE)");
            res = with_fsize_limit(100, || rt.block_on(mgr.flush())).map_err(|p| format!("{ctx}: the code under test panicked: {p}"))?;
        } else {
            ctx = format!("{ctx0}; the session directory is moved away and a regular file put in its place; flush(); the directory is moved back");
            let away = d.path().join("session.away");
            io_ok("rename", std::fs::rename(&dir, &away));
            io_ok("write", std::fs::write(&dir, b"x"));
            let r = guarded(&ctx, || rt.block_on(mgr.flush()));
            io_ok("remove", std::fs::remove_file(&dir));
            io_ok("rename", std::fs::rename(&away, &dir));
            res = r?;
        }
        eprintln!("B flush ({mode}): {res:?}");
        match &res {
            Ok(Some(p)) => {
                if !p.exists() {
                    return Err(format!("{ctx} returned Ok({p:?}) but that file does not exist; directory: {}", list(&dir)));
                }
                check_shard_dir(rt, &dir, &[&m0, &m1], None, &ctx)?;
            },
            Ok(None) => return Err(format!("{ctx} returned Ok(None) - 'nothing to write' - although the records of S1 were pending")),
            Err(_) => {
                check_shard_dir(rt, &dir, &[&m0], None, &ctx)?;
            },
        }
        // the running manager still answers everything it answered before the failed flush
        check_manager(rt, &mgr, &[&m0, &m1], &format!("{ctx} (returned {}); the same manager afterwards", if res.is_ok() { "Ok" } else { "an error" }))?;
        // fault gone: everything gets published
        let ctx2 = format!("{ctx}; then flush() again without the fault");
        let r2 = guarded(&ctx2, || rt.block_on(mgr.flush()))?.map_err(|e| format!("{ctx2}: failed: {e:?}"))?;
        if res.is_err() && r2.is_none() {
            return Err(format!("{ctx2} returned Ok(None): the records pending at the failed flush were dropped"));
        }
        check_manager(rt, &mgr, &[&m0, &m1], &ctx2)?;
        check_shard_dir(rt, &dir, &[&m0, &m1], None, &ctx2)?;
    }
    Ok(())
}

// ---------------------------------------------------------------- F: consolidation that cannot write the merged shard
fn scenario_f(rt: &tokio::runtime::Runtime, seed: u64, fsize: bool) -> W {
    if !fsize {
        return Ok(());
    }
    let d = tmp();
    let dir = d.path();
    let mut models = Vec::new();
    let mut largest = 0u64;
    for i in 0..3u64 {
        let (s, m) = make_shard(seed, 20 + i, 3 + i as usize, 5, 3);
        let p = guarded("F", || s.write_to_directory(dir))?.map_err(|e| format!("F: write_to_directory of a valid shard failed: {e:?}"))?;
        largest = largest.max(io_ok("metadata", std::fs::metadata(&p)).len());
        models.push(m);
    }
    let expect: Vec<&ShardModel> = models.iter().collect();
    let ctx0 = "F: directory with three staged shards".to_string();
    check_shard_dir(rt, dir, &expect, None, &ctx0)?;
    let ctx = format!("{ctx0}; consolidate_shards_in_directory(target 1 MiB) while files cannot grow beyond {largest} bytes (the largest input; the merged shard is larger)");
    let res = with_fsize_limit(largest, || consolidate_shards_in_directory(dir, 1 << 20)).map_err(|p| format!("{ctx}: the code under test panicked: {p}"))?;
    eprintln!("F consolidate under the limit: {:?}", res.as_ref().map(|v| v.len()));
    if let Ok(shards) = &res {
        for s in shards {
            if !s.path.exists() {
                return Err(format!("{ctx} returned Ok with a shard {:?} that does not exist", s.path));
            }
        }
    }
    check_shard_dir(rt, dir, &expect, None, &ctx)?;
    let ctx2 = format!("{ctx}; then the same call without the fault");
    let shards = guarded(&ctx2, || consolidate_shards_in_directory(dir, 1 << 20))?.map_err(|e| format!("{ctx2}: failed: {e:?}"))?;
    for s in &shards {
        if !s.path.exists() {
            return Err(format!("{ctx2} returned a shard {:?} that does not exist; directory: {}", s.path, list(dir)));
        }
    }
    check_shard_dir(rt, dir, &expect, None, &ctx2)
}

// ---------------------------------------------------------------- C: chunk cache
const CACHE_CHUNK: u32 = 100;
fn cache_key(seed: u64, k: u64) -> Key {
    Key { prefix: "default".to_string(), hash: hash_of(seed ^ 0xCAC4E, k) }
}
fn cache_item(seed: u64, k: u64, r: &ChunkRange) -> (Vec<u32>, Vec<u8>) {
    let n = r.end - r.start;
    let offsets: Vec<u32> = (0..=n).map(|i| i * CACHE_CHUNK).collect();
    let mut data = Vec::new();
    for i in r.start..r.end {
        data.extend_from_slice(&bytes_of(seed ^ (k << 20) ^ i as u64, CACHE_CHUNK as usize));
    }
    (offsets, data)
}
/// Ok(true) = correct hit, Ok(false) = miss / error; wrong data or a panic is a violation
fn cache_get(c: &DiskCache, seed: u64, k: u64, r: &ChunkRange, ctx: &str) -> Result<bool, String> {
    let key = cache_key(seed, k);
    let what = format!("{ctx}: get(key#{k}, [{},{}))", r.start, r.end);
    match guarded(&what, || c.get(&key, r))? {
        Ok(Some(hit)) => {
            let (off, data) = cache_item(seed, k, r);
            if hit.data.as_ref() != data.as_slice() || hit.offsets.as_ref() != off.as_slice() {
                return Err(format!("{what} is a hit with wrong bytes / offsets ({} bytes, offsets {:?})", hit.data.len(), hit.offsets));
            }
            Ok(true)
        },
        Ok(None) => Ok(false),
        Err(e) => {
            eprintln!("{what}: error {e}");
            Ok(false)
        },
    }
}
fn cache_open(dir: &Path, ctx: &str) -> Result<DiskCache, String> {
    let cfg = CacheConfig { cache_directory: dir.to_path_buf(), cache_size: 1 << 30 };
    guarded(&format!("{ctx}: DiskCache::initialize"), || DiskCache::initialize(&cfg))?
        .map_err(|e| format!("{ctx}: re-opening the cache directory fails: DiskCache::initialize returned {e}"))
}
fn files_below(root: &Path) -> Vec<PathBuf> {
    let mut out = Vec::new();
    let mut stack = vec![root.to_path_buf()];
    while let Some(d) = stack.pop() {
        for ent in io_ok("read_dir", std::fs::read_dir(&d)) {
            let ent = io_ok("dir entry", ent);
            if io_ok("metadata", ent.metadata()).is_dir() {
                stack.push(ent.path());
            } else {
                out.push(ent.path());
            }
        }
    }
    out.sort();
    out
}
fn scenario_c(seed: u64, fsize: bool) -> W {
    let (old_a, old_b, new) = (ChunkRange { start: 2, end: 4 }, ChunkRange { start: 5, end: 6 }, ChunkRange { start: 0, end: 8 });
    for mode in ["rlimit", "rename-blocked"] {
        if mode == "rlimit" && !fsize {
            continue;
        }
        let k = 1u64;
        let key = cache_key(seed, k);
        let d = tmp();
        let root = d.path();
        let ctx0 = "C: DiskCache with items [2,4) and [5,6) of one key (100-byte chunks)".to_string();
        let c = cache_open(root, &ctx0)?;
        for r in [&old_a, &old_b] {
            let (off, data) = cache_item(seed, k, r);
            guarded(&ctx0, || c.put(&key, r, &off, &data))?.map_err(|e| format!("{ctx0}: put failed: {e}"))?;
        }
        if !cache_get(&c, seed, k, &old_a, &ctx0)? || !cache_get(&c, seed, k, &old_b, &ctx0)? {
            infra(format!("{ctx0}: the items just put are not hits"));
        }
        let (off_n, data_n) = cache_item(seed, k, &new);
        let ctx;
        let res;
        if mode == "rlimit" {
            ctx = format!("{ctx0}; put of the encompassing item [0,8) ({} bytes on disk) while files cannot grow beyond 8 bytes (RLIMIT_FSIZE)", data_n.len() + 40);
            res = with_fsize_limit(8, || c.put(&key, &new, &off_n, &data_n)).map_err(|p| format!("{ctx}: the code under test panicked: {p}"))?;
        } else {
            // learn the final name of the item from a scratch cache, plant a non-empty directory there
            let scratch = tmp();
            let sc = cache_open(scratch.path(), "C scratch")?;
            guarded("C scratch", || sc.put(&key, &new, &off_n, &data_n))?.map_err(|e| format!("C scratch: put failed: {e}"))?;
            let f = files_below(scratch.path());
            if f.len() != 1 {
                infra(format!("C scratch: expected one item file, found {f:?}"));
            }
            let rel = f[0].strip_prefix(scratch.path()).unwrap_or_else(|_| infra("strip_prefix".into())).to_path_buf();
            let blocker = root.join(&rel);
            io_ok("mkdir", std::fs::create_dir_all(blocker.join("occupied")));
            ctx = format!("{ctx0}; a non-empty directory sits under the final name of the encompassing item [0,8) (its rename cannot succeed); put of [0,8)");
            res = guarded(&ctx, || c.put(&key, &new, &off_n, &data_n))?;
            io_ok("rmdir", std::fs::remove_dir_all(&blocker));
        }
        eprintln!("C {mode}: put returned {res:?}");
        let ctx = format!("{ctx}, which returned {}", if res.is_ok() { "Ok(())".to_string() } else { format!("{:?}", res.as_ref().err().map(|e| e.to_string())) });
        for r in [&old_a, &old_b] {
            if !cache_get(&c, seed, k, r, &ctx)? {
                return Err(format!(
                    "{ctx}: range [{},{}) was a hit before the interrupted insert and is not retrievable any more in the running cache; files below the cache root: {:?}",
                    r.start,
                    r.end,
                    files_below(root).iter().map(|p| p.file_name().unwrap_or_default().to_string_lossy().to_string()).collect::<Vec<_>>()
                ));
            }
        }
        if res.is_ok() && !cache_get(&c, seed, k, &new, &ctx)? {
            return Err(format!("{ctx}: put reported success but [0,8) is not retrievable"));
        }
        drop(c);
        let ctx = format!("{ctx}; cache re-opened on the directory");
        let c = cache_open(root, &ctx)?;
        for r in [&old_a, &old_b] {
            if !cache_get(&c, seed, k, r, &ctx)? {
                return Err(format!("{ctx}: range [{},{}) was a hit before the interrupted insert and is gone after the restart", r.start, r.end));
            }
        }
        cache_get(&c, seed, k, &new, &ctx)?;
        // normal flow continues
        guarded(&ctx, || c.put(&key, &new, &off_n, &data_n))?.map_err(|e| format!("{ctx}: a later put of [0,8) without the fault failed: {e}"))?;
        if !cache_get(&c, seed, k, &new, &ctx)? || !cache_get(&c, seed, k, &old_a, &ctx)? {
            return Err(format!("{ctx}: after a later successful put of [0,8) the ranges [0,8) / [2,4) are not hits"));
        }
    }
    // C3: second handle re-puts an item that is already published; the final name must never disappear
    let mut missing_total = 0u64;
    let mut other_len_total = 0u64;
    for round in 0..200u64 {
        let k = 100 + round;
        let key = cache_key(seed, k);
        let d = tmp();
        let root = d.path();
        let hb = cache_open(root, "C3")?;
        let ha = cache_open(root, "C3")?;
        let r = ChunkRange { start: 0, end: 40 };
        let (off, data) = cache_item(seed, k, &r);
        guarded("C3", || ha.put(&key, &r, &off, &data))?.map_err(|e| format!("C3: put failed: {e}"))?;
        let f = files_below(root);
        if f.len() != 1 {
            infra(format!("C3: expected one item file, found {f:?}"));
        }
        let item = f[0].clone();
        let want_len = io_ok("metadata", std::fs::metadata(&item)).len();
        let stop = Arc::new(AtomicBool::new(false));
        let started = Arc::new(AtomicBool::new(false));
        let missing = Arc::new(AtomicU64::new(0));
        let other_len = Arc::new(AtomicU64::new(0));
        let watcher = {
            let (stop, started, missing, other_len, item) = (stop.clone(), started.clone(), missing.clone(), other_len.clone(), item.clone());
            std::thread::spawn(move || {
                started.store(true, Ordering::Release);
                while !stop.load(Ordering::Relaxed) {
                    match std::fs::metadata(&item) {
                        Ok(md) if md.len() == want_len => {},
                        Ok(_) => {
                            other_len.fetch_add(1, Ordering::Relaxed);
                        },
                        Err(_) => {
                            missing.fetch_add(1, Ordering::Relaxed);
                        },
                    }
                }
            })
        };
        while !started.load(Ordering::Acquire) {
            std::hint::spin_loop();
        }
        let res = guarded("C3", || hb.put(&key, &r, &off, &data));
        stop.store(true, Ordering::Relaxed);
        let _ = watcher.join();
        res?.map_err(|e| format!("C3: put through the second handle failed: {e}"))?;
        missing_total += missing.load(Ordering::Relaxed);
        other_len_total += other_len.load(Ordering::Relaxed);
        let hc = cache_open(root, "C3")?;
        if !cache_get(&hc, seed, k, &r, "C3: two handles put the same item; re-opened")? {
            return Err("C3: two handles on one cache directory put the same item one after the other; after re-opening the item is not a hit".into());
        }
    }
    if missing_total + other_len_total > 0 {
        return Err(format!(
            "C3: handle B was opened on the empty cache directory, handle A put item [0,40) of a key (published, retrievable), then B put the same item; while B's put ran, a watcher thread found the item's final name missing in {missing_total} samples and with another length in {other_len_total} samples (200 rounds) - a process stop at such an instant loses a record that was retrievable before"
        ));
    }
    Ok(())
}

// ---------------------------------------------------------------- D: local xorb store
fn xorb(seed: u64, tag: u64, n_chunks: usize, chunk_len: usize) -> (MerkleHash, Vec<u8>, Vec<(MerkleHash, u32)>) {
    let mut data = Vec::new();
    let mut bounds = Vec::new();
    for i in 0..n_chunks as u64 {
        let c = bytes_of(seed ^ (tag << 16) ^ i, chunk_len);
        data.extend_from_slice(&c);
        bounds.push((compute_data_hash(&c), data.len() as u32));
    }
    // LocalClient::put does not validate the xorb hash (the server side does), any fixed hash names the object
    (hash_of(seed ^ 0x0B, tag), data, bounds)
}
fn xorb_files(dir: &Path) -> Vec<String> {
    let mut v: Vec<String> = io_ok("read_dir", std::fs::read_dir(dir)).filter_map(|e| e.ok()).map(|e| e.file_name().to_string_lossy().to_string()).collect();
    v.sort();
    v
}
fn scenario_d(rt: &tokio::runtime::Runtime, seed: u64, fsize: bool) -> W {
    for mode in ["rlimit", "not-a-directory"] {
        if mode == "rlimit" && !fsize {
            continue;
        }
        let d = tmp();
        let base = d.path().join("cas");
        let xdir = base.join("xorbs");
        let ctx0 = "D: LocalClient holding xorb X0".to_string();
        let client = guarded(&ctx0, || rt.block_on(async { LocalClient::new(&base, None) }))?.map_err(|e| format!("{ctx0}: LocalClient::new failed: {e:?}"))?;
        let (h0, d0, b0) = xorb(seed, 0, 3, 500);
        let (h1, d1, b1) = xorb(seed, 1, 4, 400);
        guarded(&ctx0, || rt.block_on(client.put("default", &h0, d0.clone(), b0.clone())))?.map_err(|e| format!("{ctx0}: put of a valid xorb failed: {e:?}"))?;
        if client.get(&h0).ok().as_ref() != Some(&d0) {
            infra(format!("{ctx0}: the xorb just put is not served"));
        }
        let ctx;
        let res;
        if mode == "rlimit" {
            ctx = format!("{ctx0}; put of xorb X1 ({} bytes, 4 chunks) while files cannot grow beyond 8 bytes (RLIMIT_FSIZE)", d1.len());
            res = with_fsize_limit(8, || rt.block_on(client.put("default", &h1, d1.clone(), b1.clone()))).map_err(|p| format!("{ctx}: the code under test panicked: {p}"))?;
        } else {
            ctx = format!("{ctx0}; the xorbs directory is moved away and a regular file put in its place; put of xorb X1; the directory is moved back");
            let away = base.join("xorbs.away");
            io_ok("rename", std::fs::rename(&xdir, &away));
            io_ok("write", std::fs::write(&xdir, b"x"));
            let r = guarded(&ctx, || rt.block_on(client.put("default", &h1, d1.clone(), b1.clone())));
            io_ok("remove", std::fs::remove_file(&xdir));
            io_ok("rename", std::fs::rename(&away, &xdir));
            res = r?;
        }
        eprintln!("D {mode}: put returned {res:?}; xorbs directory: {:?}", xorb_files(&xdir));
        let ctx = format!("{ctx}, which returned {}", if res.is_ok() { "Ok" } else { "an error" });
        // (1) every default.<hash> deserializes to the bytes put
        for name in xorb_files(&xdir) {
            let Some(hex) = name.strip_prefix("default.") else { continue };
            let Ok(h) = MerkleHash::from_hex(hex) else { continue };
            let want = if h == h0 { &d0 } else if h == h1 { &d1 } else { return Err(format!("{ctx}: a file {name} that nobody put is visible under a final xorb name")) };
            match guarded(&ctx, || client.get(&h))? {
                Ok(got) if &got == want => {},
                Ok(got) => return Err(format!("{ctx}: {name} is visible under a final name but yields {} bytes instead of the {} put", got.len(), want.len())),
                Err(e) => {
                    return Err(format!(
                        "{ctx}: {name} ({} bytes) is visible under a final name but is not a complete xorb: {e:?}",
                        std::fs::metadata(xdir.join(&name)).map(|m| m.len()).unwrap_or(0)
                    ))
                },
            }
        }
        if res.is_ok() && client.get(&h1).ok().as_ref() != Some(&d1) {
            return Err(format!("{ctx}: put reported success but X1 is not served"));
        }
        // (2) X0 still served, also by a fresh client; exists() answers
        let fresh = guarded(&ctx, || rt.block_on(async { LocalClient::new(&base, None) }))?.map_err(|e| format!("{ctx}: a fresh LocalClient on the directory fails: {e:?}"))?;
        for (who, c) in [("the same client", &client), ("a fresh client on the directory", &fresh)] {
            if guarded(&ctx, || c.get(&h0))?.ok().as_ref() != Some(&d0) {
                return Err(format!("{ctx}: xorb X0 was retrievable before and is not served any more by {who}"));
            }
            match guarded(&ctx, || rt.block_on(c.exists("default", &h1)))? {
                Ok(e) => {
                    if e && c.get(&h1).ok().as_ref() != Some(&d1) {
                        return Err(format!("{ctx}: exists(X1) is true for {who} but X1 is not served"));
                    }
                },
                Err(e) => return Err(format!("{ctx}: exists(X1) through {who} fails: {e:?} (a partial or foreign object sits under X1's final name); xorbs directory: {:?}", xorb_files(&xdir))),
            }
        }
        // fault gone
        let ctx2 = format!("{ctx}; then put of X1 again without the fault");
        guarded(&ctx2, || rt.block_on(client.put("default", &h1, d1.clone(), b1.clone())))?.map_err(|e| format!("{ctx2}: failed: {e:?}"))?;
        if guarded(&ctx2, || fresh.get(&h1))?.ok().as_ref() != Some(&d1) {
            return Err(format!("{ctx2}: X1 is not served afterwards"));
        }
    }
    Ok(())
}

// ---------------------------------------------------------------- E: SafeFileCreator
fn temp_leftovers(dir: &Path) -> Vec<PathBuf> {
    io_ok("read_dir", std::fs::read_dir(dir))
        .filter_map(|e| e.ok())
        .map(|e| e.path())
        .filter(|p| p.file_name().and_then(|n| n.to_str()).map_or(false, |n| n.starts_with('.') && n.ends_with(".tmp")))
        .collect()
}
fn scenario_e(seed: u64, fsize: bool) -> W {
    let v1 = bytes_of(seed ^ 1, 3000);
    let v2 = bytes_of(seed ^ 2, 3500);
    let big = bytes_of(seed ^ 3, 64 * 1024);
    if fsize {
        for existing in [false, true] {
            // E1
            let d = tmp();
            let dest = d.path().join("default.0123456789abcdef");
            if existing {
                io_ok("write", std::fs::write(&dest, &v1));
            }
            let ctx = format!(
                "E1: {}; SafeFileCreator::new(dest), write_all of {} bytes, close() while files cannot grow beyond 8 bytes (RLIMIT_FSIZE)",
                if existing { "destination exists with content V1 (3000 bytes)" } else { "fresh destination" },
                v2.len()
            );
            let mut w = guarded(&ctx, || SafeFileCreator::new(&dest))?.map_err(|e| format!("{ctx}: SafeFileCreator::new failed: {e}"))?;
            let res = with_fsize_limit(8, || w.write_all(&v2).and_then(|_| w.close())).map_err(|p| format!("{ctx}: the code under test panicked: {p}"))?;
            std::mem::forget(w); // the process is gone
            eprintln!("E1 existing={existing}: {res:?}");
            let now = std::fs::read(&dest).ok();
            let fine = match (&res, existing) {
                (Ok(()), _) => now.as_ref() == Some(&v2),
                (Err(_), true) => now.as_ref() == Some(&v1) || now.as_ref() == Some(&v2),
                (Err(_), false) => now.is_none() || now.as_ref() == Some(&v2),
            };
            if !fine {
                return Err(format!("{ctx} returned {res:?}; the final name now holds {:?} bytes, which is neither the old nor the complete new content; directory: {}", now.map(|b| b.len()), list(d.path())));
            }
            // E2
            let d = tmp();
            let dest = d.path().join("item");
            if existing {
                io_ok("write", std::fs::write(&dest, &v1));
            }
            let ctx = format!(
                "E2: {}; SafeFileCreator::new(dest), write_all of 65536 bytes while files cannot grow beyond 20000 bytes (RLIMIT_FSIZE), then the process is gone (no close, no destructor)",
                if existing { "destination exists with content V1" } else { "fresh destination" }
            );
            let mut w = guarded(&ctx, || SafeFileCreator::new(&dest))?.map_err(|e| format!("{ctx}: SafeFileCreator::new failed: {e}"))?;
            let res = with_fsize_limit(20000, || w.write_all(&big)).map_err(|p| format!("{ctx}: the code under test panicked: {p}"))?;
            std::mem::forget(w);
            let now = std::fs::read(&dest).ok();
            if res.is_ok() {
                eprintln!("E2: write_all unexpectedly succeeded under the limit");
            }
            if now != if existing { Some(v1.clone()) } else { None } {
                return Err(format!("{ctx}: the final name now holds {:?} bytes although nothing was published; directory: {}", now.map(|b| b.len()), list(d.path())));
            }
        }
    }
    // E3: the rename cannot happen; the existing destination must survive
    for same_content in [true, false] {
        let d = tmp();
        let dest = d.path().join("default.0123456789abcdef");
        let ctx0 = "E3: writer 1 publishes dest with V1 (SafeFileCreator::new, write_all, close)".to_string();
        let mut w1 = guarded(&ctx0, || SafeFileCreator::new(&dest))?.map_err(|e| format!("{ctx0}: {e}"))?;
        guarded(&ctx0, || w1.write_all(&v1).and_then(|_| w1.close()))?.map_err(|e| format!("{ctx0}: failed: {e}"))?;
        drop(w1);
        if std::fs::read(&dest).ok().as_ref() != Some(&v1) || !temp_leftovers(d.path()).is_empty() {
            return Err(format!("{ctx0}: afterwards dest does not hold V1 or a temporary file is left: {}", list(d.path())));
        }
        let newc = if same_content { &v1 } else { &v2 };
        let ctx = format!(
            "{ctx0}; writer 2 (unaware of it) writes {} to the same dest and flushes; its temp file is taken away so that the rename inside close() cannot happen (= process stop right before rename(2)); close(); no destructor",
            if same_content { "the same content" } else { "V2" }
        );
        let mut w2 = guarded(&ctx, || SafeFileCreator::new(&dest))?.map_err(|e| format!("{ctx}: {e}"))?;
        guarded(&ctx, || w2.write_all(newc).and_then(|_| w2.flush()))?.map_err(|e| format!("{ctx}: write failed: {e}"))?;
        let temps = temp_leftovers(d.path());
        if temps.len() != 1 {
            infra(format!("E3: expected exactly one temp file, found {temps:?}"));
        }
        io_ok("remove", std::fs::remove_file(&temps[0]));
        let res = guarded(&ctx, || w2.close())?;
        std::mem::forget(w2);
        eprintln!("E3 same_content={same_content}: close returned {res:?}");
        let now = std::fs::read(&dest).ok();
        if res.is_ok() {
            if now.as_ref() != Some(newc) {
                return Err(format!("{ctx} returned Ok but dest holds {:?} bytes", now.map(|b| b.len())));
            }
        } else if now.as_ref() != Some(&v1) {
            return Err(format!(
                "{ctx} returned {res:?}; dest was complete and retrievable before writer 2 started and now {}; directory: {}",
                match &now {
                    None => "does not exist any more".to_string(),
                    Some(b) => format!("holds {} bytes that are not V1", b.len()),
                },
                list(d.path())
            ));
        }
    }
    // E4: healthy replace
    {
        let d = tmp();
        let dest = d.path().join("item");
        io_ok("write", std::fs::write(&dest, &v1));
        let ctx = "E4: dest holds V1; SafeFileCreator::new(dest), write_all(V2), close()".to_string();
        let mut w = guarded(&ctx, || SafeFileCreator::new(&dest))?.map_err(|e| format!("{ctx}: {e}"))?;
        guarded(&ctx, || w.write_all(&v2).and_then(|_| w.close()))?.map_err(|e| format!("{ctx}: failed: {e}"))?;
        drop(w);
        if std::fs::read(&dest).ok().as_ref() != Some(&v2) || !temp_leftovers(d.path()).is_empty() {
            return Err(format!("{ctx}: afterwards dest does not hold V2 or a temporary file is left: {}", list(d.path())));
        }
    }
    // E5: the final name while it is republished
    {
        let d = tmp();
        let dest = d.path().join("item");
        let content = bytes_of(seed ^ 5, 4096);
        let ctx = "E5: dest published through SafeFileCreator, then republished 2000 times with the same 4096 bytes while a watcher thread samples the final name".to_string();
        let publish = |ctx: &str| -> W {
            let mut w = guarded(ctx, || SafeFileCreator::new(&dest))?.map_err(|e| format!("{ctx}: {e}"))?;
            guarded(ctx, || w.write_all(&content).and_then(|_| w.close()))?.map_err(|e| format!("{ctx}: failed: {e}"))?;
            Ok(())
        };
        publish(&ctx)?;
        let stop = Arc::new(AtomicBool::new(false));
        let missing = Arc::new(AtomicU64::new(0));
        let partial = Arc::new(AtomicU64::new(0));
        let samples = Arc::new(AtomicU64::new(0));
        let watcher = {
            let (stop, missing, partial, samples, dest) = (stop.clone(), missing.clone(), partial.clone(), samples.clone(), dest.clone());
            std::thread::spawn(move || {
                while !stop.load(Ordering::Relaxed) {
                    samples.fetch_add(1, Ordering::Relaxed);
                    match std::fs::metadata(&dest) {
                        Ok(md) if md.len() == 4096 => {},
                        Ok(_) => {
                            partial.fetch_add(1, Ordering::Relaxed);
                        },
                        Err(_) => {
                            missing.fetch_add(1, Ordering::Relaxed);
                        },
                    }
                }
            })
        };
        let mut r = Ok(());
        for _ in 0..2000 {
            r = publish(&ctx);
            if r.is_err() {
                break;
            }
        }
        stop.store(true, Ordering::Relaxed);
        let _ = watcher.join();
        r?;
        let (m, p, s) = (missing.load(Ordering::Relaxed), partial.load(Ordering::Relaxed), samples.load(Ordering::Relaxed));
        eprintln!("E5: {s} samples, {m} missing, {p} partial");
        if m + p > 0 {
            return Err(format!("{ctx}: of {s} samples the final name was missing in {m} and had another length in {p} - a process stop at such an instant loses / truncates a file that was complete before"));
        }
    }
    Ok(())
}

// ---------------------------------------------------------------- G: further writers
async fn upload_shard_via<T: cas_client::ShardClientInterface>(c: &T, hash: &MerkleHash, data: &[u8]) -> Result<bool, cas_client::CasClientError> {
    c.upload_shard("default", hash, true, data, &[0u8; 32]).await
}
async fn file_info_via<T: cas_client::ShardClientInterface>(c: &T, h: &MerkleHash) -> Result<bool, cas_client::CasClientError> {
    Ok(c.get_file_reconstruction_info(h).await?.is_some())
}
fn scenario_g(rt: &tokio::runtime::Runtime, seed: u64, fsize: bool) -> W {
    use std::os::unix::fs::PermissionsExt;
    let v1 = bytes_of(seed ^ 0x61, 3000);
    let v2 = bytes_of(seed ^ 0x62, 3500);
    // G1: new_unnamed / replace_existing
    {
        let d = tmp();
        let dest = d.path().join("sub").join("named-later");
        io_ok("mkdir", std::fs::create_dir(d.path().join("sub")));
        let ctx = "G1: SafeFileCreator::new_unnamed(dir), write_all, close() before a destination is set".to_string();
        let mut w = guarded(&ctx, || SafeFileCreator::new_unnamed(d.path()))?.map_err(|e| format!("{ctx}: new_unnamed failed: {e}"))?;
        guarded(&ctx, || w.write_all(&v1))?.map_err(|e| format!("{ctx}: write failed: {e}"))?;
        let res = guarded(&ctx, || w.close())?;
        let visible: Vec<String> = io_ok("read_dir", std::fs::read_dir(d.path())).filter_map(|e| e.ok()).map(|e| e.file_name().to_string_lossy().to_string()).filter(|n| !n.starts_with('.') && n != "sub").collect();
        if res.is_ok() || !visible.is_empty() {
            return Err(format!("{ctx} returned {res:?}; entries under non-temporary names: {visible:?}"));
        }
        let ctx = format!("{ctx}; then set_dest_path(dest) and close()");
        w.set_dest_path(&dest);
        guarded(&ctx, || w.close())?.map_err(|e| format!("{ctx}: failed: {e}"))?;
        drop(w);
        if std::fs::read(&dest).ok().as_ref() != Some(&v1) || !temp_leftovers(d.path()).is_empty() {
            return Err(format!("{ctx}: dest does not hold the bytes written or a temporary file is left: {} / {}", list(d.path()), list(&d.path().join("sub"))));
        }
        if fsize {
            let dest2 = d.path().join("sub").join("never");
            let ctx = "G1: SafeFileCreator::new_unnamed, set_dest_path, write_all of 3500 bytes, close() while files cannot grow beyond 8 bytes (RLIMIT_FSIZE)".to_string();
            let mut w = guarded(&ctx, || SafeFileCreator::new_unnamed(d.path()))?.map_err(|e| format!("{ctx}: {e}"))?;
            w.set_dest_path(&dest2);
            let res = with_fsize_limit(8, || w.write_all(&v2).and_then(|_| w.close())).map_err(|p| format!("{ctx}: the code under test panicked: {p}"))?;
            std::mem::forget(w);
            let now = std::fs::read(&dest2).ok();
            if !(now.is_none() || now.as_ref() == Some(&v2)) || (res.is_ok() && now.as_ref() != Some(&v2)) {
                return Err(format!("{ctx} returned {res:?}; the final name holds {:?} bytes", now.map(|b| b.len())));
            }
        }
        for faulted in [false, true] {
            if faulted && !fsize {
                continue;
            }
            let dest = d.path().join(format!("replace-{faulted}"));
            io_ok("write", std::fs::write(&dest, &v1));
            io_ok("chmod", std::fs::set_permissions(&dest, std::fs::Permissions::from_mode(0o640)));
            let ctx = format!("G1: dest holds V1 with mode 0640; SafeFileCreator::replace_existing(dest), write_all(V2), close(){}", if faulted { " while files cannot grow beyond 8 bytes (RLIMIT_FSIZE)" } else { "" });
            let mut w = guarded(&ctx, || SafeFileCreator::replace_existing(&dest))?.map_err(|e| format!("{ctx}: replace_existing failed: {e}"))?;
            let res = if faulted {
                with_fsize_limit(8, || w.write_all(&v2).and_then(|_| w.close())).map_err(|p| format!("{ctx}: the code under test panicked: {p}"))?
            } else {
                guarded(&ctx, || w.write_all(&v2).and_then(|_| w.close()))?
            };
            std::mem::forget(w);
            let now = std::fs::read(&dest).ok();
            let mode = std::fs::metadata(&dest).map(|m| m.permissions().mode() & 0o777).unwrap_or(0);
            let fine = match &res {
                Ok(()) => now.as_ref() == Some(&v2),
                Err(_) => now.as_ref() == Some(&v1) || now.as_ref() == Some(&v2),
            };
            if !fine || (!faulted && res.is_err()) {
                return Err(format!("{ctx} returned {res:?}; dest now holds {:?} bytes (V1 = 3000, V2 = 3500)", now.map(|b| b.len())));
            }
            if res.is_ok() && mode != 0o640 {
                eprintln!("note: {ctx}: mode afterwards is {mode:o}");
            }
        }
    }
    // G2: file-level set operations whose output cannot be written
    {
        let d = tmp();
        let dir = d.path();
        let (s1, m1) = make_shard(seed, 40, 4, 6, 3);
        let (s2, m2) = make_shard(seed, 41, 3, 5, 4);
        let (p1, p2) = (dir.join("in1.mdb"), dir.join("in2.mdb"));
        let (b1, b2) = (shard_bytes(&s1), shard_bytes(&s2));
        io_ok("write", std::fs::write(&p1, &b1));
        io_ok("write", std::fs::write(&p2, &b2));
        let limit = b1.len().max(b2.len()) as u64;
        let parse = |p: &Path, ctx: &str| -> Result<Option<(BTreeSet<MerkleHash>, BTreeSet<MerkleHash>)>, String> {
            let Ok(bytes) = std::fs::read(p) else { return Ok(None) };
            let mut cur = Cursor::new(&bytes);
            let r = guarded(ctx, || -> Result<_, String> {
                let info = MDBShardInfo::load_from_reader(&mut cur).map_err(|e| format!("{e:?}"))?;
                if info.num_bytes() != bytes.len() as u64 {
                    return Err(format!("footer describes {} bytes", info.num_bytes()));
                }
                let f = info.read_all_file_info_sections(&mut cur).map_err(|e| format!("{e:?}"))?;
                let x = info.read_all_cas_blocks_full(&mut cur).map_err(|e| format!("{e:?}"))?;
                Ok((f.iter().map(|f| f.metadata.file_hash).collect(), x.iter().map(|x| x.metadata.cas_hash).collect()))
            })?;
            match r {
                Ok(v) => Ok(Some(v)),
                Err(e) => Err(format!("{ctx}: the output file {:?} ({} bytes) exists but is not a complete shard: {e}; directory: {}", p.file_name().unwrap_or_default(), bytes.len(), list(dir))),
            }
        };
        let union_files: BTreeSet<MerkleHash> = m1.files.iter().chain(m2.files.iter()).cloned().collect();
        let union_xorbs: BTreeSet<MerkleHash> = m1.xorbs.iter().chain(m2.xorbs.iter()).map(|x| x.0).collect();
        let diff_files: BTreeSet<MerkleHash> = m2.files.iter().cloned().collect(); // the two shards are disjoint: second minus first
        for faulted in [true, false] {
            if faulted && !fsize {
                continue;
            }
            for op in ["shard_file_union", "shard_file_difference"] {
                let out = dir.join(format!("{op}-{faulted}.out"));
                let ctx = format!("G2: {op}(in1 {} bytes, in2 {} bytes, out){}", b1.len(), b2.len(), if faulted { format!(" while files cannot grow beyond {limit} bytes (RLIMIT_FSIZE)") } else { String::new() });
                let call = || if op == "shard_file_union" { mdb_shard::set_operations::shard_file_union(&p1, &p2, &out).map(|_| ()) } else { mdb_shard::set_operations::shard_file_difference(&p1, &p2, &out).map(|_| ()) };
                let res = if faulted { with_fsize_limit(limit, call).map_err(|p| format!("{ctx}: the code under test panicked: {p}"))? } else { guarded(&ctx, call)? };
                eprintln!("{ctx}: {res:?}");
                let ctx = format!("{ctx}, which returned {}", if res.is_ok() { "Ok" } else { "an error" });
                match parse(&out, &ctx)? {
                    None if res.is_ok() => return Err(format!("{ctx}: the output file does not exist")),
                    None => {},
                    Some((f, x)) => {
                        let want_f = if op == "shard_file_union" { &union_files } else { &diff_files };
                        if &f != want_f || (op == "shard_file_union" && x != union_xorbs) {
                            return Err(format!("{ctx}: the output file is a complete shard but holds {} file / {} xorb records instead of the expected {} / {}", f.len(), x.len(), want_f.len(), union_xorbs.len()));
                        }
                    },
                }
                if !faulted && res.is_err() {
                    return Err(format!("{ctx} without any fault: {res:?}"));
                }
                if std::fs::read(&p1).ok().as_ref() != Some(&b1) || std::fs::read(&p2).ok().as_ref() != Some(&b2) {
                    return Err(format!("{ctx}: an input file was modified or removed"));
                }
            }
        }
    }
    // G3: LocalClient::upload_shard
    if fsize {
        let d = tmp();
        let base = d.path().join("cas");
        let ctx0 = "G3: LocalClient on a fresh directory".to_string();
        let client = guarded(&ctx0, || rt.block_on(async { LocalClient::new(&base, None) }))?.map_err(|e| format!("{ctx0}: LocalClient::new failed: {e:?}"))?;
        let (s0, m0) = make_shard(seed, 50, 3, 4, 3);
        let (s1, m1) = make_shard(seed, 51, 5, 8, 4);
        let (b0, b1) = (shard_bytes(&s0), shard_bytes(&s1));
        let (h0, h1) = (compute_data_hash(&b0), compute_data_hash(&b1));
        guarded(&ctx0, || rt.block_on(upload_shard_via(&client, &h0, &b0)))?.map_err(|e| format!("{ctx0}: upload_shard of a valid shard failed: {e:?}"))?;
        let ctx = format!("{ctx0} holding shard S50; upload_shard(S51, {} bytes) while files cannot grow beyond 100 bytes (RLIMIT_FSIZE)", b1.len());
        let res = with_fsize_limit(100, || rt.block_on(upload_shard_via(&client, &h1, &b1))).map_err(|p| format!("{ctx}: the code under test panicked: {p}"))?;
        eprintln!("G3: upload_shard under the limit: {res:?}");
        let ctx = format!("{ctx}, which returned {}", if res.is_ok() { "Ok" } else { "an error" });
        let shard_dir = base.join("shards");
        let mut expect = vec![&m0];
        if res.is_ok() {
            expect.push(&m1);
        }
        check_shard_dir(rt, &shard_dir, &expect, Some(&[&b0, &b1]), &ctx)?;
        for (who, c) in [("the same client", None), ("a fresh client on the directory", Some(guarded(&ctx, || rt.block_on(async { LocalClient::new(&base, None) }))?.map_err(|e| format!("{ctx}: a fresh LocalClient on the directory fails: {e:?}"))?))] {
            let c = c.as_ref().unwrap_or(&client);
            for f in &m0.files {
                if !matches!(guarded(&ctx, || rt.block_on(file_info_via(c, f)))?, Ok(true)) {
                    return Err(format!("{ctx}: file record {} of S50 was retrievable before and is not served any more by {who}", f.hex()));
                }
            }
        }
        let ctx2 = format!("{ctx}; then upload_shard(S51) again without the fault");
        guarded(&ctx2, || rt.block_on(upload_shard_via(&client, &h1, &b1)))?.map_err(|e| format!("{ctx2}: failed: {e:?}"))?;
        check_shard_dir(rt, &shard_dir, &[&m0, &m1], Some(&[&b0, &b1]), &ctx2)?;
        let fresh = guarded(&ctx2, || rt.block_on(async { LocalClient::new(&base, None) }))?.map_err(|e| format!("{ctx2}: a fresh LocalClient fails: {e:?}"))?;
        for f in m0.files.iter().chain(m1.files.iter()) {
            if !matches!(guarded(&ctx2, || rt.block_on(file_info_via(&fresh, f)))?, Ok(true)) || !matches!(guarded(&ctx2, || rt.block_on(file_info_via(&client, f)))?, Ok(true)) {
                return Err(format!("{ctx2}: file record {} is not served by the client / a fresh client", f.hex()));
            }
        }
    }
    Ok(())
}

fn run(seed: u64) -> W {
    let only = std::env::var("VERIF_C19_ONLY").unwrap_or_default();
    let on = |name: &str| only.is_empty() || only.split(',').any(|s| s.trim() == name);
    let fsize = fsize_limit_works();
    if !fsize {
        eprintln!("note: lowering RLIMIT_FSIZE has no effect here; the RLIMIT cases are skipped");
    }
    let rt = tokio::runtime::Builder::new_multi_thread().worker_threads(2).enable_all().build().unwrap_or_else(|e| infra(format!("runtime: {e}")));
    let t = std::time::Instant::now();
    if on("A") {
        scenario_a(&rt, seed)?;
        eprintln!("A done at {:?}", t.elapsed());
    }
    if on("B") {
        scenario_b(&rt, seed, fsize)?;
        eprintln!("B done at {:?}", t.elapsed());
    }
    if on("F") {
        scenario_f(&rt, seed, fsize)?;
        eprintln!("F done at {:?}", t.elapsed());
    }
    if on("C") {
        scenario_c(seed, fsize)?;
        eprintln!("C done at {:?}", t.elapsed());
    }
    if on("D") {
        scenario_d(&rt, seed, fsize)?;
        eprintln!("D done at {:?}", t.elapsed());
    }
    if on("E") {
        scenario_e(seed, fsize)?;
        eprintln!("E done at {:?}", t.elapsed());
    }
    if on("G") {
        scenario_g(&rt, seed, fsize)?;
        eprintln!("G done at {:?}", t.elapsed());
    }
    Ok(())
}

fn main() {
    let seed: u64 = std::env::var("VERIF_SEED").ok().and_then(|s| s.parse().ok()).unwrap_or(0);
    std::panic::set_hook(Box::new(|info| eprintln!("panic: {info}")));
    match catch_unwind(|| run(seed)) {
        Ok(Ok(())) => println!("no violation found"),
        Ok(Err(w)) => {
            println!("WITNESS {}", w.replace('\n', " "));
            std::process::exit(1);
        },
        Err(p) => infra(format!("the search program itself panicked: {}", panic_msg(p))),
    }
}
