//! Witness search for C01 / C02 / C05 (deduper side) / C15 at the deduper level: feed the REAL FileDeduper chunk sequences with
//! repeats (within the file, across xorb cuts, against a remote store, against shards that arrive through the global-dedup restart
//! path) through a truthful mock store that records every registered xorb, finalize, merge the files' remaining data with the REAL
//! DataAggregator::merge_in / finalize the way the upload session does, and check that
//!   * every file's segment list denotes exactly the fed chunk-hash sequence (C01), segment byte counts are the sums of the chunk
//!     lengths, the verification entries are the keyed range hashes of the denoted chunks, the file hash is the salted aggregate of
//!     the (chunk hash, length) list computed independently, the header flags / entry count fit, every xorb's name is the aggregate
//!     hash recomputed from its chunks and its chunk table fits its data (C02),
//!   * every xorb is non-empty and within MAX_XORB_CHUNKS / MAX_XORB_BYTES, no segment keeps the zero hash (C15).
//! The limits are read once per process: the program re-executes itself for MAX_XORB_CHUNKS = default / 1 / 2 / 8 (+ 1000-byte
//! xorbs) / 5 (+ 4096-byte xorbs).  Prints `WITNESS ...` and exits 1 on the first violation.
//! Opt-in probe (out of the stated domain): VERIF_C01_OVERSIZE_CHUNK=1 feeds one chunk longer than MAX_XORB_BYTES.
use std::collections::{HashMap, VecDeque};
use std::panic::{catch_unwind, AssertUnwindSafe};
use std::sync::{Arc, Mutex};

use deduplication::constants::{MAX_XORB_BYTES, MAX_XORB_CHUNKS};
use deduplication::{Chunk, DataAggregator, DeduplicationDataInterface, FileDeduper, RawXorbData};
use mdb_shard::file_structs::{FileDataSequenceEntry, FileMetadataExt, MDBFileInfo};
use merklehash::{compute_data_hash, compute_internal_node_hash, MerkleHash};
use rand::rngs::StdRng;
use rand::{Rng, SeedableRng};

type HL = (MerkleHash, usize);

/// (MAX_XORB_CHUNKS, MAX_XORB_BYTES) overrides; None = default
const CONFIGS: [(Option<usize>, Option<usize>); 5] = [(None, None), (Some(1), None), (Some(2), None), (Some(8), Some(1000)), (Some(5), Some(4096))];

/// the published key of the per-segment verification hash (copied, not imported)
const VERIFICATION_KEY: [u8; 32] = [
    127, 24, 87, 214, 206, 86, 237, 102, 18, 127, 249, 19, 231, 165, 195, 243, 164, 205, 38, 213, 181, 219, 73, 230, 65, 36, 152, 127, 40, 251, 148, 195,
];

/// The published aggregate-hash construction (same text as in c07_xorb): level by level, cut a group after child i when it is the
/// last child, or the group already has >= 2 earlier children and word 3 of child i's hash is 0 mod 4, or it has 8 earlier children.
fn reference_root(list: &[HL]) -> MerkleHash {
    if list.is_empty() {
        return MerkleHash::default();
    }
    let mut level: Vec<HL> = list.to_vec();
    while level.len() > 1 {
        let mut next = vec![];
        let mut start = 0;
        for i in 0..level.len() {
            let earlier = i - start;
            if (earlier >= 2 && level[i].0[3] % 4 == 0) || earlier >= 8 || i + 1 == level.len() {
                let mut text = String::new();
                let mut total = 0;
                for (h, n) in &level[start..=i] {
                    text.push_str(&format!("{:016x}{:016x}{:016x}{:016x} : {}\n", h[0], h[1], h[2], h[3], n));
                    total += n;
                }
                next.push((compute_internal_node_hash(text.as_bytes()), total));
                start = i + 1;
            }
        }
        level = next;
    }
    level[0].0
}

#[derive(Default)]
struct Store {
    xorbs: HashMap<MerkleHash, Vec<HL>>,
    first: HashMap<MerkleHash, (MerkleHash, usize)>, // chunk hash -> (xorb, index), first occurrence
    last: HashMap<MerkleHash, (MerkleHash, usize)>,  // ... latest occurrence
    data: HashMap<MerkleHash, Arc<[u8]>>,            // every chunk of the scenario, by hash
    limit_violation: Option<String>,
    registered: Vec<MerkleHash>,                     // xorbs handed over through register_new_xorb, in order
    late: VecDeque<(MerkleHash, Vec<HL>)>,           // xorbs of shards that arrive on a global-dedup restart, one per restart
    caps: Vec<usize>,                                // answer lengths are capped by caps[call % len] (truthful but not maximal)
    calls: usize,
    prefer_last: bool,
    queries: usize,
    restarts: usize,
    fail: Option<(u8, usize)>, // injected store failure: (0 query / 1 register query / 2 complete / 3 register xorb, at the k-th such call)
    kind_calls: [usize; 4],
    fired: bool,
}
impl Store {
    fn inject(&mut self, kind: u8) -> Result<(), String> {
        let k = self.kind_calls[kind as usize];
        self.kind_calls[kind as usize] += 1;
        if self.fail == Some((kind, k)) {
            self.fired = true;
            return Err(format!("injected failure of store call kind {kind} #{k}"));
        }
        Ok(())
    }
    fn add(&mut self, x: MerkleHash, chunks: Vec<HL>) {
        for (i, (h, _)) in chunks.iter().enumerate() {
            self.first.entry(*h).or_insert((x, i));
            self.last.insert(*h, (x, i));
        }
        self.xorbs.insert(x, chunks);
    }
}

struct Mock {
    store: Arc<Mutex<Store>>,
    outstanding: usize,
    restart: bool, // like the session with GlobalDedupPolicy::Always: complete_global_dedup_queries() == "some query was registered"
}

#[async_trait::async_trait]
impl DeduplicationDataInterface for Mock {
    type ErrorType = String;
    async fn chunk_hash_dedup_query(&self, q: &[MerkleHash]) -> Result<Option<(usize, FileDataSequenceEntry)>, String> {
        let mut s = self.store.lock().unwrap();
        s.inject(0)?;
        if q.is_empty() {
            if s.limit_violation.is_none() {
                s.limit_violation = Some("the store was queried with an empty hash list".into());
            }
            return Ok(None);
        }
        let cap = if s.caps.is_empty() { usize::MAX } else { s.caps[s.calls % s.caps.len()] }.max(1);
        s.calls += 1;
        let hit = if s.prefer_last { s.last.get(&q[0]) } else { s.first.get(&q[0]) };
        if let Some((x, i)) = hit {
            let list = &s.xorbs[x];
            let mut n = 0;
            let mut bytes = 0;
            while n < q.len() && n < cap && i + n < list.len() && list[i + n].0 == q[n] {
                bytes += list[i + n].1;
                n += 1;
            }
            return Ok(Some((n, FileDataSequenceEntry::new(*x, bytes, *i, *i + n))));
        }
        Ok(None)
    }
    async fn register_global_dedup_query(&mut self, _h: MerkleHash) -> Result<(), String> {
        self.outstanding += 1;
        let mut s = self.store.lock().unwrap();
        s.queries += 1;
        s.inject(1)
    }
    async fn complete_global_dedup_queries(&mut self) -> Result<bool, String> {
        self.store.lock().unwrap().inject(2)?;
        if !self.restart || self.outstanding == 0 {
            self.outstanding = 0;
            return Ok(false);
        }
        self.outstanding = 0;
        let mut s = self.store.lock().unwrap();
        s.restarts += 1;
        if let Some((x, list)) = s.late.pop_front() {
            s.add(x, list);
        }
        Ok(true)
    }
    async fn register_new_xorb(&mut self, x: RawXorbData) -> Result<(), String> {
        let mut s = self.store.lock().unwrap();
        s.inject(3)?;
        check_xorb(&x, &mut s, true);
        let list: Vec<_> = x.cas_info.chunks.iter().map(|c| (c.chunk_hash, c.unpacked_segment_bytes as usize)).collect();
        s.registered.push(x.hash());
        s.add(x.hash(), list);
        Ok(())
    }
}

/// C15 (non-empty, limits) and C02 (name == aggregate recomputed from the chunks; chunk table fits the data)
fn check_xorb(x: &RawXorbData, s: &mut Store, must_be_nonempty: bool) {
    if s.limit_violation.is_some() {
        return;
    }
    let n = x.cas_info.chunks.len();
    let bytes: usize = x.data.iter().map(|d| d.len()).sum();
    if (n == 0 && must_be_nonempty) || n > *MAX_XORB_CHUNKS || bytes > *MAX_XORB_BYTES || (n > 0 && x.hash() == MerkleHash::default()) {
        s.limit_violation = Some(format!("a xorb with {n} chunks / {bytes} bytes was handed to the store (limits {} chunks, {} bytes)", *MAX_XORB_CHUNKS, *MAX_XORB_BYTES));
        return;
    }
    let list: Vec<HL> = x.cas_info.chunks.iter().map(|c| (c.chunk_hash, c.unpacked_segment_bytes as usize)).collect();
    let want = reference_root(&list);
    if x.hash() != want {
        s.limit_violation = Some(format!("a xorb of {n} chunks is named {} but the aggregate hash recomputed from its (chunk hash, length) list is {}", x.hash().hex(), want.hex()));
        return;
    }
    let m = &x.cas_info.metadata;
    if m.num_entries as usize != n || m.num_bytes_in_cas as usize != bytes || x.data.len() != n || x.num_bytes() != bytes {
        s.limit_violation = Some(format!("a xorb with {n} chunk entries / {} data pieces / {bytes} bytes has a header saying {} entries, {} bytes", x.data.len(), m.num_entries, m.num_bytes_in_cas));
        return;
    }
    if x.to_vec() != x.data.iter().flat_map(|d| d.iter().copied()).collect::<Vec<u8>>() {
        s.limit_violation = Some(format!("xorb of {n} chunks: to_vec() is not the concatenation of its data pieces"));
        return;
    }
    let mut pos = 0usize;
    for (i, c) in x.cas_info.chunks.iter().enumerate() {
        let d = &x.data[i];
        let known = s.data.get(&c.chunk_hash);
        if c.chunk_byte_range_start as usize != pos || d.len() != c.unpacked_segment_bytes as usize || known.map(|k| k[..] != d[..]).unwrap_or(true) {
            s.limit_violation = Some(format!(
                "xorb of {n} chunks: chunk entry {i} (start {}, {} bytes) does not fit its data piece ({} bytes at offset {pos}{})",
                c.chunk_byte_range_start, c.unpacked_segment_bytes, d.len(), if known.is_none() { "; the hash is of no chunk that was fed" } else { "" }
            ));
            return;
        }
        pos += d.len();
    }
}

fn chunk(tag: u64, len: usize) -> Chunk {
    let mut d = vec![0u8; len.max(8)];
    d[..8].copy_from_slice(&tag.to_le_bytes());
    Chunk { hash: compute_data_hash(&d), data: Arc::from(d) }
}

fn panic_msg(e: Box<dyn std::any::Any + Send>) -> String {
    e.downcast_ref::<String>().cloned().or_else(|| e.downcast_ref::<&str>().map(|s| s.to_string())).unwrap_or_default()
}

#[derive(Clone, Copy, PartialEq, Debug)]
enum Merge {
    Separate,       // every file's remainder is finalized on its own
    Session,        // merged into an (initially default) aggregator as each file completes, cut-or-merge like the upload session
    SessionReverse, // all files cleaned first, remainders merged in reverse order
    IntoFirst,      // the first file's aggregator is the accumulator
}

#[derive(Clone)]
struct Scenario {
    name: String,
    files: Vec<Vec<Chunk>>,
    remote: Vec<Vec<Chunk>>,
    late: Vec<Vec<Chunk>>,
    blocks: Vec<usize>, // block sizes, cycled; 0 = a call with an empty slice
    caps: Vec<usize>,
    prefer_last: bool,
    restart: bool,
    salt: [u8; 32],
    ext: bool,
    merge: Merge,
    fail: Option<(u8, usize)>,
}
impl Scenario {
    fn simple(name: &str, file: Vec<Chunk>, remote: Vec<Vec<Chunk>>) -> Self {
        Scenario { name: name.into(), files: vec![file], remote, late: vec![], blocks: vec![usize::MAX], caps: vec![], prefer_last: false, restart: false, salt: [7u8; 32], ext: false, merge: Merge::Separate, fail: None }
    }
    fn describe(&self) -> String {
        format!(
            "{} [{} file(s) of {:?} chunks, fed in blocks {:?} (0 = empty call), store answers capped at {:?} chunks{}, global-dedup restarts {}, {} late xorb(s), merge mode {:?}, salt {:#x}.., metadata_ext {}]",
            self.name, self.files.len(), self.files.iter().map(|f| f.len()).collect::<Vec<_>>(), self.blocks, self.caps,
            if self.prefer_last { ", latest occurrence" } else { "" }, if self.restart { "on" } else { "off" }, self.late.len(), self.merge, self.salt[0], if self.ext { "Some" } else { "None" }
        )
    }
}

struct Tracked {
    agg: DataAggregator,
    ids: Vec<usize>,
}

#[derive(Default)]
struct Coverage {
    restarts: usize,
    queries: usize,
    merges: usize,
    global_hits: usize,
    withheld: usize,
    failures: usize,
}

fn run(sc: &Scenario, cov: &mut Coverage) -> Option<String> {
    let name = sc.describe();
    let store = Arc::new(Mutex::new(Store::default()));
    {
        let mut s = store.lock().unwrap();
        s.caps = sc.caps.clone();
        s.prefer_last = sc.prefer_last;
        s.fail = sc.fail;
        for c in sc.files.iter().flatten().chain(sc.remote.iter().flatten()).chain(sc.late.iter().flatten()) {
            s.data.insert(c.hash, c.data.clone());
        }
        for (k, r) in sc.remote.iter().enumerate() {
            let x = compute_data_hash(format!("remote{k}").as_bytes());
            s.add(x, r.iter().map(|c| (c.hash, c.data.len())).collect());
        }
        for (k, r) in sc.late.iter().enumerate() {
            let x = compute_data_hash(format!("late{k}").as_bytes());
            s.late.push_back((x, r.iter().map(|c| (c.hash, c.data.len())).collect()));
        }
    }
    let rt = tokio::runtime::Builder::new_current_thread().build().unwrap();
    let ext = sc.ext.then(|| FileMetadataExt::new(compute_data_hash(b"sha256 stand-in")));
    let mut resolved: Vec<Option<MDBFileInfo>> = vec![None; sc.files.len()];
    let mut file_hashes: Vec<MerkleHash> = vec![];
    let mut acc: Option<Tracked> = match sc.merge {
        Merge::Session | Merge::SessionReverse => {
            let a = DataAggregator::default();
            if !a.is_empty() || a.num_chunks() != 0 || a.num_bytes() != 0 {
                return Some(format!("{name}: DataAggregator::default() is not empty"));
            }
            Some(Tracked { agg: a, ids: vec![] })
        },
        _ => None,
    };
    let mut waiting: Vec<Tracked> = vec![];

    // finalize one aggregator: the xorb goes to the store, the file records are kept for the final check
    let finalize = |t: Tracked, resolved: &mut Vec<Option<MDBFileInfo>>| -> Option<String> {
        let want_chunks: Vec<HL> = t.agg.chunks.iter().map(|c| (c.hash, c.data.len())).collect();
        let (xorb, files) = match catch_unwind(AssertUnwindSafe(|| t.agg.finalize())) {
            Ok(r) => r,
            Err(e) => return Some(format!("{name}: DataAggregator::finalize panicked (aggregator of {} chunks, files {:?}): {}", want_chunks.len(), t.ids, panic_msg(e))),
        };
        let mut s = store.lock().unwrap();
        check_xorb(&xorb, &mut s, false);
        let list: Vec<HL> = xorb.cas_info.chunks.iter().map(|c| (c.chunk_hash, c.unpacked_segment_bytes as usize)).collect();
        if list != want_chunks {
            return Some(format!("{name}: the xorb cut from an aggregator of {} chunks (files {:?}) holds {} chunks / not the aggregator's chunks in order", want_chunks.len(), t.ids, list.len()));
        }
        if !list.is_empty() {
            s.add(xorb.hash(), list);
        }
        if files.len() != t.ids.len() {
            return Some(format!("{name}: an aggregator holding the files {:?} returned {} file records", t.ids, files.len()));
        }
        for (fi, id) in files.into_iter().zip(t.ids.iter()) {
            if resolved[*id].is_some() {
                return Some(format!("{name}: file {id} was returned twice"));
            }
            resolved[*id] = Some(fi);
        }
        None
    };
    // the upload session's cut-or-merge policy
    let absorb = |acc: &mut Option<Tracked>, mut t: Tracked, resolved: &mut Vec<Option<MDBFileInfo>>, cov: &mut Coverage| -> Option<String> {
        let Some(a) = acc.as_mut() else {
            *acc = Some(t);
            return None;
        };
        if a.agg.num_bytes() + t.agg.num_bytes() > *MAX_XORB_BYTES || a.agg.num_chunks() + t.agg.num_chunks() > *MAX_XORB_CHUNKS {
            if a.agg.num_bytes() > t.agg.num_bytes() {
                std::mem::swap(a, &mut t);
            }
            return finalize(t, resolved);
        }
        let want: Vec<MerkleHash> = a.agg.chunks.iter().chain(t.agg.chunks.iter()).map(|c| c.hash).collect();
        let (wb, wf) = (a.agg.num_bytes() + t.agg.num_bytes(), a.agg.pending_file_info.len() + t.agg.pending_file_info.len());
        a.ids.extend(t.ids.iter().copied());
        let other = t.agg;
        if let Err(e) = catch_unwind(AssertUnwindSafe(|| a.agg.merge_in(other))) {
            return Some(format!("{name}: DataAggregator::merge_in panicked: {}", panic_msg(e)));
        }
        cov.merges += 1;
        let got: Vec<MerkleHash> = a.agg.chunks.iter().map(|c| c.hash).collect();
        if got != want || a.agg.num_chunks() != want.len() || a.agg.num_bytes() != wb || a.agg.pending_file_info.len() != wf || a.agg.is_empty() != (want.is_empty() && wf == 0) {
            return Some(format!(
                "{name}: after merge_in the aggregator reports {} chunks / {} bytes / {} files / is_empty {} but the two parts hold {} chunks / {wb} bytes / {wf} files",
                a.agg.num_chunks(), a.agg.num_bytes(), a.agg.pending_file_info.len(), a.agg.is_empty(), want.len()
            ));
        }
        None
    };

    for (id, file) in sc.files.iter().enumerate() {
        let registered_before = store.lock().unwrap().registered.len();
        let mut d = FileDeduper::new(Mock { store: store.clone(), outstanding: 0, restart: sc.restart });
        let mut pos = 0;
        let mut k = 0;
        while pos < file.len() {
            let n = sc.blocks[k % sc.blocks.len()].min(file.len() - pos);
            k += 1;
            match catch_unwind(AssertUnwindSafe(|| rt.block_on(d.process_chunks(&file[pos..pos + n])))) {
                Err(e) => return Some(format!("{name}: process_chunks panicked on file {id}, chunks [{pos}, {}): {}", pos + n, panic_msg(e))),
                Ok(Err(e)) => {
                    if store.lock().unwrap().fired && e.starts_with("injected") {
                        cov.failures += 1;
                        return None; // the injected store failure came back to the caller: nothing more to check
                    }
                    return Some(format!("{name}: process_chunks failed on file {id}, chunks [{pos}, {}): {e}", pos + n));
                },
                Ok(Ok(_)) if store.lock().unwrap().fired => {
                    return Some(format!("{name}: the store failed ({:?} = (0 dedup query / 1 register global query / 2 complete global queries / 3 register xorb, call number)) while process_chunks handled chunks [{pos}, {}) of file {id}, but process_chunks returned Ok", sc.fail, pos + n));
                },
                Ok(Ok(m)) => {
                    let bytes: usize = file[pos..pos + n].iter().map(|c| c.data.len()).sum();
                    if m.total_chunks != n || m.total_bytes != bytes {
                        return Some(format!("{name}: process_chunks on file {id}, chunks [{pos}, {}) = {bytes} bytes reports total_chunks {} / total_bytes {}", pos + n, m.total_chunks, m.total_bytes));
                    }
                },
            }
            pos += n;
        }
        if file.is_empty() && sc.blocks.contains(&0) {
            if let Err(e) = catch_unwind(AssertUnwindSafe(|| rt.block_on(d.process_chunks(&[])).unwrap())) {
                return Some(format!("{name}: process_chunks(&[]) panicked: {}", panic_msg(e)));
            }
        }
        let (h, agg, m, new_xorbs) = match catch_unwind(AssertUnwindSafe(|| d.finalize(sc.salt, ext.clone()))) {
            Ok(r) => r,
            Err(e) => return Some(format!("{name}: FileDeduper::finalize panicked on file {id}: {}", panic_msg(e))),
        };
        file_hashes.push(h);
        cov.global_hits += m.deduped_chunks_by_global_dedup;
        cov.withheld += m.defrag_prevented_dedup_chunks;
        let list: Vec<HL> = file.iter().map(|c| (c.hash, c.data.len())).collect();
        let fed_bytes: usize = list.iter().map(|c| c.1).sum();
        if !file.is_empty() {
            // (the empty file's hash is the unsalted zero hash on HEAD - a recorded finding, not re-reported here)
            let want = MerkleHash::from(*blake3::keyed_hash(&sc.salt, reference_root(&list).as_bytes()).as_bytes());
            if h != want {
                return Some(format!("{name}: file {id}: finalize returns the file hash {} but the salted aggregate of the fed (chunk hash, length) list is {}", h.hex(), want.hex()));
            }
        }
        if m.total_bytes != fed_bytes || m.total_chunks != file.len() {
            return Some(format!("{name}: file {id}: finalize reports total_bytes {} / total_chunks {} for {fed_bytes} bytes / {} chunks", m.total_bytes, m.total_chunks, file.len()));
        }
        {
            let s = store.lock().unwrap();
            if new_xorbs[..] != s.registered[registered_before..] {
                return Some(format!("{name}: file {id}: finalize lists {} new xorbs but {} were registered with the store while it was processed (or in another order)", new_xorbs.len(), s.registered.len() - registered_before));
            }
        }
        if agg.pending_file_info.len() != 1 || agg.is_empty() {
            return Some(format!("{name}: file {id}: the remaining-data aggregator holds {} file records, is_empty() = {}", agg.pending_file_info.len(), agg.is_empty()));
        }
        let nb: usize = agg.chunks.iter().map(|c| c.data.len()).sum();
        if agg.num_chunks() != agg.chunks.len() || agg.num_bytes() != nb || agg.num_chunks() > *MAX_XORB_CHUNKS || nb > *MAX_XORB_BYTES {
            return Some(format!("{name}: file {id}: the remaining-data aggregator reports {} chunks / {} bytes, holds {} / {nb} (limits {} / {})", agg.num_chunks(), agg.num_bytes(), agg.chunks.len(), *MAX_XORB_CHUNKS, *MAX_XORB_BYTES));
        }
        {
            let fi = &agg.pending_file_info[0].0;
            if fi.file_size() != fed_bytes {
                return Some(format!("{name}: file {id}: the segments add up to {} bytes, {fed_bytes} were fed", fi.file_size()));
            }
        }
        let t = Tracked { agg, ids: vec![id] };
        let r = match sc.merge {
            Merge::Separate => finalize(t, &mut resolved),
            Merge::Session | Merge::IntoFirst => absorb(&mut acc, t, &mut resolved, &mut *cov),
            Merge::SessionReverse => {
                waiting.push(t);
                None
            },
        };
        if r.is_some() {
            return r;
        }
    }
    while let Some(t) = waiting.pop() {
        if let Some(w) = absorb(&mut acc, t, &mut resolved, &mut *cov) {
            return Some(w);
        }
    }
    if let Some(t) = acc.take() {
        if let Some(w) = finalize(t, &mut resolved) {
            return Some(w);
        }
    }
    let s = store.lock().unwrap();
    cov.restarts += s.restarts;
    cov.queries += s.queries;
    if let Some(v) = &s.limit_violation {
        return Some(format!("{name}: {v}"));
    }
    for (id, file) in sc.files.iter().enumerate() {
        let Some(fi) = &resolved[id] else {
            return Some(format!("{name}: no file record came back for file {id}"));
        };
        let what = format!("{name}: file {id}");
        if fi.metadata.file_hash != file_hashes[id] {
            return Some(format!("{what}: the record carries the file hash {}, finalize returned {}", fi.metadata.file_hash.hex(), file_hashes[id].hex()));
        }
        if fi.metadata.num_entries as usize != fi.segments.len() || fi.verification.len() != fi.segments.len() || !fi.contains_verification() {
            return Some(format!("{what}: header says {} entries (verification flag {}), the record has {} segments and {} verification entries", fi.metadata.num_entries, fi.contains_verification(), fi.segments.len(), fi.verification.len()));
        }
        if fi.contains_metadata_ext() != sc.ext || fi.metadata_ext != ext || fi.metadata.file_flags & 0x3fff_ffff != 0 {
            return Some(format!("{what}: finalize was given metadata_ext {} but the record has flags {:#x} and metadata_ext {:?}", if sc.ext { "Some" } else { "None" }, fi.metadata.file_flags, fi.metadata_ext.as_ref().map(|m| m.sha256.hex())));
        }
        let mut denoted: Vec<MerkleHash> = vec![];
        for (i, seg) in fi.segments.iter().enumerate() {
            if seg.cas_hash == MerkleHash::default() {
                return Some(format!("{what}: segment {i} still carries the zero (unresolved) xorb hash"));
            }
            let Some(list) = s.xorbs.get(&seg.cas_hash) else {
                return Some(format!("{what}: segment {i} references a xorb that was never handed to the store"));
            };
            let (a, b) = (seg.chunk_index_start as usize, seg.chunk_index_end as usize);
            if a >= b || b > list.len() {
                return Some(format!("{what}: segment {i} has chunk range [{a}, {b}) in a xorb of {} chunks", list.len()));
            }
            let bytes: usize = list[a..b].iter().map(|c| c.1).sum();
            if bytes != seg.unpacked_segment_bytes as usize {
                return Some(format!("{what}: segment {i} records {} bytes but its chunks hold {bytes}", seg.unpacked_segment_bytes));
            }
            let mut cat: Vec<u8> = Vec::with_capacity(32 * (b - a));
            for c in &list[a..b] {
                cat.extend_from_slice(c.0.as_bytes());
            }
            let want = MerkleHash::from(*blake3::keyed_hash(&VERIFICATION_KEY, &cat).as_bytes());
            if fi.verification[i].range_hash != want {
                return Some(format!("{what}: verification entry {i} is {} but the keyed hash of the {} chunk hashes of segment {i} (chunks [{a}, {b})) is {}", fi.verification[i].range_hash.hex(), b - a, want.hex()));
            }
            denoted.extend(list[a..b].iter().map(|c| c.0));
        }
        let fed: Vec<MerkleHash> = file.iter().map(|c| c.hash).collect();
        if denoted != fed {
            let i = denoted.iter().zip(fed.iter()).position(|(a, b)| a != b).unwrap_or(denoted.len().min(fed.len()));
            return Some(format!("{what}: the segments denote {} chunks, {} were fed; first difference at chunk {i}", denoted.len(), fed.len()));
        }
    }
    None
}

struct Gen {
    tag: u64,
}
impl Gen {
    fn fresh(&mut self, n: usize, len: usize) -> Vec<Chunk> {
        (0..n).map(|_| { self.tag += 1; chunk(self.tag, len) }).collect()
    }
    /// a chunk whose hash is eligible for a global dedup query (word 3 of the hash divisible by 1024), found by search
    fn eligible(&mut self, len: usize) -> Chunk {
        loop {
            self.tag += 1;
            let c = chunk(self.tag, len);
            if mdb_shard::hash_is_global_dedup_eligible(&c.hash) {
                if c.hash[3] % 1024 != 0 {
                    println!("infrastructure: hash_is_global_dedup_eligible is not `word 3 divisible by 1024` any more");
                    std::process::exit(2);
                }
                return c;
            }
        }
    }
}

fn child(idx: usize) -> i32 {
    let (cfg_c, cfg_b) = CONFIGS[idx];
    if cfg_c.map(|c| c != *MAX_XORB_CHUNKS).unwrap_or(*MAX_XORB_CHUNKS != 8192) || cfg_b.map(|b| b != *MAX_XORB_BYTES).unwrap_or(*MAX_XORB_BYTES != 64 << 20) {
        println!("infrastructure: HF_XET_MAX_XORB_CHUNKS / HF_XET_MAX_XORB_BYTES = {cfg_c:?} / {cfg_b:?} were not picked up (values {}, {})", *MAX_XORB_CHUNKS, *MAX_XORB_BYTES);
        return 2;
    }
    let default_config = idx == 0;
    let maxc = *MAX_XORB_CHUNKS;
    let maxb = *MAX_XORB_BYTES;
    let seed: u64 = std::env::var("VERIF_SEED").ok().and_then(|s| s.parse().ok()).unwrap_or(0);
    let mut g = Gen { tag: (idx as u64) << 40 };
    let mut cases: Vec<Scenario> = vec![];
    // 1. repeats inside the xorb under construction
    let a = g.fresh(50, 64);
    let mut f = a.clone(); f.extend(a[10..20].iter().cloned()); f.extend(g.fresh(5, 64)); f.extend(a[0..3].iter().cloned());
    cases.push(Scenario::simple("in-xorb repeats", f, vec![]));
    // 2. a repeat of chunks of the xorb that was cut earlier in the same file (low and high indices)
    let a = g.fresh(maxc + 40, 16);
    let mut f = a.clone(); f.extend(g.fresh(30, 16)); f.extend(a[4..12].iter().cloned()); f.extend(g.fresh(4, 16)); f.extend(a[maxc.saturating_sub(3)..maxc + 5].iter().cloned());
    cases.push(Scenario::simple("repeat across a chunk-limit cut", f, vec![]));
    // 3. one below / exactly at / one past the chunk limit, several xorbs of small chunks
    if maxc > 1 {
        cases.push(Scenario::simple("MAX_XORB_CHUNKS - 1 fresh chunks", g.fresh(maxc - 1, 16), vec![]));
    }
    cases.push(Scenario::simple("exactly MAX_XORB_CHUNKS fresh chunks", g.fresh(maxc, 16), vec![]));
    cases.push(Scenario::simple("MAX_XORB_CHUNKS + 1 fresh chunks", g.fresh(maxc + 1, 16), vec![]));
    cases.push(Scenario::simple("3 x MAX_XORB_CHUNKS + 7 fresh chunks", g.fresh(3 * maxc + 7, 16), vec![]));
    // 4. byte limit: chunks of 1 MiB (default) / of MAX_XORB_BYTES / 8 bytes
    let big = if default_config { 1 << 20 } else { (maxb / 8).min(1 << 16) };
    if maxb / big + 3 <= 4 * maxc + 70 {
        cases.push(Scenario::simple("byte-limit cuts", g.fresh(maxb / big + 3, big), vec![]));
    }
    if !default_config {
        // byte-limit boundary: k chunks summing to exactly MAX_XORB_BYTES, then one byte more in the last / an extra chunk
        let k = maxc.min(4);
        let each = maxb / k;
        if each >= 16 && maxb <= 1 << 16 {
            let rest = maxb - each * (k - 1);
            for (what, last, extra) in [("exactly MAX_XORB_BYTES in MAX-chunk-count-or-4 chunks", rest, 0usize), ("MAX_XORB_BYTES + 1 bytes", rest + 1, 0), ("exactly MAX_XORB_BYTES then 8 more bytes", rest, 8), ("MAX_XORB_BYTES - 1 bytes then 8 more", rest - 1, 8)] {
                let mut f = g.fresh(k - 1, each);
                f.extend(g.fresh(1, last));
                if extra > 0 {
                    f.extend(g.fresh(1, extra));
                }
                f.extend(f[0..1].to_vec());
                cases.push(Scenario::simple(&format!("byte-limit boundary: {what}, then a repeat of chunk 0"), f, vec![]));
            }
            // a single chunk of exactly MAX_XORB_BYTES, alone and between small chunks
            let mut f = g.fresh(2, 16);
            f.extend(g.fresh(1, maxb));
            f.extend(g.fresh(2, 16));
            cases.push(Scenario::simple("one chunk of exactly MAX_XORB_BYTES between small chunks", f, vec![]));
            cases.push(Scenario::simple("one chunk of exactly MAX_XORB_BYTES", g.fresh(1, maxb), vec![]));
        }
    }
    // 5. remote runs interleaved with fresh data and partial matches running past a remote xorb's end
    let r1 = g.fresh(6, 100); let r2 = g.fresh(3, 100);
    let mut f = g.fresh(2, 100); f.extend(r1[2..6].iter().cloned()); f.extend(r2.iter().cloned()); f.extend(g.fresh(1, 100)); f.extend(r1[0..2].iter().cloned()); f.extend(r1[0..2].iter().cloned());
    cases.push(Scenario::simple("remote runs", f, vec![r1, r2]));
    // 6. fragmentation history: >= 128 ranges of [3 fresh][1 repeated chunk] make the fragmentation prevention refuse one-chunk
    //    matches, so repeated chunks are stored a second time; later the file replays pairs (P, Q) whose Q was stored twice
    for local in [true, false] {
        let a = g.fresh(420, 48);
        let mut f = if local { a.clone() } else { vec![] };
        for j in 0..200 {
            f.extend(g.fresh(3, 48));
            f.push(a[2 * j + 1].clone());
        }
        for j in 120..200 {
            f.push(a[2 * j].clone());
            f.push(a[2 * j + 1].clone());
            f.extend(g.fresh(1, 48));
        }
        for j in 0..5 {
            f.extend(a[400 + j..410].iter().cloned());
        }
        cases.push(Scenario::simple(&format!("fragmented history, repeats {}", if local { "inside the pending xorb" } else { "of a stored xorb" }), f, if local { vec![] } else { vec![a] }));
    }
    // 7. near-duplicate regions inside ONE pending xorb: a run R = A B C D E F G H stored as new data, later the same run with
    //    one or two inner chunks replaced (A X C D .. / A B X D .. / A X Y D ..), at several offsets of the first occurrence in
    //    the xorb; chunk lengths all different, so a run that swallows the replaced chunk also shows in the segment byte counts
    for offset in [0usize, 3, 17] {
        let mut f = g.fresh(offset, 40);
        let r: Vec<Chunk> = (0..8).map(|k| g.fresh(1, 50 + 7 * k).pop().unwrap()).collect();
        f.extend(r.iter().cloned());
        let mut shapes = vec![];
        for replaced in [vec![1usize], vec![2], vec![1, 2], vec![6], vec![3, 5], vec![1, 2, 3, 4, 5, 6]] {
            f.extend(g.fresh(2, 33));
            let mut v = r.clone();
            for &k in &replaced {
                v[k] = g.fresh(1, 90 + 11 * k).pop().unwrap();
            }
            f.extend(v);
            shapes.push(format!("{replaced:?}"));
        }
        f.extend(g.fresh(1, 20));
        cases.push(Scenario::simple(&format!("run of 8 chunks stored at chunk {offset} of the pending xorb, then repeated with the chunks at run positions {} replaced by new ones (2 fresh chunks between the repeats)", shapes.join(", ")), f, vec![]));
        // each shape alone, directly after the run
        for replaced in [vec![1usize], vec![2], vec![1, 2]] {
            let mut f = g.fresh(offset, 40);
            f.extend(r.iter().cloned());
            let mut v = r[..5].to_vec();
            for &k in &replaced {
                v[k] = g.fresh(1, 90 + 11 * k).pop().unwrap();
            }
            f.extend(v);
            cases.push(Scenario::simple(&format!("run A B C D E F G H at chunk {offset}, immediately followed by A..E with positions {replaced:?} replaced"), f, vec![]));
        }
    }
    let mut cov = Coverage::default();
    for sc in &cases {
        for blocks in [vec![usize::MAX], vec![1usize], vec![7, 1000]] {
            let mut sc = sc.clone();
            sc.blocks = blocks;
            if let Some(w) = run(&sc, &mut cov) {
                println!("WITNESS [MAX_XORB_CHUNKS={maxc}, MAX_XORB_BYTES={maxb}] {w}");
                return 1;
            }
        }
    }

    // ------------------------------------------------------------------------------------------------------------------------------
    // 8. directed scenarios for the restart-the-block path, answer shapes, merging rules, multi-file aggregation
    // ------------------------------------------------------------------------------------------------------------------------------
    let mut directed: Vec<Scenario> = vec![];
    let base = Scenario::simple("", vec![], vec![]);
    let salts: [[u8; 32]; 3] = [[0u8; 32], [7u8; 32], { let mut s = [0u8; 32]; s[31] = 1; s }];
    // 8a. global dedup: chunk 0 unknown (always eligible), hash-eligible chunks at position 0 / 1 / later, close together and far
    //     apart; the shard that arrives on the restart holds the registered chunk and its successors / holds unrelated chunks /
    //     nothing arrives (restart with the registered chunk still unknown); the arriving run overlaps a run known in pass 1
    for arrive in 0..4usize {
        let known = g.fresh(6, 70);
        let e: Vec<Chunk> = (0..4).map(|k| g.eligible(60 + k)).collect();
        let mut f = vec![];
        if arrive % 2 == 0 {
            f.push(e[0].clone()); // eligible by hash AND first chunk
        } else {
            f.extend(g.fresh(1, 55)); // first chunk, not eligible by hash
        }
        f.extend(g.fresh(2, 61));
        f.push(e[1].clone()); // position 3
        f.push(e[2].clone()); // directly after an eligible chunk
        f.extend(known[1..4].iter().cloned()); // known in pass 1
        f.extend(g.fresh(9, 62));
        f.push(e[3].clone());
        f.extend(g.fresh(2, 63));
        f.extend(known[0..2].iter().cloned());
        let late: Vec<Vec<Chunk>> = match arrive {
            0 => vec![{ let mut l = g.fresh(2, 40); l.extend(f[0..3].iter().cloned()); l }, f[3..9].to_vec(), { let mut l = f[17..19].to_vec(); l.extend(g.fresh(1, 40)); l }],
            1 => vec![f[0..5].to_vec(), f[4..7].to_vec()],
            2 => vec![g.fresh(3, 40)],
            _ => vec![],
        };
        for blocks in [vec![usize::MAX], vec![1usize], vec![4, 0, 3], vec![5]] {
            for (caps, prefer_last) in [(vec![], false), (vec![1], false), (vec![2, usize::MAX], true)] {
                let mut sc = base.clone();
                sc.name = format!("global dedup: file = [{}first chunk][2 new][2 hash-eligible chunks][3 chunks of a stored xorb][9 new][hash-eligible chunk][2 new][2 stored chunks]; arriving shards variant {arrive} (0: three shards holding chunks 0-2 / 3-8 / 17-18, 1: chunks 0-4 and 4-6, 2: unrelated chunks, 3: none)", if arrive % 2 == 0 { "hash-eligible " } else { "" });
                sc.files = vec![f.clone()];
                sc.remote = vec![known.clone()];
                sc.late = late.clone();
                sc.restart = true;
                sc.blocks = blocks.clone();
                sc.caps = caps;
                sc.prefer_last = prefer_last;
                sc.salt = salts[arrive % 3];
                sc.ext = arrive % 2 == 1;
                directed.push(sc);
            }
        }
    }
    // 8b. answer shapes and merging: contiguous hits on one xorb answered one chunk at a time; hits ending at the same index; remote
    //     run directly followed by a pending-xorb run and vice versa; hit - new - hit; a stored run continuing across block ends
    {
        let r = g.fresh(10, 80);
        let q = g.fresh(4, 81);
        let n = g.fresh(6, 82);
        let mut f: Vec<Chunk> = vec![];
        f.extend(n[0..3].iter().cloned()); // new: pending chunks 0..3
        f.extend(r[0..10].iter().cloned()); // the whole stored xorb
        f.extend(r[7..10].iter().cloned()); // ends at the same index as the previous segment
        f.extend(r[9..10].iter().cloned());
        f.extend(n[1..3].iter().cloned()); // pending-xorb run right after a remote run
        f.extend(q[0..2].iter().cloned()); // remote right after local
        f.extend(n[3..4].iter().cloned()); // new
        f.extend(q[2..4].iter().cloned()); // hit - new - hit on the same xorb, second hit NOT contiguous with the first in the file
        f.extend(n[0..1].iter().cloned());
        f.extend(n[3..4].iter().cloned()); // two pending chunks that are not adjacent in the xorb
        f.extend(q[0..4].iter().cloned());
        f.extend(n[4..6].iter().cloned());
        f.extend(n[4..6].iter().cloned()); // a repeat of the chunks just added
        for blocks in [vec![usize::MAX], vec![1usize], vec![2], vec![3, 0, 5], vec![13, 1]] {
            for (caps, prefer_last) in [(vec![], false), (vec![1], false), (vec![1, usize::MAX], false), (vec![3, 1], true)] {
                for merge in [Merge::Separate, Merge::Session] {
                    let mut sc = base.clone();
                    sc.name = "answer shapes: [3 new][stored xorb R 0..10][R 7..10][R 9][pending 1..3][Q 0..2][new][Q 2..4][pending 0][pending 3][Q 0..4][2 new][the same 2]".into();
                    sc.files = vec![f.clone()];
                    sc.remote = vec![r.clone(), q.clone()];
                    sc.blocks = blocks.clone();
                    sc.caps = caps.clone();
                    sc.prefer_last = prefer_last;
                    sc.merge = merge;
                    sc.ext = blocks.len() == 1;
                    directed.push(sc);
                }
            }
        }
    }
    // 8c. several files in one session: fully deduplicated files (no new chunk), empty files, files with pending-xorb
    //     self-references, files that cut xorbs; merged in every order into an empty / non-empty aggregator
    {
        let r = g.fresh(12, 90);
        let fully: Vec<Chunk> = r[2..9].to_vec();
        let fully2: Vec<Chunk> = { let mut v = r[0..3].to_vec(); v.extend(r[0..3].iter().cloned()); v };
        let a = g.fresh(9, 91);
        let selfref: Vec<Chunk> = { let mut v = a.clone(); v.extend(a[2..6].iter().cloned()); v.extend(g.fresh(1, 92)); v.extend(a[7..9].iter().cloned()); v };
        let b = g.fresh(5, 93);
        let mixed: Vec<Chunk> = { let mut v = r[5..8].to_vec(); v.extend(b.iter().cloned()); v.extend(r[0..2].iter().cloned()); v.extend(b[1..4].iter().cloned()); v };
        let one = g.fresh(1, 94);
        let cutting: Vec<Chunk> = if default_config { g.fresh(30, 95) } else { let mut v = g.fresh(2 * maxc + 1, 60); let w = v[maxc..maxc + 1].to_vec(); v.extend(w); v };
        let sets: Vec<(&str, Vec<Vec<Chunk>>)> = vec![
            ("fully deduplicated file alone", vec![fully.clone()]),
            ("empty file alone", vec![vec![]]),
            ("fully deduplicated, then a file with pending-xorb self references", vec![fully.clone(), selfref.clone()]),
            ("self-referencing file, then a fully deduplicated one, then a mixed one", vec![selfref.clone(), fully.clone(), mixed.clone()]),
            ("two fully deduplicated files and an empty one", vec![fully.clone(), vec![], fully2.clone()]),
            ("mixed, self-referencing, one-chunk, the self-referencing file again, a xorb-cutting file, mixed again", vec![mixed.clone(), selfref.clone(), one.clone(), selfref.clone(), cutting.clone(), mixed.clone()]),
            ("empty, one-chunk, empty, mixed", vec![vec![], one.clone(), vec![], mixed.clone()]),
        ];
        for (what, files) in sets {
            for merge in [Merge::Separate, Merge::Session, Merge::SessionReverse, Merge::IntoFirst] {
                for (blocks, caps) in [(vec![usize::MAX], vec![]), (vec![1usize], vec![1]), (vec![0, 4], vec![])] {
                    let mut sc = base.clone();
                    sc.name = format!("several files ({what})");
                    sc.files = files.clone();
                    sc.remote = vec![r.clone()];
                    sc.merge = merge;
                    sc.blocks = blocks;
                    sc.caps = caps;
                    sc.ext = merge != Merge::Session;
                    sc.salt = salts[(merge as usize) % 3];
                    directed.push(sc);
                }
            }
        }
    }
    // 8d. store failures must come back to the caller (a swallowed failure of register_new_xorb loses the xorb)
    {
        let known = g.fresh(4, 70);
        let mut f = vec![g.eligible(50)];
        f.extend(g.fresh(3, 51));
        f.extend(known[1..3].iter().cloned());
        f.push(g.eligible(52));
        f.extend(g.fresh(if default_config { 20 } else { 2 * maxc + 3 }, 53));
        if default_config {
            f.extend(g.fresh(maxc, 16));
        }
        for fail in [(0u8, 0usize), (0, 3), (0, 9), (1, 0), (1, 1), (2, 0), (2, 1), (3, 0)] {
            for blocks in [vec![usize::MAX], vec![3usize], vec![1]] {
                let mut sc = base.clone();
                sc.name = "store failure: [hash-eligible chunk][3 new][2 stored][hash-eligible chunk][new chunks up to a xorb cut]".into();
                sc.files = vec![f.clone()];
                sc.remote = vec![known.clone()];
                sc.restart = true;
                sc.blocks = blocks;
                sc.fail = Some(fail);
                directed.push(sc);
            }
        }
    }
    for sc in &directed {
        if let Some(w) = run(sc, &mut cov) {
            println!("WITNESS [MAX_XORB_CHUNKS={maxc}, MAX_XORB_BYTES={maxb}] {w}");
            return 1;
        }
    }
    // the salt must matter: same chunk list, the three salts give three file hashes (checked through the independent value above;
    // here only that the independent values differ, i.e. the scenarios really distinguish the salts)
    {
        let l = [(compute_data_hash(b"x"), 5usize)];
        let hs: Vec<_> = salts.iter().map(|s| *blake3::keyed_hash(s, reference_root(&l).as_bytes()).as_bytes()).collect();
        if hs[0] == hs[1] || hs[1] == hs[2] || hs[0] == hs[2] {
            println!("infrastructure: the reference salted hashes do not differ");
            return 2;
        }
    }

    // ------------------------------------------------------------------------------------------------------------------------------
    // 9. random sessions (VERIF_SEED)
    // ------------------------------------------------------------------------------------------------------------------------------
    let mut rng = StdRng::seed_from_u64(seed.wrapping_mul(1000).wrapping_add(idx as u64));
    let elig: Vec<Chunk> = (0..12).map(|k| g.eligible(40 + k)).collect();
    let n_random = if default_config { 1500 } else { 1000 };
    for round in 0..n_random {
        let lim = if maxb < 8192 { maxb / 12 } else { 120 };
        let remote: Vec<Vec<Chunk>> = (0..rng.random_range(1..4)).map(|_| { let n = rng.random_range(1..13); let l = rng.random_range(16..lim.max(17)); g.fresh(n, l) }).collect();
        let mut late: Vec<Vec<Chunk>> = vec![];
        let mut files: Vec<Vec<Chunk>> = vec![];
        let mut desc = String::new();
        let nfiles = rng.random_range(1..5);
        for _ in 0..nfiles {
            let mut f: Vec<Chunk> = vec![];
            let ops = if rng.random_range(0..12) == 0 { 0 } else { rng.random_range(1..14) };
            desc.push_str(" |");
            for _ in 0..ops {
                match rng.random_range(0..8) {
                    0 | 1 => {
                        let n = rng.random_range(1..7);
                        f.extend(g.fresh(n, rng.random_range(16..lim.max(17))));
                        desc.push_str(&format!(" new{n}"));
                    },
                    2 | 3 => {
                        let x = rng.random_range(0..remote.len());
                        let a = rng.random_range(0..remote[x].len());
                        let b = rng.random_range(a + 1..=remote[x].len());
                        f.extend(remote[x][a..b].iter().cloned());
                        desc.push_str(&format!(" R{x}[{a}..{b}]"));
                    },
                    4 | 5 if !f.is_empty() => {
                        let a = rng.random_range(0..f.len());
                        let b = rng.random_range(a + 1..=f.len().min(a + 8));
                        let v = f[a..b].to_vec();
                        f.extend(v);
                        desc.push_str(&format!(" self[{a}..{b}]"));
                    },
                    6 => {
                        f.push(elig[rng.random_range(0..elig.len())].clone());
                        desc.push_str(" E");
                    },
                    7 if !files.is_empty() => {
                        // content of an earlier file of the session
                        let x = rng.random_range(0..files.len());
                        if !files[x].is_empty() {
                            let a = rng.random_range(0..files[x].len());
                            let b = rng.random_range(a + 1..=files[x].len().min(a + 8));
                            f.extend(files[x][a..b].iter().cloned());
                            desc.push_str(&format!(" file{x}[{a}..{b}]"));
                        }
                    },
                    _ => {
                        f.extend(g.fresh(1, rng.random_range(16..lim.max(17))));
                        desc.push_str(" new1");
                    },
                }
            }
            // some arriving shards hold a stretch of this file (what another client uploaded), some hold unrelated data
            if !f.is_empty() && rng.random_range(0..2) == 0 {
                let a = rng.random_range(0..f.len());
                let b = rng.random_range(a + 1..=f.len().min(a + 6));
                let mut l = g.fresh(rng.random_range(0..3), 30);
                l.extend(f[a..b].iter().cloned());
                l.truncate(maxc.max(1) * 4);
                late.push(l);
            } else if rng.random_range(0..3) == 0 {
                late.push(g.fresh(2, 30));
            }
            files.push(f);
        }
        let mut sc = base.clone();
        sc.name = format!("random session #{round} (VERIF_SEED={seed}) files:{desc} ; R = stored xorbs of {:?} chunks, E = hash-eligible chunk, arriving xorbs of {:?} chunks", remote.iter().map(|r| r.len()).collect::<Vec<_>>(), late.iter().map(|r| r.len()).collect::<Vec<_>>());
        sc.files = files;
        sc.remote = remote;
        sc.late = late;
        sc.restart = rng.random_range(0..3) != 0;
        sc.blocks = match rng.random_range(0..6) {
            0 => vec![usize::MAX],
            1 => vec![1],
            2 => vec![7, 1000],
            3 => vec![0, 2, 1],
            _ => (0..rng.random_range(1..4)).map(|_| rng.random_range(1..9)).collect(),
        };
        sc.caps = match rng.random_range(0..4) { 0 => vec![1], 1 => vec![usize::MAX, 2], 2 => vec![3, 1, usize::MAX], _ => vec![] };
        sc.prefer_last = rng.random_range(0..2) == 0;
        sc.salt = salts[rng.random_range(0..3)];
        sc.ext = rng.random_range(0..2) == 0;
        sc.merge = [Merge::Separate, Merge::Session, Merge::SessionReverse, Merge::IntoFirst][rng.random_range(0..4)];
        if let Some(w) = run(&sc, &mut cov) {
            println!("WITNESS [MAX_XORB_CHUNKS={maxc}, MAX_XORB_BYTES={maxb}] {w}");
            return 1;
        }
    }
    if std::env::var("VERIF_STATS").is_ok() {
        println!("STATS config {:?}: {} scenarios + {} directed + {n_random} random; {} global dedup queries, {} restarts, {} chunks deduplicated on the second pass, {} withheld by defrag prevention, {} merges, {} injected failures delivered", CONFIGS[idx], 3 * cases.len(), directed.len(), cov.queries, cov.restarts, cov.global_hits, cov.withheld, cov.merges, cov.failures);
    }
    if cov.restarts == 0 || cov.queries == 0 || cov.merges == 0 || cov.failures < 12 {
        println!("infrastructure: the scenarios never reached the restart path / merge_in ({} global dedup queries, {} restarts, {} merges, {} injected failures delivered)", cov.queries, cov.restarts, cov.merges, cov.failures);
        return 2;
    }

    // opt-in: one chunk longer than MAX_XORB_BYTES (outside the stated domain: the chunker never produces it unless the byte limit
    // is configured below the maximum chunk size)
    if std::env::var("VERIF_C01_OVERSIZE_CHUNK").is_ok() && maxb <= 1 << 16 {
        let mut f = g.fresh(2, 16);
        f.extend(g.fresh(1, maxb + 1));
        f.extend(g.fresh(1, 16));
        for lead in [0usize, 2] {
            let mut sc = base.clone();
            sc.name = format!("{lead} small chunks, then one chunk of MAX_XORB_BYTES + 1 bytes, then a small one");
            sc.files = vec![f[2 - lead..].to_vec()];
            if let Some(w) = run(&sc, &mut cov) {
                println!("WITNESS [MAX_XORB_CHUNKS={maxc}, MAX_XORB_BYTES={maxb}] {w}");
                return 1;
            }
        }
    }
    0
}

fn main() {
    let args: Vec<String> = std::env::args().collect();
    if args.len() == 3 && args[1] == "--child" {
        let idx: usize = args[2].parse().unwrap();
        let rc = catch_unwind(|| child(idx)).unwrap_or_else(|e| {
            println!("WITNESS [configuration {:?}] the search itself panicked outside a guarded call: {}", CONFIGS[idx], panic_msg(e));
            1
        });
        std::process::exit(rc);
    }
    let exe = std::env::current_exe().unwrap();
    let handles: Vec<_> = (0..CONFIGS.len())
        .map(|i| {
            let mut cmd = std::process::Command::new(&exe);
            cmd.arg("--child").arg(i.to_string()).stdout(std::process::Stdio::piped()).stderr(std::process::Stdio::piped());
            cmd.env_remove("HF_XET_MAX_XORB_CHUNKS").env_remove("HF_XET_MAX_XORB_BYTES");
            if let Some(c) = CONFIGS[i].0 {
                cmd.env("HF_XET_MAX_XORB_CHUNKS", c.to_string());
            }
            if let Some(b) = CONFIGS[i].1 {
                cmd.env("HF_XET_MAX_XORB_BYTES", b.to_string());
            }
            let c = cmd.spawn().expect("spawn child");
            std::thread::spawn(move || c.wait_with_output())
        })
        .collect();
    let mut witness: Option<String> = None;
    let mut trouble: Option<String> = None;
    for (i, h) in handles.into_iter().enumerate() {
        let out = h.join().unwrap().expect("child output");
        let stdout = String::from_utf8_lossy(&out.stdout).to_string();
        if std::env::var("VERIF_STATS").is_ok() {
            stdout.lines().filter(|l| l.starts_with("STATS")).for_each(|l| println!("{l}"));
        }
        match out.status.code() {
            Some(0) => {},
            Some(1) => witness = witness.or(stdout.lines().find(|l| l.starts_with("WITNESS")).map(|s| s.to_string())),
            Some(2) => trouble = trouble.or(Some(stdout)),
            _ => {
                let err = String::from_utf8_lossy(&out.stderr);
                let tail: Vec<&str> = err.lines().rev().take(4).collect();
                witness = witness.or(Some(format!("WITNESS configuration {:?} (MAX_XORB_CHUNKS, MAX_XORB_BYTES; None = default): the process died ({:?}): {}", CONFIGS[i], out.status, tail.into_iter().rev().collect::<Vec<_>>().join(" | "))));
            },
        }
    }
    if let Some(w) = witness {
        println!("{w}");
        std::process::exit(1);
    }
    if let Some(t) = trouble {
        eprintln!("{t}");
        std::process::exit(2);
    }
    println!("no violation found");
}
