//! Witness search for C01 / C02 / C15 at the deduper level: feed the REAL FileDeduper chunk sequences with repeats (within the file,
//! across xorb cuts, against a remote store) through a truthful mock store that records every registered xorb, finalize, resolve
//! the remaining data through the REAL DataAggregator::finalize, and check that
//!   * the segment list denotes exactly the fed chunk-hash sequence (C01), segment byte counts are the sums of chunk lengths (C02),
//!   * every xorb is non-empty and within MAX_XORB_CHUNKS / MAX_XORB_BYTES, no segment keeps the zero hash (C15).
//! Prints `WITNESS ...` and exits 1 on the first violation.
use std::collections::HashMap;
use std::sync::{Arc, Mutex};

use deduplication::constants::{MAX_XORB_BYTES, MAX_XORB_CHUNKS};
use deduplication::{Chunk, DeduplicationDataInterface, FileDeduper, RawXorbData};
use mdb_shard::file_structs::FileDataSequenceEntry;
use merklehash::{compute_data_hash, MerkleHash};

#[derive(Default)]
struct Store {
    xorbs: HashMap<MerkleHash, Vec<(MerkleHash, usize)>>,
    first: HashMap<MerkleHash, (MerkleHash, usize)>, // chunk hash -> (xorb, index), first occurrence
    limit_violation: Option<String>,
}
impl Store {
    fn add(&mut self, x: MerkleHash, chunks: Vec<(MerkleHash, usize)>) {
        for (i, (h, _)) in chunks.iter().enumerate() {
            self.first.entry(*h).or_insert((x, i));
        }
        self.xorbs.insert(x, chunks);
    }
}
struct Mock(Arc<Mutex<Store>>);

#[async_trait::async_trait]
impl DeduplicationDataInterface for Mock {
    type ErrorType = String;
    async fn chunk_hash_dedup_query(&self, q: &[MerkleHash]) -> Result<Option<(usize, FileDataSequenceEntry)>, String> {
        let s = self.0.lock().unwrap();
        if let Some((x, i)) = s.first.get(&q[0]) {
            let list = &s.xorbs[x];
            let mut n = 0;
            let mut bytes = 0;
            while n < q.len() && i + n < list.len() && list[i + n].0 == q[n] {
                bytes += list[i + n].1;
                n += 1;
            }
            return Ok(Some((n, FileDataSequenceEntry::new(*x, bytes, *i, *i + n))));
        }
        Ok(None)
    }
    async fn register_global_dedup_query(&mut self, _h: MerkleHash) -> Result<(), String> {
        Ok(())
    }
    async fn complete_global_dedup_queries(&mut self) -> Result<bool, String> {
        Ok(false)
    }
    async fn register_new_xorb(&mut self, x: RawXorbData) -> Result<(), String> {
        let mut s = self.0.lock().unwrap();
        check_xorb(&x, &mut s.limit_violation);
        let list: Vec<_> = x.cas_info.chunks.iter().map(|c| (c.chunk_hash, c.unpacked_segment_bytes as usize)).collect();
        s.add(x.hash(), list);
        Ok(())
    }
}

fn check_xorb(x: &RawXorbData, out: &mut Option<String>) {
    let n = x.cas_info.chunks.len();
    let bytes: usize = x.data.iter().map(|d| d.len()).sum();
    if out.is_none() && (n == 0 || n > *MAX_XORB_CHUNKS || bytes > *MAX_XORB_BYTES || x.hash() == MerkleHash::default()) {
        *out = Some(format!("a xorb with {n} chunks / {bytes} bytes was handed to the store (limits {} chunks, {} bytes)", *MAX_XORB_CHUNKS, *MAX_XORB_BYTES));
    }
}

fn chunk(tag: u64, len: usize) -> Chunk {
    let mut d = vec![0u8; len.max(8)];
    d[..8].copy_from_slice(&tag.to_le_bytes());
    Chunk { hash: compute_data_hash(&d), data: Arc::from(d) }
}

fn run(name: &str, file: &[Chunk], blocks: &[usize], remote: &[Vec<Chunk>]) -> Option<String> {
    let store = Arc::new(Mutex::new(Store::default()));
    for (k, r) in remote.iter().enumerate() {
        let x = compute_data_hash(format!("remote{k}").as_bytes());
        store.lock().unwrap().add(x, r.iter().map(|c| (c.hash, c.data.len())).collect());
    }
    let rt = tokio::runtime::Builder::new_current_thread().build().unwrap();
    let mut d = FileDeduper::new(Mock(store.clone()));
    let mut pos = 0;
    let mut k = 0;
    while pos < file.len() {
        let n = blocks[k % blocks.len()].max(1).min(file.len() - pos);
        k += 1;
        if let Err(e) = std::panic::catch_unwind(std::panic::AssertUnwindSafe(|| rt.block_on(d.process_chunks(&file[pos..pos + n])).unwrap())) {
            let msg = e.downcast_ref::<String>().cloned().or_else(|| e.downcast_ref::<&str>().map(|s| s.to_string())).unwrap_or_default();
            return Some(format!("{name}: process_chunks panicked: {msg}"));
        }
        pos += n;
    }
    let (_h, agg, _m, _x) = d.finalize([7u8; 32], None);
    let (xorb, files) = agg.finalize();
    let mut s = store.lock().unwrap();
    if !xorb.cas_info.chunks.is_empty() {
        check_xorb(&xorb, &mut s.limit_violation);
        let list: Vec<_> = xorb.cas_info.chunks.iter().map(|c| (c.chunk_hash, c.unpacked_segment_bytes as usize)).collect();
        s.add(xorb.hash(), list);
    }
    if let Some(v) = &s.limit_violation {
        return Some(format!("{name}: {v}"));
    }
    let fi = &files[0];
    let mut denoted: Vec<MerkleHash> = vec![];
    for (i, seg) in fi.segments.iter().enumerate() {
        if seg.cas_hash == MerkleHash::default() {
            return Some(format!("{name}: segment {i} still carries the zero (unresolved) xorb hash"));
        }
        let Some(list) = s.xorbs.get(&seg.cas_hash) else {
            return Some(format!("{name}: segment {i} references a xorb that was never handed to the store"));
        };
        let (a, b) = (seg.chunk_index_start as usize, seg.chunk_index_end as usize);
        if a >= b || b > list.len() {
            return Some(format!("{name}: segment {i} has chunk range [{a}, {b}) in a xorb of {} chunks", list.len()));
        }
        let bytes: usize = list[a..b].iter().map(|c| c.1).sum();
        if bytes != seg.unpacked_segment_bytes as usize {
            return Some(format!("{name}: segment {i} records {} bytes but its chunks hold {bytes}", seg.unpacked_segment_bytes));
        }
        denoted.extend(list[a..b].iter().map(|c| c.0));
    }
    let fed: Vec<MerkleHash> = file.iter().map(|c| c.hash).collect();
    if denoted != fed {
        let i = denoted.iter().zip(fed.iter()).position(|(a, b)| a != b).unwrap_or(denoted.len().min(fed.len()));
        return Some(format!(
            "{name}: the file's segments denote {} chunks, {} were fed; first difference at chunk {i} (file of {} chunks fed in blocks {:?})",
            denoted.len(), fed.len(), file.len(), blocks
        ));
    }
    None
}

fn main() {
    let maxc = *MAX_XORB_CHUNKS;
    let mut tag = 0u64;
    let mut fresh = |n: usize, len: usize| -> Vec<Chunk> {
        (0..n).map(|_| { tag += 1; chunk(tag, len) }).collect()
    };
    let mut cases: Vec<(String, Vec<Chunk>, Vec<Vec<Chunk>>)> = vec![];
    // 1. repeats inside the xorb under construction
    let a = fresh(50, 64);
    let mut f = a.clone(); f.extend(a[10..20].iter().cloned()); f.extend(fresh(5, 64)); f.extend(a[0..3].iter().cloned());
    cases.push(("in-xorb repeats".into(), f, vec![]));
    // 2. a repeat of chunks of the xorb that was cut earlier in the same file (low and high indices)
    let a = fresh(maxc + 40, 16);
    let mut f = a.clone(); f.extend(fresh(30, 16)); f.extend(a[4..12].iter().cloned()); f.extend(fresh(4, 16)); f.extend(a[maxc - 3..maxc + 5].iter().cloned());
    cases.push(("repeat across a chunk-limit cut".into(), f, vec![]));
    // 3. exactly at / one past the chunk limit, several xorbs of small chunks
    cases.push(("exactly MAX_XORB_CHUNKS fresh chunks".into(), fresh(maxc, 16), vec![]));
    cases.push(("MAX_XORB_CHUNKS + 1 fresh chunks".into(), fresh(maxc + 1, 16), vec![]));
    cases.push(("3 x MAX_XORB_CHUNKS + 7 fresh chunks".into(), fresh(3 * maxc + 7, 16), vec![]));
    // 4. byte limit: chunks of 1 MiB
    cases.push(("byte-limit cuts".into(), fresh(*MAX_XORB_BYTES / (1 << 20) + 3, 1 << 20), vec![]));
    // 5. remote runs interleaved with fresh data and partial matches running past a remote xorb's end
    let r1 = fresh(6, 100); let r2 = fresh(3, 100);
    let mut f = fresh(2, 100); f.extend(r1[2..6].iter().cloned()); f.extend(r2.iter().cloned()); f.extend(fresh(1, 100)); f.extend(r1[0..2].iter().cloned()); f.extend(r1[0..2].iter().cloned());
    cases.push(("remote runs".into(), f, vec![r1, r2]));
    // 6. fragmentation history: >= 128 ranges of [3 fresh][1 repeated chunk] make the fragmentation prevention refuse one-chunk
    //    matches, so repeated chunks are stored a second time; later the file replays pairs (P, Q) whose Q was stored twice
    for local in [true, false] {
        let a = fresh(420, 48);
        let mut f = if local { a.clone() } else { vec![] };
        for j in 0..200 {
            f.extend(fresh(3, 48));
            f.push(a[2 * j + 1].clone());
        }
        for j in 120..200 {
            f.push(a[2 * j].clone());
            f.push(a[2 * j + 1].clone());
            f.extend(fresh(1, 48));
        }
        for j in 0..5 {
            f.extend(a[400 + j..410].iter().cloned());
        }
        cases.push((format!("fragmented history, repeats {}", if local { "inside the pending xorb" } else { "of a stored xorb" }), f, if local { vec![] } else { vec![a] }));
    }
    // 7. near-duplicate regions inside ONE pending xorb: a run R = A B C D E F G H stored as new data, later the same run with
    //    one or two inner chunks replaced (A X C D .. / A B X D .. / A X Y D ..), at several offsets of the first occurrence in
    //    the xorb; chunk lengths all different, so a run that swallows the replaced chunk also shows in the segment byte counts
    for offset in [0usize, 3, 17] {
        let mut f = fresh(offset, 40);
        let r: Vec<Chunk> = (0..8).map(|k| fresh(1, 50 + 7 * k).pop().unwrap()).collect();
        f.extend(r.iter().cloned());
        let mut shapes = vec![];
        for replaced in [vec![1usize], vec![2], vec![1, 2], vec![6], vec![3, 5], vec![1, 2, 3, 4, 5, 6]] {
            f.extend(fresh(2, 33));
            let mut v = r.clone();
            for &k in &replaced {
                v[k] = fresh(1, 90 + 11 * k).pop().unwrap();
            }
            f.extend(v);
            shapes.push(format!("{replaced:?}"));
        }
        f.extend(fresh(1, 20));
        cases.push((format!("run of 8 chunks stored at chunk {offset} of the pending xorb, then repeated with the chunks at run positions {} replaced by new ones (2 fresh chunks between the repeats)", shapes.join(", ")), f, vec![]));
        // each shape alone, directly after the run
        for replaced in [vec![1usize], vec![2], vec![1, 2]] {
            let mut f = fresh(offset, 40);
            f.extend(r.iter().cloned());
            let mut v = r[..5].to_vec();
            for &k in &replaced {
                v[k] = fresh(1, 90 + 11 * k).pop().unwrap();
            }
            f.extend(v);
            cases.push((format!("run A B C D E F G H at chunk {offset}, immediately followed by A..E with positions {replaced:?} replaced"), f, vec![]));
        }
    }
    for (name, file, remote) in &cases {
        for blocks in [vec![usize::MAX], vec![1usize], vec![7, 1000]] {
            let r = std::panic::catch_unwind(std::panic::AssertUnwindSafe(|| run(name, file, &blocks, remote))).unwrap_or_else(|e| {
                let msg = e.downcast_ref::<String>().cloned().or_else(|| e.downcast_ref::<&str>().map(|s| s.to_string())).unwrap_or_default();
                Some(format!("{name}: finalize panicked on a file of {} chunks fed in blocks {:?}: {msg}", file.len(), blocks))
            });
            if let Some(w) = r {
                println!("WITNESS {w}");
                std::process::exit(1);
            }
        }
    }
    println!("no violation found");
}
