//! Witness search for C16 (and the session-level clauses of C14 and C01 / C11): histories of REAL data::FileUploadSessions in ONE
//! process sharing one shard-cache directory, against a local store with FAULT INJECTION, and against a tiny in-process HTTP store
//! that decides which xorb upload is rejected and in which order uploads complete.
//! Rule checked after every session: IF every call of the session (new, add_data, finish, finalize) returned Ok THEN every file of
//! that session - and every file of earlier successful sessions - downloads byte-identically (whole file and byte ranges) through
//! FileDownloader from the STORE ALONE (fresh local directories); a session without an injected fault must succeed; when the HTTP
//! store rejected a xorb, some call must return an error and no shard may have been handed to the store.
//! Faults (local store): the xorb directory replaced by a regular file (before the session / after a middle block / before finish),
//! a truncated object planted at the path of the first / a middle / the last xorb of the file (learnt from a reference run), the
//! shard directory replaced by a regular file before finalize; each followed by a repaired retry session and a third session.
//! Content: fresh files, a file cut at a chunk boundary of an earlier file (new file hash, no new chunk) finished BEFORE a file with
//! new data, a fresh head + stored stretch + fresh tail, identical re-uploads (zero left-over chunks), small files ending in the
//! session's aggregated xorb.  Dry-run sessions (against the HTTP store: must send nothing and leave nothing in the shard cache)
//! followed by a real upload of the same content.
//! Metrics (C14): per file total_bytes == bytes fed and new + deduped == total (bytes and chunks); finalize()'s totals == sums of
//! the per-file metrics; shard_bytes_uploaded == bytes of the shard files that reached the store (also with several shards per
//! session, HF_XET_MDB_SHARD_MIN_TARGET_SIZE=4096).  xorb_bytes_uploaded is NOT checked (snapshotted early on HEAD).
//! The limits are read once per process: the program re-executes itself per configuration (8 KiB chunks, 40,960-byte / 8-chunk
//! xorbs; the same with 4 KiB minimum shard size).  Prints `WITNESS ...` and exits 1 on the first violation.
use std::collections::BTreeMap;
use std::io::{Read, Write};
use std::net::{TcpListener, TcpStream};
use std::path::{Path, PathBuf};
use std::process::{Command, Stdio};
use std::sync::{Arc, Condvar, Mutex};
use std::time::Duration;

use cas_client::{FileProvider, OutputProvider};
use cas_types::FileRange;
use data::configurations::{DataConfig, Endpoint, GlobalDedupPolicy, RepoInfo, ShardConfig, TranslatorConfig};
use data::{CacheConfig, FileDownloader, FileUploadSession, PointerFile};
use deduplication::DeduplicationMetrics;
use merklehash::MerkleHash;
use rand::rngs::StdRng;
use rand::{Rng, SeedableRng};
use xet_threadpool::ThreadPool;

const BASE_ENV: [(&str, &str); 3] = [("HF_XET_TARGET_CHUNK_SIZE", "8192"), ("HF_XET_MAX_XORB_BYTES", "40960"), ("HF_XET_MAX_XORB_CHUNKS", "8")];
const CONFIGS: [(&str, &[(&str, &str)]); 3] = [
    ("A: 8 KiB chunks, xorbs of 40,960 bytes / 8 chunks", &[]),
    ("B: as A, minimum shard size 4096 bytes (several shards per session)", &[("HF_XET_MDB_SHARD_MIN_TARGET_SIZE", "4096")]),
    // the session shard is flushed to disk every ~1 kB of records while many files are cleaned concurrently
    ("C: 1 KiB chunks, xorbs of 8192 bytes / 64 chunks, minimum shard size 1024 bytes; 48 files cleaned concurrently", &[("HF_XET_TARGET_CHUNK_SIZE", "1024"), ("HF_XET_MAX_XORB_BYTES", "8192"), ("HF_XET_MAX_XORB_CHUNKS", "64"), ("HF_XET_MDB_SHARD_MIN_TARGET_SIZE", "1024")]),
];

// ---------------------------------------------------------------------------------------------------------------------------------
// configuration, reference chunk boundaries
// ---------------------------------------------------------------------------------------------------------------------------------

fn config(endpoint: Endpoint, local: &Path) -> Arc<TranslatorConfig> {
    std::fs::create_dir_all(local).unwrap();
    Arc::new(TranslatorConfig {
        data_config: DataConfig {
            endpoint,
            compression: Default::default(),
            auth: None,
            prefix: "default".into(),
            cache_config: CacheConfig { cache_directory: local.join("cache"), cache_size: 0 },
            staging_directory: None,
        },
        shard_config: ShardConfig {
            prefix: "default".into(),
            cache_directory: local.join("shard-cache"),
            session_directory: local.join("shard-session"),
            global_dedup_policy: GlobalDedupPolicy::Never,
            repo_salt: [0u8; 32],
        },
        repo_info: Some(RepoInfo { repo_paths: vec!["".into()] }),
    })
}
fn local_store(store: &Path, local: &Path) -> Arc<TranslatorConfig> {
    std::fs::create_dir_all(store).unwrap();
    config(Endpoint::FileSystem(store.to_path_buf()), local)
}

/// gear-hash rule (see c04_chunker): end offsets of the chunks of `data`
fn chunk_ends(data: &[u8]) -> Vec<usize> {
    let target = *deduplication::constants::TARGET_CHUNK_SIZE;
    let (mn, mx) = (target / *deduplication::constants::MINIMUM_CHUNK_DIVISOR, target * *deduplication::constants::MAXIMUM_CHUNK_MULTIPLIER);
    let mask0 = (target - 1) as u64;
    let mask = mask0 << mask0.leading_zeros();
    let skip = mn.saturating_sub(65);
    let mut out = vec![];
    let mut start = 0usize;
    while start < data.len() {
        let mut h: u64 = 0;
        let mut len = 0usize;
        while start + len < data.len() {
            let b = data[start + len];
            len += 1;
            if len > skip {
                h = (h << 1).wrapping_add(gearhash::DEFAULT_TABLE[b as usize]);
                if h & mask == 0 {
                    break;
                }
            }
            if len == mx {
                break;
            }
        }
        start += len;
        out.push(start);
    }
    out
}

fn random(seed: u64, n: usize) -> Vec<u8> {
    let mut v = vec![0u8; n];
    StdRng::seed_from_u64(seed).fill(&mut v[..]);
    v
}

// ---------------------------------------------------------------------------------------------------------------------------------
// sessions
// ---------------------------------------------------------------------------------------------------------------------------------

#[derive(Clone)]
struct FileIn {
    name: String,
    what: String,
    data: Arc<Vec<u8>>,
}

#[derive(Clone, Debug, PartialEq)]
enum Fault {
    None,
    /// xorb directory replaced by a regular file ...
    XorbDirBeforeStart,
    /// ... after `n` blocks of the first file were fed (and their uploads had time to finish)
    XorbDirAfterBlocks(usize),
    XorbDirBeforeFirstFinish,
    ShardDirBeforeFinalize,
    /// a truncated object sits at the path of this xorb
    Planted(MerkleHash, String),
}

struct Outcome {
    error: Option<String>,
    pointers: Vec<PointerFile>,
    file_metrics: Vec<DeduplicationMetrics>,
    session_metrics: Option<DeduplicationMetrics>,
    xorbs_of_first_file: Vec<MerkleHash>,
}

fn xorb_dir(store: &Path) -> PathBuf { store.join("xorbs") }
fn shard_dir(store: &Path) -> PathBuf { store.join("shards") }
fn break_dir(dir: &Path) {
    std::fs::create_dir_all(dir).unwrap();
    std::fs::rename(dir, dir.with_extension("aside")).unwrap();
    std::fs::write(dir, b"not a directory").unwrap();
}
fn repair_dir(dir: &Path) {
    if dir.is_file() && dir.with_extension("aside").is_dir() {
        std::fs::remove_file(dir).unwrap();
        std::fs::rename(dir.with_extension("aside"), dir).unwrap();
    }
}
fn xorb_path(store: &Path, h: &MerkleHash) -> PathBuf { xorb_dir(store).join(format!("default.{h:?}")) }

async fn pause() { tokio::time::sleep(Duration::from_millis(25)).await; }

/// One session: the files are cleaned one after the other, fed in blocks of one xorb's worth of bytes with a short pause after
/// every call (so that background uploads have finished before the next step, and a fault hits the intended xorb).
async fn run_session(cfg: Arc<TranslatorConfig>, tp: Arc<ThreadPool>, store: Option<&Path>, files: &[FileIn], fault: &Fault, dry_run: bool) -> Outcome {
    let mut out = Outcome { error: None, pointers: vec![], file_metrics: vec![], session_metrics: None, xorbs_of_first_file: vec![] };
    let block = *deduplication::constants::MAX_XORB_BYTES;
    if let (Fault::XorbDirBeforeStart, Some(s)) = (fault, store) { break_dir(&xorb_dir(s)); }
    if let (Fault::Planted(h, _), Some(s)) = (fault, store) {
        std::fs::create_dir_all(xorb_dir(s)).unwrap();
        std::fs::write(xorb_path(s, h), [0x58u8; 64]).unwrap(); // 64 bytes that are no xorb
    }
    let session = match if dry_run { FileUploadSession::dry_run(cfg, tp, None).await } else { FileUploadSession::new(cfg, tp, None).await } {
        Ok(s) => s,
        Err(e) => { out.error = Some(format!("FileUploadSession::new: {e}")); return out; },
    };
    for (fi, f) in files.iter().enumerate() {
        let mut cleaner = session.start_clean(f.name.clone());
        for (bi, b) in f.data.chunks(block).enumerate() {
            if let (Fault::XorbDirAfterBlocks(n), Some(s), 0) = (fault, store, fi) { if *n == bi { break_dir(&xorb_dir(s)); } }
            if let Err(e) = cleaner.add_data(b).await { out.error = Some(format!("add_data (file '{}', block {bi}): {e}", f.name)); return out; }
            pause().await;
        }
        if let (Fault::XorbDirBeforeFirstFinish, Some(s), 0) = (fault, store, fi) { break_dir(&xorb_dir(s)); }
        match cleaner.finish().await {
            Ok((p, m)) => { out.pointers.push(p); out.file_metrics.push(m); },
            Err(e) => { out.error = Some(format!("finish (file '{}'): {e}", f.name)); return out; },
        }
        pause().await;
    }
    if let (Fault::ShardDirBeforeFinalize, Some(s)) = (fault, store) { break_dir(&shard_dir(s)); }
    match session.finalize_with_file_info().await {
        Ok((m, infos)) => {
            out.session_metrics = Some(m);
            if let Some(p) = out.pointers.first() {
                if let Some(fi) = infos.iter().find(|fi| fi.metadata.file_hash.hex() == *p.hash_string()) {
                    for s in &fi.segments { if out.xorbs_of_first_file.last() != Some(&s.cas_hash) { out.xorbs_of_first_file.push(s.cas_hash); } }
                }
            }
        },
        Err(e) => out.error = Some(format!("finalize: {e}")),
    }
    out
}

async fn download_check(store: &Path, scratch: &Path, tp: Arc<ThreadPool>, f: &FileIn, p: &PointerFile, n_download: &mut usize) -> Result<(), String> {
    *n_download += 1;
    let fresh_local = scratch.join(format!("fresh-local-{n_download}"));
    let dl = FileDownloader::new(local_store(store, &fresh_local), tp).await.map_err(|e| format!("FileDownloader::new fails: {e}"))?;
    let len = f.data.len() as u64;
    if p.filesize() != len {
        return Err(format!("pointer of file '{}' ({}) records size {} but {len} bytes were fed", f.name, f.what, p.filesize()));
    }
    let mut ranges: Vec<Option<(u64, u64)>> = vec![None];
    if len > 3 { ranges.extend([Some((len / 3, 2 * len / 3)), Some((len - 1, len)), Some((1, len.min(50_001)))]); }
    for r in ranges {
        let out = scratch.join("download.bin");
        let _ = std::fs::remove_file(&out);
        let prov = OutputProvider::File(FileProvider::new(out.clone()));
        let what = r.map(|r| format!("byte range {r:?}")).unwrap_or("the whole file".into());
        let n = dl.smudge_file_from_pointer(p, &prov, r.map(|(a, b)| FileRange { start: a, end: b }), None).await
            .map_err(|e| format!("file '{}' ({}; {len} bytes) cannot be reconstructed from the store ({what}): {e}", f.name, f.what))?;
        let got = std::fs::read(&out).unwrap_or_default();
        let (a, b) = r.unwrap_or((0, len));
        let want = &f.data[a as usize..b as usize];
        if got != want || n != want.len() as u64 {
            let i = got.iter().zip(want.iter()).position(|(x, y)| x != y).unwrap_or(got.len().min(want.len()));
            return Err(format!("file '{}' ({}; {len} bytes): downloading {what} from the store returns {} bytes (reported {n}), fed were {} there; first difference at offset {i}", f.name, f.what, got.len(), want.len()));
        }
    }
    Ok(())
}

fn shard_files(store: &Path) -> BTreeMap<String, u64> {
    let mut m = BTreeMap::new();
    if let Ok(rd) = std::fs::read_dir(shard_dir(store)) {
        for e in rd.flatten() {
            let n = e.file_name().to_string_lossy().to_string();
            if n.ends_with(".mdb") { m.insert(n, e.metadata().map(|m| m.len()).unwrap_or(0)); }
        }
    }
    m
}
fn mdb_files(dir: &Path) -> Vec<String> {
    std::fs::read_dir(dir).map(|rd| rd.flatten().map(|e| e.file_name().to_string_lossy().to_string()).filter(|n| n.ends_with(".mdb")).collect()).unwrap_or_default()
}

fn metrics_check(files: &[FileIn], o: &Outcome) -> Result<(), String> {
    let mut sum = DeduplicationMetrics::default();
    for (f, m) in files.iter().zip(&o.file_metrics) {
        if m.total_bytes != f.data.len() {
            return Err(format!("file '{}' ({}): finish() reports total_bytes {} for {} bytes fed", f.name, f.what, m.total_bytes, f.data.len()));
        }
        if m.new_bytes + m.deduped_bytes != m.total_bytes || m.new_chunks + m.deduped_chunks != m.total_chunks {
            return Err(format!("file '{}' ({}): finish() reports new + deduped != total: bytes {} + {} vs {}, chunks {} + {} vs {}", f.name, f.what, m.new_bytes, m.deduped_bytes, m.total_bytes, m.new_chunks, m.deduped_chunks, m.total_chunks));
        }
        if m.defrag_prevented_dedup_bytes > m.new_bytes || m.defrag_prevented_dedup_chunks > m.new_chunks {
            return Err(format!("file '{}' ({}): bytes / chunks withheld from dedup ({} / {}) exceed the new bytes / chunks ({} / {})", f.name, f.what, m.defrag_prevented_dedup_bytes, m.defrag_prevented_dedup_chunks, m.new_bytes, m.new_chunks));
        }
        sum.merge_in(m);
    }
    let Some(s) = &o.session_metrics else { return Ok(()) };
    let a = [s.total_bytes, s.deduped_bytes, s.new_bytes, s.deduped_bytes_by_global_dedup, s.defrag_prevented_dedup_bytes, s.total_chunks, s.deduped_chunks, s.new_chunks, s.deduped_chunks_by_global_dedup, s.defrag_prevented_dedup_chunks];
    let b = [sum.total_bytes, sum.deduped_bytes, sum.new_bytes, sum.deduped_bytes_by_global_dedup, sum.defrag_prevented_dedup_bytes, sum.total_chunks, sum.deduped_chunks, sum.new_chunks, sum.deduped_chunks_by_global_dedup, sum.defrag_prevented_dedup_chunks];
    if a != b {
        let per: Vec<String> = files.iter().zip(&o.file_metrics).map(|(f, m)| format!("'{}' total {} new {} deduped {} / chunks {} {} {}", f.name, m.total_bytes, m.new_bytes, m.deduped_bytes, m.total_chunks, m.new_chunks, m.deduped_chunks)).collect();
        return Err(format!("finalize() reports (total, deduped, new, global, withheld bytes; same for chunks) {a:?} but the per-file metrics returned by finish() sum to {b:?}; files: {}", per.join("; ")));
    }
    Ok(())
}

// ---------------------------------------------------------------------------------------------------------------------------------
// histories against the local store
// ---------------------------------------------------------------------------------------------------------------------------------

struct Step {
    files: Vec<FileIn>,
    fault: Fault,
}

struct Ctx {
    tp: Arc<ThreadPool>,
    cfg_name: String,
    n_download: usize,
}

/// Runs the sessions of one history against one store + one local directory; returns a witness text on the first violation.
async fn run_history(cx: &mut Ctx, name: &str, steps: &[Step]) -> Option<String> {
    let root = tempfile::tempdir().unwrap();
    let (store, local, scratch) = (root.path().join("store"), root.path().join("local"), root.path().join("scratch"));
    std::fs::create_dir_all(&scratch).unwrap();
    let mut good: Vec<(FileIn, PointerFile, usize)> = vec![];
    let mut trail: Vec<String> = vec![];
    for (si, st) in steps.iter().enumerate() {
        let fault_text = match &st.fault {
            Fault::None => "no fault".to_string(),
            Fault::XorbDirBeforeStart => "the store's xorb directory is a regular file during the whole session".into(),
            Fault::XorbDirAfterBlocks(n) => format!("the store's xorb directory is replaced by a regular file after {n} blocks of the first file"),
            Fault::XorbDirBeforeFirstFinish => "the store's xorb directory is replaced by a regular file just before finish() of the first file".into(),
            Fault::ShardDirBeforeFinalize => "the store's shard directory is replaced by a regular file just before finalize()".into(),
            Fault::Planted(h, which) => format!("a truncated object sits at the path of the file's {which} xorb {}", h.hex()),
        };
        let files_text: Vec<String> = st.files.iter().map(|f| format!("'{}' ({}, {} bytes)", f.name, f.what, f.data.len())).collect();
        let before = shard_files(&store);
        let o = run_session(local_store(&store, &local), cx.tp.clone(), Some(&store), &st.files, &st.fault, false).await;
        // repair everything before checking
        repair_dir(&xorb_dir(&store));
        repair_dir(&shard_dir(&store));
        if let Fault::Planted(h, _) = &st.fault {
            let p = xorb_path(&store, h);
            if std::fs::metadata(&p).map(|m| m.len() == 64).unwrap_or(false) { let _ = std::fs::remove_file(&p); }
        }
        trail.push(format!("session {}: files {} with {fault_text} -> {}", si + 1, files_text.join(", "), o.error.clone().map(|e| format!("error from {e}")).unwrap_or("every call Ok".into())));
        eprintln!("[{name}] {}", trail.last().unwrap());
        let ctx = format!("config {}; history '{name}' (one process, one store, one shard cache): {}", cx.cfg_name, trail.join(" | "));
        match &o.error {
            Some(e) => {
                if st.fault == Fault::None {
                    return Some(format!("{ctx}: session {} fails on a healthy store: {e}", si + 1));
                }
            },
            None => {
                if let Err(e) = metrics_check(&st.files, &o) {
                    return Some(format!("{ctx}: session {}: {e}", si + 1));
                }
                let after = shard_files(&store);
                let new_bytes: u64 = after.iter().filter(|(n, _)| !before.contains_key(*n)).map(|(_, s)| *s).sum();
                let n_new = after.len() - before.len();
                let reported = o.session_metrics.as_ref().map(|m| m.shard_bytes_uploaded as u64).unwrap_or(0);
                if reported != new_bytes {
                    return Some(format!("{ctx}: session {}: finalize() reports shard_bytes_uploaded = {reported} but {n_new} new shard file(s) of {new_bytes} bytes in total reached the store", si + 1));
                }
                for (f, p) in st.files.iter().zip(&o.pointers) {
                    good.push((f.clone(), p.clone(), si + 1));
                }
            },
        }
        // every file accepted by a session that reported success must be reconstructible from the store alone
        for (f, p, from) in &good {
            if let Err(e) = download_check(&store, &scratch, cx.tp.clone(), f, p, &mut cx.n_download).await {
                return Some(format!("{ctx}: session {from} reported success for it, but after session {}: {e}", si + 1));
            }
        }
    }
    None
}

// ---------------------------------------------------------------------------------------------------------------------------------
// HTTP store: rejects / holds chosen xorb uploads, records everything it is sent
// ---------------------------------------------------------------------------------------------------------------------------------

#[derive(Default)]
struct HttpState {
    xorb_posts: Vec<(String, bool)>,
    shards: usize,
    other: Vec<String>,
    reject_index: Option<usize>,
    hold_index: Option<usize>,
    rejection_delivered: bool,
}
#[derive(Default)]
struct HttpStore {
    state: Mutex<HttpState>,
    cv: Condvar,
}

fn read_request(stream: &mut TcpStream) -> Option<(String, String, usize)> {
    let mut buf = Vec::new();
    let mut tmp = [0u8; 16 * 1024];
    let header_end = loop {
        if let Some(p) = buf.windows(4).position(|w| w == b"\r\n\r\n") { break p + 4; }
        let n = stream.read(&mut tmp).ok()?;
        if n == 0 { return None; }
        buf.extend_from_slice(&tmp[..n]);
    };
    let head = String::from_utf8_lossy(&buf[..header_end]).to_string();
    let mut lines = head.split("\r\n");
    let first = lines.next()?;
    let method = first.split_whitespace().next()?.to_string();
    let path = first.split_whitespace().nth(1)?.to_string();
    let mut content_length = 0usize;
    for l in lines {
        if let Some((k, v)) = l.split_once(':') {
            if k.trim().eq_ignore_ascii_case("content-length") { content_length = v.trim().parse().ok()?; }
        }
    }
    let mut have = buf.len() - header_end;
    while have < content_length {
        let n = stream.read(&mut tmp).ok()?;
        if n == 0 { return None; }
        have += n;
    }
    Some((method, path, content_length))
}
fn respond(stream: &mut TcpStream, status: &str, body: &str) {
    let msg = format!("HTTP/1.1 {status}\r\ncontent-type: application/json\r\ncontent-length: {}\r\n\r\n{body}", body.len());
    let _ = stream.write_all(msg.as_bytes());
    let _ = stream.flush();
}
fn serve(mut stream: TcpStream, store: Arc<HttpStore>) {
    let _ = stream.set_nodelay(true);
    while let Some((method, path, _len)) = read_request(&mut stream) {
        if path.starts_with("/xorb/") {
            let hash = path.rsplit('/').next().unwrap_or("").to_string();
            let (reject, hold) = {
                let mut st = store.state.lock().unwrap();
                let idx = st.xorb_posts.len();
                let reject = st.reject_index == Some(idx);
                st.xorb_posts.push((hash, !reject));
                (reject, st.hold_index == Some(idx) && st.reject_index.is_some())
            };
            if reject {
                respond(&mut stream, "403 Forbidden", "{}");
                store.state.lock().unwrap().rejection_delivered = true;
                store.cv.notify_all();
            } else {
                if hold {
                    let st = store.state.lock().unwrap();
                    let _ = store.cv.wait_timeout_while(st, Duration::from_secs(8), |s| !s.rejection_delivered).unwrap();
                    std::thread::sleep(Duration::from_millis(300));
                }
                respond(&mut stream, "200 OK", r#"{"was_inserted":true}"#);
            }
        } else if path.starts_with("/shard/") {
            store.state.lock().unwrap().shards += 1;
            respond(&mut stream, "200 OK", r#"{"result":1}"#);
        } else {
            store.state.lock().unwrap().other.push(format!("{method} {path}"));
            respond(&mut stream, "404 Not Found", "{}");
        }
    }
}
fn start_http_store() -> (Arc<HttpStore>, String) {
    let store = Arc::new(HttpStore::default());
    let listener = TcpListener::bind("127.0.0.1:0").unwrap();
    let url = format!("http://{}", listener.local_addr().unwrap());
    let s2 = store.clone();
    std::thread::spawn(move || {
        for stream in listener.incoming().flatten() {
            let s = s2.clone();
            std::thread::spawn(move || serve(stream, s));
        }
    });
    (store, url)
}

/// One-call feed and immediate finalize (no pauses): the uploads are still in flight when finalize joins them.
async fn quick_session(cfg: Arc<TranslatorConfig>, tp: Arc<ThreadPool>, f: &FileIn, dry_run: bool) -> Result<(), String> {
    let session = if dry_run { FileUploadSession::dry_run(cfg, tp, None).await } else { FileUploadSession::new(cfg, tp, None).await }.map_err(|e| format!("new: {e}"))?;
    let mut cleaner = session.start_clean(f.name.clone());
    cleaner.add_data(&f.data).await.map_err(|e| format!("add_data: {e}"))?;
    cleaner.finish().await.map_err(|e| format!("finish: {e}"))?;
    session.finalize().await.map_err(|e| format!("finalize: {e}"))?;
    Ok(())
}

async fn http_histories(cx: &mut Ctx, f: &FileIn) -> Option<String> {
    // reference: how many xorbs does this file produce?
    let root = tempfile::tempdir().unwrap();
    let (st, url) = start_http_store();
    if let Err(e) = quick_session(config(Endpoint::Server(url), &root.path().join("l0")), cx.tp.clone(), f, false).await {
        return Some(format!("config {}: session against a healthy HTTP store fails: {e}", cx.cfg_name));
    }
    let n = st.state.lock().unwrap().xorb_posts.len();
    if n < 2 || st.state.lock().unwrap().shards == 0 {
        return Some(format!("config {}: a healthy session of file '{}' sent {n} xorbs and {} shards to the HTTP store (expected several xorbs, one shard)", cx.cfg_name, f.name, st.state.lock().unwrap().shards));
    }
    // (rejected xorb index, held xorb index)
    for (k, (reject, hold)) in [(n - 1, Some(0)), (n - 1, None), (0, None), (n / 2, Some(0)), (n - 1, Some(n - 2))].into_iter().enumerate() {
        let (st, url) = start_http_store();
        { let mut s = st.state.lock().unwrap(); s.reject_index = Some(reject); s.hold_index = hold; }
        let r = quick_session(config(Endpoint::Server(url), &root.path().join(format!("l{}", k + 1))), cx.tp.clone(), f, false).await;
        let s = st.state.lock().unwrap();
        eprintln!("[http] reject #{reject} hold {hold:?}: posts {:?} shards {} outcome {r:?}", s.xorb_posts.iter().map(|p| p.1).collect::<Vec<_>>(), s.shards);
        let rejected: Vec<&String> = s.xorb_posts.iter().filter(|p| !p.1).map(|p| &p.0).collect();
        let ctx = format!("config {}; session of file '{}' ({} bytes, one add_data call, {n} xorbs) against an HTTP store that rejects xorb upload #{reject} with 403{}", cx.cfg_name, f.name, f.data.len(), hold.map(|h| format!(" and answers upload #{h} only 300 ms after the rejection was delivered")).unwrap_or_default());
        if !rejected.is_empty() {
            if r.is_ok() {
                return Some(format!("{ctx}: the store rejected xorb {} but add_data, finish and finalize all returned Ok; {} shard(s) were handed to the store", rejected[0], s.shards));
            }
            if s.shards > 0 {
                return Some(format!("{ctx}: {} shard(s) were handed to the store although the upload of xorb {} had failed", s.shards, rejected[0]));
            }
        } else if let Err(e) = r {
            return Some(format!("{ctx}: no upload was rejected (only {} arrived) yet the session fails: {e}", s.xorb_posts.len()));
        }
    }
    // dry run: nothing may be sent, nothing may be left in the shard cache; then a real session of the same content
    let (st, url) = start_http_store();
    let local = root.path().join("dry-local");
    let r = quick_session(config(Endpoint::Server(url), &local), cx.tp.clone(), f, true).await;
    let ctx = format!("config {}; DRY-RUN session of file '{}' ({} bytes)", cx.cfg_name, f.name, f.data.len());
    if let Err(e) = r {
        return Some(format!("{ctx}: fails: {e}"));
    }
    {
        let s = st.state.lock().unwrap();
        if !s.xorb_posts.is_empty() || s.shards > 0 {
            return Some(format!("{ctx}: {} xorbs and {} shards were sent to the store", s.xorb_posts.len(), s.shards));
        }
    }
    let cached = mdb_files(&local.join("shard-cache"));
    if !cached.is_empty() {
        return Some(format!("{ctx}: stored nothing, yet left {} shard(s) in the local shard cache, advertising xorbs that do not exist: {cached:?}", cached.len()));
    }
    let store = root.path().join("real-store");
    let o = run_session(local_store(&store, &local), cx.tp.clone(), Some(&store), std::slice::from_ref(f), &Fault::None, false).await;
    let ctx = format!("{ctx}, followed by a real session of the same file sharing the shard cache directory");
    match o.error {
        Some(e) => return Some(format!("{ctx}: the real session fails: {e}")),
        None => {
            if let Err(e) = download_check(&store, root.path(), cx.tp.clone(), f, &o.pointers[0], &mut cx.n_download).await {
                return Some(format!("{ctx}: every call returned Ok, but {e}"));
            }
        },
    }
    None
}

// ---------------------------------------------------------------------------------------------------------------------------------
// the histories
// ---------------------------------------------------------------------------------------------------------------------------------

async fn run_all(tp: Arc<ThreadPool>, cfg_name: String, seed: u64, full: bool) -> Option<String> {
    let mut cx = Ctx { tp, cfg_name, n_download: 0 };
    let file = |name: &str, what: &str, data: Vec<u8>| FileIn { name: name.into(), what: what.into(), data: Arc::new(data) };
    let a_bytes = random(seed * 100 + 1, 250_000);
    let ends = chunk_ends(&a_bytes);
    let cut = ends[ends.len() * 3 / 5];
    let cut2 = ends[ends.len() / 4];
    let a = file("A", "fresh random data", a_bytes.clone());
    let small = file("small", "fresh, smaller than a xorb", random(seed * 100 + 2, 10_000));
    let b = file("A-prefix", &format!("A cut at its chunk boundary {cut}: new file hash, no new chunk"), a_bytes[..cut].to_vec());
    let b2 = file("A-prefix-2", &format!("A cut at its chunk boundary {cut2}"), a_bytes[..cut2].to_vec());
    let c = file("C", "fresh random data", random(seed * 100 + 3, 60_000));
    let mut e_bytes = random(seed * 100 + 4, 30_000);
    e_bytes.extend_from_slice(&a_bytes[ends[3]..ends[12]]);
    e_bytes.extend(random(seed * 100 + 5, 30_000));
    let e = file("edited", "30,000 fresh bytes, chunks 4..12 of A, 30,000 fresh bytes", e_bytes);
    let mut x_bytes = a_bytes.clone();
    x_bytes.extend(random(seed * 100 + 6, 120_000));
    let x = file("A-extended", "A followed by 120,000 fresh bytes", x_bytes);
    let d = file("D", "fresh random data", random(seed * 100 + 7, 230_000));
    let empty = file("empty", "no bytes", vec![]);
    let step = |files: &[&FileIn], fault: Fault| Step { files: files.iter().map(|f| (*f).clone()).collect(), fault };

    // 1. healthy histories: dedup structures across sessions
    if let Some(w) = run_history(&mut cx, "dedup structures", &[
        step(&[&a, &small], Fault::None),
        step(&[&b, &c, &e, &a, &empty], Fault::None),
        step(&[&b2, &a], Fault::None),
        step(&[&b], Fault::None),
    ]).await { return Some(w); }
    if let Some(w) = run_history(&mut cx, "prefix file alone, then with new data", &[
        step(&[&x], Fault::None),
        step(&[&a], Fault::None),
        step(&[&b, &d], Fault::None),
    ]).await { return Some(w); }

    // 2. xorb directory faults, each followed by a repaired retry and a further session
    let faults = if full { vec![Fault::XorbDirBeforeStart, Fault::XorbDirAfterBlocks(1), Fault::XorbDirAfterBlocks(3), Fault::XorbDirBeforeFirstFinish, Fault::ShardDirBeforeFinalize] } else { vec![Fault::XorbDirAfterBlocks(3), Fault::ShardDirBeforeFinalize] };
    for fault in faults {
        if let Some(w) = run_history(&mut cx, "healthy upload, faulty upload of an extended file, retry", &[
            step(&[&a], Fault::None),
            step(&[&x, &small], fault.clone()),
            step(&[&x, &small], Fault::None),
            step(&[&b, &c], Fault::None),
        ]).await { return Some(w); }
    }
    if full {
        if let Some(w) = run_history(&mut cx, "faulty first session, retry", &[
            step(&[&d, &small], Fault::XorbDirAfterBlocks(2)),
            step(&[&d, &small], Fault::None),
        ]).await { return Some(w); }
    }

    // 3. a truncated object at the path of the first / a middle / the last xorb of the file (hashes from a reference run)
    let reference = {
        let root = tempfile::tempdir().unwrap();
        let (store, local) = (root.path().join("store"), root.path().join("local"));
        run_session(local_store(&store, &local), cx.tp.clone(), Some(&store), std::slice::from_ref(&d), &Fault::None, false).await
    };
    if let Some(e) = reference.error {
        return Some(format!("config {}: reference session of file 'D' on a healthy store fails: {e}", cx.cfg_name));
    }
    let xs = reference.xorbs_of_first_file;
    if xs.len() < 3 {
        return Some(format!("config {}: file 'D' produced only {} xorbs in the reference session", cx.cfg_name, xs.len()));
    }
    let picks = if full { vec![(0, "first"), (xs.len() / 2, "middle"), (xs.len() - 2, "last but one"), (xs.len() - 1, "last")] } else { vec![(xs.len() / 2, "middle")] };
    for (k, which) in picks {
        if let Some(w) = run_history(&mut cx, "stale truncated object in the store, retry after its removal", &[
            step(&[&d], Fault::Planted(xs[k], format!("{which} (#{k} of {})", xs.len()))),
            step(&[&d], Fault::None),
            step(&[&c, &d], Fault::None),
        ]).await { return Some(w); }
    }

    // 4. HTTP store: rejected xorb with controlled completion order, dry run
    if full {
        if let Some(w) = http_histories(&mut cx, &d).await { return Some(w); }
    }
    // 5. two endpoints sharing their first 16 characters under one cache root
    if full {
        if let Some(w) = endpoint_histories(&mut cx, &a, &x).await { return Some(w); }
    }
    None
}

/// C16 across endpoints: `data_client::default_config` must give endpoints that agree in their first 16 characters separate shard
/// cache / session directories under one cache root; a session against store B must not deduplicate against shards describing
/// xorbs that were stored only behind A.
async fn endpoint_histories(cx: &mut Ctx, a: &FileIn, x: &FileIn) -> Option<String> {
    use data::data_client::default_config;
    let root = tempfile::tempdir().unwrap();
    unsafe { std::env::set_var("HF_XET_CACHE", root.path().join("xet-cache")); }
    for (k, (ea, eb)) in [("https://cas-server.prod.example.co", "https://cas-server.staging.example.co"), ("http://localhost:8080", "http://localhost:9090"), ("https://cas-server.prod.example.co/", "https://cas-server.prod.example.co")].into_iter().enumerate() {
        let ctx = format!("config {}; data_client::default_config with HF_XET_CACHE set to one directory, endpoints {ea:?} and {eb:?} (same first 16 characters)", cx.cfg_name);
        let (ca, cb) = match (default_config(ea.to_string(), None, None, None), default_config(eb.to_string(), None, None, None)) {
            (Ok(a), Ok(b)) => (a, b),
            (ra, rb) => return Some(format!("{ctx}: default_config fails: {:?} / {:?}", ra.err().map(|e| e.to_string()), rb.err().map(|e| e.to_string()))),
        };
        for (what, da, db) in [
            ("shard cache directory", &ca.shard_config.cache_directory, &cb.shard_config.cache_directory),
            ("shard session directory", &ca.shard_config.session_directory, &cb.shard_config.session_directory),
            ("chunk cache directory", &ca.data_config.cache_config.cache_directory, &cb.data_config.cache_config.cache_directory),
        ] {
            if da == db {
                return Some(format!("{ctx}: both endpoints get the same {what} {da:?}"));
            }
        }
        if k > 1 {
            continue;
        }
        // the same layout with the transport replaced by one local directory per store
        let (store_a, store_b) = (root.path().join(format!("store-a-{k}")), root.path().join(format!("store-b-{k}")));
        let with_store = |cfg: Arc<TranslatorConfig>, store: &Path| -> Arc<TranslatorConfig> {
            std::fs::create_dir_all(store).unwrap();
            let c = &*cfg;
            Arc::new(TranslatorConfig {
                data_config: DataConfig { endpoint: Endpoint::FileSystem(store.to_path_buf()), compression: c.data_config.compression, auth: None, prefix: c.data_config.prefix.clone(), cache_config: CacheConfig { cache_directory: c.data_config.cache_config.cache_directory.clone(), cache_size: 0 }, staging_directory: None },
                shard_config: ShardConfig { prefix: c.shard_config.prefix.clone(), cache_directory: c.shard_config.cache_directory.clone(), session_directory: c.shard_config.session_directory.clone(), global_dedup_policy: GlobalDedupPolicy::Never, repo_salt: c.shard_config.repo_salt },
                repo_info: Some(RepoInfo { repo_paths: vec!["".into()] }),
            })
        };
        let ctx = format!("config {}; one machine (cache root HF_XET_CACHE, directories from data_client::default_config), store A behind {ea:?}, store B behind {eb:?}: session 1 uploads '{}' ({} bytes) to A, session 2 uploads '{}' ({}, {} bytes) to B", cx.cfg_name, a.name, a.data.len(), x.name, x.what, x.data.len());
        let o1 = run_session(with_store(ca.clone(), &store_a), cx.tp.clone(), None, std::slice::from_ref(a), &Fault::None, false).await;
        if let Some(e) = o1.error { return Some(format!("{ctx}: session 1 fails: {e}")); }
        let o2 = run_session(with_store(cb.clone(), &store_b), cx.tp.clone(), None, std::slice::from_ref(x), &Fault::None, false).await;
        if let Some(e) = o2.error { return Some(format!("{ctx}: session 2 fails: {e}")); }
        if let Err(e) = download_check(&store_a, root.path(), cx.tp.clone(), a, &o1.pointers[0], &mut cx.n_download).await {
            return Some(format!("{ctx}: every call returned Ok, but from store A: {e}"));
        }
        if let Err(e) = download_check(&store_b, root.path(), cx.tp.clone(), x, &o2.pointers[0], &mut cx.n_download).await {
            return Some(format!("{ctx}: every call returned Ok, but from store B: {e}"));
        }
    }
    None
}

/// Many cleaners running concurrently in one session while the session shard is flushed to disk again and again (minimum shard
/// size 1 kB): every file of a session that reports success must be reconstructible.
async fn concurrent_histories(tp: Arc<ThreadPool>, cfg_name: String, seed: u64) -> Option<String> {
    let mut cx = Ctx { tp, cfg_name, n_download: 0 };
    let xorb = *deduplication::constants::MAX_XORB_BYTES;
    for round in 0..4u64 {
        let root = tempfile::tempdir().unwrap();
        let (store, local) = (root.path().join("store"), root.path().join("local"));
        let files: Vec<FileIn> = (0..48usize).map(|i| FileIn { name: format!("f{i}"), what: "fresh random data".into(), data: Arc::new(random(seed * 1_000_000 + round * 1000 + i as u64 + 1, xorb + xorb / 2 + 17 * i)) }).collect();
        let ctx = format!("config {}; round {round}: ONE session, 48 files of {}..{} fresh bytes each cleaned by its own concurrently running task (add_data in pieces of 3000 bytes), then finalize", cx.cfg_name, files[0].data.len(), files[47].data.len());
        let session = match FileUploadSession::new(local_store(&store, &local), cx.tp.clone(), None).await { Ok(s) => s, Err(e) => return Some(format!("{ctx}: FileUploadSession::new fails: {e}")) };
        let mut tasks = tokio::task::JoinSet::new();
        for (i, f) in files.iter().cloned().enumerate() {
            let session = session.clone();
            tasks.spawn(async move {
                let mut cleaner = session.start_clean(f.name.clone());
                for piece in f.data.chunks(3000) {
                    cleaner.add_data(piece).await.map_err(|e| format!("add_data (file '{}'): {e}", f.name))?;
                    tokio::task::yield_now().await;
                }
                let (p, _m) = cleaner.finish().await.map_err(|e| format!("finish (file '{}'): {e}", f.name))?;
                Ok::<(usize, PointerFile), String>((i, p))
            });
        }
        let mut pointers: Vec<Option<PointerFile>> = files.iter().map(|_| None).collect();
        let mut failed: Option<String> = None;
        while let Some(r) = tasks.join_next().await {
            match r {
                Ok(Ok((i, p))) => pointers[i] = Some(p),
                Ok(Err(e)) => failed = failed.or(Some(e)),
                Err(e) => failed = failed.or(Some(format!("a cleaning task panicked: {e}"))),
            }
        }
        if let Some(e) = failed { return Some(format!("{ctx}: a session without injected fault fails: {e}")); }
        if let Err(e) = session.finalize().await { return Some(format!("{ctx}: finalize fails on a healthy store: {e}")); }
        let mut lost = vec![];
        for (f, p) in files.iter().zip(&pointers) {
            if let Err(e) = download_check(&store, root.path(), cx.tp.clone(), f, p.as_ref().unwrap(), &mut cx.n_download).await {
                lost.push(e);
            }
        }
        if !lost.is_empty() {
            return Some(format!("{ctx}: every call returned Ok, but {} of the 48 files cannot be reconstructed from the store; first: {}", lost.len(), lost[0]));
        }
    }
    None
}

fn child(idx: usize) -> i32 {
    let (cfg_name, env) = CONFIGS[idx];
    let got = [
        ("HF_XET_TARGET_CHUNK_SIZE", *deduplication::constants::TARGET_CHUNK_SIZE as u64),
        ("HF_XET_MAX_XORB_BYTES", *deduplication::constants::MAX_XORB_BYTES as u64),
        ("HF_XET_MAX_XORB_CHUNKS", *deduplication::constants::MAX_XORB_CHUNKS as u64),
        ("HF_XET_MDB_SHARD_MIN_TARGET_SIZE", *mdb_shard::constants::MDB_SHARD_MIN_TARGET_SIZE),
    ];
    let effective: BTreeMap<&str, &str> = BASE_ENV.iter().chain(env.iter()).map(|(k, v)| (*k, *v)).collect();
    for (k, v) in effective.iter() {
        if let Some((_, g)) = got.iter().find(|(n, _)| n == k) {
            if g.to_string() != *v {
                println!("infrastructure: {k}={v} was not picked up by this build (value {g})");
                return 2;
            }
        }
    }
    let seed = std::env::var("VERIF_SEED").ok().and_then(|s| s.parse().ok()).unwrap_or(0u64);
    let tp = Arc::new(ThreadPool::new().expect("runtime"));
    let r = if idx == 2 {
        tp.external_run_async_task(concurrent_histories(tp.clone(), cfg_name.to_string(), seed))
    } else {
        tp.external_run_async_task(run_all(tp.clone(), cfg_name.to_string(), seed, idx == 0))
    };
    match r {
        Ok(None) => { println!("no violation found"); 0 },
        Ok(Some(w)) => { println!("WITNESS {w}"); 1 },
        Err(e) => { println!("WITNESS config {cfg_name}: a session or download panicked / was aborted: {e}"); 1 },
    }
}

fn main() {
    let args: Vec<String> = std::env::args().collect();
    if args.len() == 3 && args[1] == "--child" {
        std::process::exit(child(args[2].parse().unwrap()));
    }
    let exe = std::env::current_exe().unwrap();
    let handles: Vec<_> = (0..CONFIGS.len())
        .map(|i| {
            let mut cmd = Command::new(&exe);
            cmd.arg("--child").arg(i.to_string()).stdout(Stdio::piped()).stderr(Stdio::piped());
            for v in ["HF_XET_MAX_XORB_BYTES", "HF_XET_MAX_XORB_CHUNKS", "HF_XET_TARGET_CHUNK_SIZE", "HF_XET_INGESTION_BLOCK_SIZE", "HF_XET_MDB_SHARD_MIN_TARGET_SIZE"] {
                cmd.env_remove(v);
            }
            for (k, v) in BASE_ENV.iter().chain(CONFIGS[i].1.iter()) {
                cmd.env(k, v);
            }
            let c = cmd.spawn().expect("spawn child");
            std::thread::spawn(move || c.wait_with_output())
        })
        .collect();
    let mut verdict = 0;
    let mut lines = vec![];
    for (i, h) in handles.into_iter().enumerate() {
        let out = h.join().unwrap().expect("child output");
        let stdout = String::from_utf8_lossy(&out.stdout).to_string();
        match out.status.code() {
            Some(0) => {},
            Some(1) => { verdict = verdict.max(1); lines.extend(stdout.lines().filter(|l| l.starts_with("WITNESS")).map(|s| s.to_string())); },
            Some(2) => { eprintln!("{stdout}"); verdict = 2; },
            _ => {
                let err = String::from_utf8_lossy(&out.stderr);
                let tail: Vec<&str> = err.lines().rev().take(6).collect();
                verdict = verdict.max(1);
                lines.push(format!("WITNESS config {}: the process running the session histories died ({:?}); last output: {}", CONFIGS[i].0, out.status, tail.into_iter().rev().collect::<Vec<_>>().join(" | ")));
            },
        }
    }
    if verdict == 2 {
        eprintln!("configuration could not be applied");
        std::process::exit(2);
    }
    if let Some(l) = lines.first() {
        println!("{l}");
        std::process::exit(1);
    }
    println!("no violation found");
}
