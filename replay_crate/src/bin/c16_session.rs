//! Witness search for C16 (and the session-level clauses of C14 and C01 / C11): histories of REAL data::FileUploadSessions in ONE
//! process sharing one shard-cache directory, against a local store with FAULT INJECTION, and against a tiny in-process HTTP store
//! that decides which xorb upload is rejected and in which order uploads complete.
//! Rule checked after every session: IF every call of the session (new, add_data, finish, finalize) returned Ok THEN every file of
//! that session - and every file of earlier successful sessions - downloads byte-identically (whole file and byte ranges) through
//! FileDownloader from the STORE ALONE (fresh local directories); a session without an injected fault must succeed; when the HTTP
//! store rejected a xorb, some call must return an error and no shard may have been handed to the store.
//! Faults (local store): the xorb directory replaced by a regular file (before the session / after a middle block / before finish),
//! a truncated object planted at the path of the first / a middle / the last xorb of the file (learnt from a reference run), the
//! shard directory replaced by a regular file before finalize; each followed by a repaired retry session and a third session.
//! Content: fresh files, a file cut at a chunk boundary of an earlier file (new file hash, no new chunk) finished BEFORE a file with
//! new data, a fresh head + stored stretch + fresh tail, identical re-uploads (zero left-over chunks), small files ending in the
//! session's aggregated xorb.  Dry-run sessions (against the HTTP store: must send nothing and leave nothing in the shard cache)
//! followed by a real upload of the same content.
//! Metrics (C14): per file total_bytes == bytes fed and new + deduped == total (bytes and chunks); finalize()'s totals == sums of
//! the per-file metrics; shard_bytes_uploaded == bytes of the shard files that reached the store (also with several shards per
//! session, HF_XET_MDB_SHARD_MIN_TARGET_SIZE=4096); xorb_bytes_uploaded == bytes of the xorb objects that appeared in the local store /
//! body bytes of the xorb uploads the HTTP store accepted; total_bytes_uploaded == shard_bytes_uploaded + xorb_bytes_uploaded.
//! The limits are read once per process: the program re-executes itself per configuration (8 KiB chunks, 40,960-byte / 8-chunk
//! xorbs; the same with 4 KiB minimum shard size).  Prints `WITNESS ...` and exits 1 on the first violation.
//!
//! Coverage review (children A2..A5, B2..B5, H, H2, H3, U1, U64; all children run in parallel):
//! * session-level oracles added to every history: a chunk stored by an earlier SUCCESSFUL session of the same machine is not
//!   stored again (finish().new_bytes <= bytes of the chunks unknown so far; own chunker + blake3); with GlobalDedupPolicy::Never
//!   the global-dedup counters are 0, otherwise <= the dedup counters; a shard handed to the store again (same name) counts.
//! * local store: slices of an earlier file alone in a session (suffix, middle, hit-new-hit), sessions without files, finalize()
//!   vs finalize_with_file_info(), 14 small + 12 single-chunk files in one session (session-level xorbs cut by bytes / by chunk
//!   count, by either side of the comparison) re-uploaded / reordered / interleaved, a cleaner fed and dropped without finish()
//!   (a later file deduplicates against its xorbs; one of them fails to upload), sessions dropped without finalize (with and
//!   without pending uploads), a failed session followed by a file overlapping only its never-stored part, dry runs against
//!   the local store (pinned: the xorbs ARE written; no shard may reach the store or the shard cache), policy Always with a second
//!   and third machine (fresh local directories), two sessions ALIVE at the same time over one shard cache (healthy / one faulty).
//! * further fault points: shard-session / shard-cache / global_dedup_lookup.db / shards directory unusable at
//!   FileUploadSession::new; shard cache unusable at export time; session directory gone at flush time / mid-session; shard cache
//!   gone mid-session; TRANSIENT faults (Fault::Blip: the xorb directory is unusable for ONE call and the 50 ms after it, every
//!   later upload succeeds - the failure can only surface through the session's bookkeeping of background uploads) at the finish()
//!   that cuts the session data (either side), mid-file, at the last block, with two interleaved cleaners (the error surfaces in
//!   the OTHER cleaner).
//! * HTTP store mirrored to disk in the local store's layout, so that "every call Ok => downloads from the store alone" is checked
//!   for HTTP sessions too: answers was_inserted:false / shard exists / slow answers with several in flight / connection closed
//!   without an answer (client retries), shard upload #0 / #1 / last rejected after all xorbs were accepted, xorb upload first /
//!   middle / last rejected (also fed with pauses, also for the small files), each followed by a retry over the same local
//!   directories and two more sessions; second session of known content sends no xorb; global dedup through GET /chunk (second
//!   machine, policy Always; machine with policy Never sends no query); data_client::upload_async (default_config, files on disk, up
//!   to 8 concurrent cleaners of OVERLAPPING content) healthy / xorb rejected / shard rejected / slow.
//! * HF_XET_MAX_CONCURRENT_UPLOADS = 1 (verified: never 2 xorb uploads in flight) and 64 (verified: >= 12 in flight).
//! A session cannot be finalized twice (finalize consumes the Arc).  Debugging aids: C16_ONLY=<child indices>, C16_VERBOSE=1.
use std::collections::BTreeMap;
use std::io::{Read, Write};
use std::net::{TcpListener, TcpStream};
use std::path::{Path, PathBuf};
use std::process::{Command, Stdio};
use std::sync::{Arc, Condvar, Mutex};
use std::time::Duration;

use cas_client::{FileProvider, OutputProvider};
use cas_types::FileRange;
use data::configurations::{DataConfig, Endpoint, GlobalDedupPolicy, RepoInfo, ShardConfig, TranslatorConfig};
use data::{CacheConfig, FileDownloader, FileUploadSession, PointerFile};
use deduplication::DeduplicationMetrics;
use merklehash::MerkleHash;
use rand::rngs::StdRng;
use rand::{Rng, SeedableRng};
use xet_threadpool::ThreadPool;

const BASE_ENV: [(&str, &str); 3] = [("HF_XET_TARGET_CHUNK_SIZE", "8192"), ("HF_XET_MAX_XORB_BYTES", "40960"), ("HF_XET_MAX_XORB_CHUNKS", "8")];
#[derive(Clone, Copy, PartialEq, Debug)]
enum Kind {
    /// the original histories (all of them / the reduced set)
    Full,
    Reduced,
    /// 48 concurrently cleaned files
    Concurrent,
    /// coverage-review histories against the local store (small files, further fault points, entry points, live sessions side by side)
    Extra(usize),
    /// HTTP store whose accepted objects are mirrored into a directory with the local store's layout (so that downloads can be checked)
    Http(usize),
    /// HF_XET_MAX_CONCURRENT_UPLOADS = 1 / 64
    Serial,
    Wide,
}
const CONFIGS: [(&str, &[(&str, &str)], Kind); 16] = [
    ("A: 8 KiB chunks, xorbs of 40,960 bytes / 8 chunks", &[], Kind::Full),
    ("B: as A, minimum shard size 4096 bytes (several shards per session)", &[("HF_XET_MDB_SHARD_MIN_TARGET_SIZE", "4096")], Kind::Reduced),
    // the session shard is flushed to disk every ~1 kB of records while many files are cleaned concurrently
    ("C: 1 KiB chunks, xorbs of 8192 bytes / 64 chunks, minimum shard size 1024 bytes; 48 files cleaned concurrently", &[("HF_XET_TARGET_CHUNK_SIZE", "1024"), ("HF_XET_MAX_XORB_BYTES", "8192"), ("HF_XET_MAX_XORB_CHUNKS", "64"), ("HF_XET_MDB_SHARD_MIN_TARGET_SIZE", "1024")], Kind::Concurrent),
    ("A2: as A (further histories, first part)", &[], Kind::Extra(0)),
    ("A3: as A (further histories, second part)", &[], Kind::Extra(1)),
    ("A4: as A (further histories, third part)", &[], Kind::Extra(2)),
    ("A5: as A (further histories, fourth part)", &[], Kind::Extra(3)),
    ("B2: as B (further histories, first part)", &[("HF_XET_MDB_SHARD_MIN_TARGET_SIZE", "4096")], Kind::Extra(0)),
    ("B3: as B (further histories, second part)", &[("HF_XET_MDB_SHARD_MIN_TARGET_SIZE", "4096")], Kind::Extra(1)),
    ("B4: as B (further histories, third part)", &[("HF_XET_MDB_SHARD_MIN_TARGET_SIZE", "4096")], Kind::Extra(2)),
    ("B5: as B (further histories, fourth part)", &[("HF_XET_MDB_SHARD_MIN_TARGET_SIZE", "4096")], Kind::Extra(3)),
    ("H: as A, minimum shard size 1024 bytes (a shard every 2-3 xorbs), HTTP store mirrored to disk", &[("HF_XET_MDB_SHARD_MIN_TARGET_SIZE", "1024")], Kind::Http(0)),
    ("H2: as H (uploads fed with pauses)", &[("HF_XET_MDB_SHARD_MIN_TARGET_SIZE", "1024")], Kind::Http(1)),
    ("H3: as H (rejected xorbs, global dedup, upload_async)", &[("HF_XET_MDB_SHARD_MIN_TARGET_SIZE", "1024")], Kind::Http(2)),
    ("U1: as A, HF_XET_MAX_CONCURRENT_UPLOADS=1 (uploads strictly serialized)", &[("HF_XET_MAX_CONCURRENT_UPLOADS", "1")], Kind::Serial),
    ("U64: as A, HF_XET_MAX_CONCURRENT_UPLOADS=64 (every upload of a session in flight at once)", &[("HF_XET_MAX_CONCURRENT_UPLOADS", "64")], Kind::Wide),
];

// ---------------------------------------------------------------------------------------------------------------------------------
// configuration, reference chunk boundaries
// ---------------------------------------------------------------------------------------------------------------------------------

fn config(endpoint: Endpoint, local: &Path) -> Arc<TranslatorConfig> { config_p(endpoint, local, GlobalDedupPolicy::Never) }
fn config_p(endpoint: Endpoint, local: &Path, policy: GlobalDedupPolicy) -> Arc<TranslatorConfig> {
    std::fs::create_dir_all(local).unwrap();
    Arc::new(TranslatorConfig {
        data_config: DataConfig {
            endpoint,
            compression: Default::default(),
            auth: None,
            prefix: "default".into(),
            cache_config: CacheConfig { cache_directory: local.join("cache"), cache_size: 0 },
            staging_directory: None,
        },
        shard_config: ShardConfig {
            prefix: "default".into(),
            cache_directory: local.join("shard-cache"),
            session_directory: local.join("shard-session"),
            global_dedup_policy: policy,
            repo_salt: [0u8; 32],
        },
        repo_info: Some(RepoInfo { repo_paths: vec!["".into()] }),
    })
}
fn local_store(store: &Path, local: &Path) -> Arc<TranslatorConfig> { local_store_p(store, local, GlobalDedupPolicy::Never) }
fn local_store_p(store: &Path, local: &Path, policy: GlobalDedupPolicy) -> Arc<TranslatorConfig> {
    std::fs::create_dir_all(store).unwrap();
    config_p(Endpoint::FileSystem(store.to_path_buf()), local, policy)
}

/// gear-hash rule (see c04_chunker): end offsets of the chunks of `data`
fn chunk_ends(data: &[u8]) -> Vec<usize> {
    let target = *deduplication::constants::TARGET_CHUNK_SIZE;
    let (mn, mx) = (target / *deduplication::constants::MINIMUM_CHUNK_DIVISOR, target * *deduplication::constants::MAXIMUM_CHUNK_MULTIPLIER);
    let mask0 = (target - 1) as u64;
    let mask = mask0 << mask0.leading_zeros();
    let skip = mn.saturating_sub(65);
    let mut out = vec![];
    let mut start = 0usize;
    while start < data.len() {
        let mut h: u64 = 0;
        let mut len = 0usize;
        while start + len < data.len() {
            let b = data[start + len];
            len += 1;
            if len > skip {
                h = (h << 1).wrapping_add(gearhash::DEFAULT_TABLE[b as usize]);
                if h & mask == 0 {
                    break;
                }
            }
            if len == mx {
                break;
            }
        }
        start += len;
        out.push(start);
    }
    out
}

fn random(seed: u64, n: usize) -> Vec<u8> {
    let mut v = vec![0u8; n];
    StdRng::seed_from_u64(seed).fill(&mut v[..]);
    v
}

// ---------------------------------------------------------------------------------------------------------------------------------
// sessions
// ---------------------------------------------------------------------------------------------------------------------------------

#[derive(Clone)]
struct FileIn {
    name: String,
    what: String,
    data: Arc<Vec<u8>>,
}

#[derive(Clone, Debug, PartialEq)]
enum Fault {
    None,
    /// xorb directory replaced by a regular file ...
    XorbDirBeforeStart,
    /// ... after `n` blocks of the first file were fed (and their uploads had time to finish)
    XorbDirAfterBlocks(usize),
    XorbDirBeforeFirstFinish,
    ShardDirBeforeFinalize,
    /// a truncated object sits at the path of this xorb
    Planted(MerkleHash, String),
    /// a directory of the store or of the local machine replaced by a regular file at a chosen moment
    Break(Target, When),
    /// the same, but only for the duration of ONE call (add_data / finish) and the pause after it: a single upload fails, every
    /// later one succeeds - the failure can only be reported through the session's bookkeeping of its background uploads
    Blip(Target, When),
}

#[derive(Clone, Copy, Debug, PartialEq)]
enum Target {
    XorbDir,
    ShardDir,
    /// the local store's global-dedup database directory
    DedupDb,
    /// the machine's shard cache directory (sessions export their uploaded shards into it)
    CacheDir,
    /// the parent of the per-session staging directories
    SessionDir,
}
#[derive(Clone, Copy, Debug, PartialEq)]
enum When {
    BeforeNew,
    /// before the add_data call number n of the session (counted over all files, ghost cleaner excluded)
    AfterBlocks(usize),
    /// before finish() of file number k
    BeforeFinish(usize),
    BeforeFinalize,
}

/// How a session is driven (all false / None: one cleaner at a time, blocks of one xorb with pauses, finalize_with_file_info).
#[derive(Clone, Default)]
struct Opts {
    /// two cleaners alive at a time, their blocks alternate
    interleave: bool,
    /// a cleaner that is started first, fed completely and DROPPED without finish()
    ghost: Option<FileIn>,
    /// finalize() instead of finalize_with_file_info()
    plain_finalize: bool,
    /// the session is dropped without finalize (Some(true): fed by one call per file without pauses, uploads still pending)
    abandon: Option<bool>,
    dry_run: bool,
    /// the session runs on a "second machine": fresh local directories, same store
    fresh_local: bool,
    /// one add_data call per file, no pauses
    one_call: bool,
}

struct Outcome {
    error: Option<String>,
    pointers: Vec<PointerFile>,
    file_metrics: Vec<DeduplicationMetrics>,
    session_metrics: Option<DeduplicationMetrics>,
    xorbs_of_first_file: Vec<MerkleHash>,
    /// dead once the session and every background upload task of it (each holds the session) are gone
    alive: Option<std::sync::Weak<FileUploadSession>>,
}

fn xorb_dir(store: &Path) -> PathBuf { store.join("xorbs") }
fn shard_dir(store: &Path) -> PathBuf { store.join("shards") }
fn break_dir(dir: &Path) {
    std::fs::create_dir_all(dir).unwrap();
    std::fs::rename(dir, dir.with_extension("aside")).unwrap();
    std::fs::write(dir, b"not a directory").unwrap();
}
fn repair_dir(dir: &Path) {
    if dir.is_file() && dir.with_extension("aside").is_dir() {
        std::fs::remove_file(dir).unwrap();
        std::fs::rename(dir.with_extension("aside"), dir).unwrap();
    }
}
fn xorb_path(store: &Path, h: &MerkleHash) -> PathBuf { xorb_dir(store).join(format!("default.{h:?}")) }

async fn pause() { tokio::time::sleep(Duration::from_millis(25)).await; }

fn target_path(cfg: &TranslatorConfig, store: Option<&Path>, t: Target) -> Option<PathBuf> {
    match t {
        Target::XorbDir => store.map(xorb_dir),
        Target::ShardDir => store.map(shard_dir),
        Target::DedupDb => store.map(|s| s.join("global_dedup_lookup.db")),
        Target::CacheDir => Some(cfg.shard_config.cache_directory.clone()),
        Target::SessionDir => Some(cfg.shard_config.session_directory.clone()),
    }
}
fn repair_all(cfg: &TranslatorConfig, store: Option<&Path>) {
    for t in [Target::XorbDir, Target::ShardDir, Target::DedupDb, Target::CacheDir, Target::SessionDir] {
        if let Some(p) = target_path(cfg, store, t) { repair_dir(&p); }
    }
}

/// One session: the files are cleaned one after the other, fed in blocks of one xorb's worth of bytes with a short pause after
/// every call (so that background uploads have finished before the next step, and a fault hits the intended xorb).
async fn run_session(cfg: Arc<TranslatorConfig>, tp: Arc<ThreadPool>, store: Option<&Path>, files: &[FileIn], fault: &Fault, dry_run: bool) -> Outcome {
    run_session_opts(cfg, tp, store, files, fault, &Opts { dry_run, ..Default::default() }).await
}

async fn run_session_opts(cfg: Arc<TranslatorConfig>, tp: Arc<ThreadPool>, store: Option<&Path>, files: &[FileIn], fault: &Fault, opts: &Opts) -> Outcome {
    let mut out = Outcome { error: None, pointers: vec![], file_metrics: vec![], session_metrics: None, xorbs_of_first_file: vec![], alive: None };
    let quick = opts.one_call || opts.abandon == Some(true);
    let block = if quick { usize::MAX } else { *deduplication::constants::MAX_XORB_BYTES };
    let cfg2 = cfg.clone();
    let hit = |w: When| -> Option<PathBuf> {
        match fault {
            Fault::Break(t, when) if *when == w => { if let Some(p) = target_path(&cfg2, store, *t) { break_dir(&p); } None },
            Fault::Blip(t, when) if *when == w => { let p = target_path(&cfg2, store, *t)?; break_dir(&p); Some(p) },
            _ => None,
        }
    };
    if let (Fault::XorbDirBeforeStart, Some(s)) = (fault, store) { break_dir(&xorb_dir(s)); }
    if let (Fault::Planted(h, _), Some(s)) = (fault, store) {
        std::fs::create_dir_all(xorb_dir(s)).unwrap();
        std::fs::write(xorb_path(s, h), [0x58u8; 64]).unwrap(); // 64 bytes that are no xorb
    }
    let _ = hit(When::BeforeNew);
    let session = match if opts.dry_run { FileUploadSession::dry_run(cfg, tp, None).await } else { FileUploadSession::new(cfg, tp, None).await } {
        Ok(s) => s,
        Err(e) => { out.error = Some(format!("FileUploadSession::new: {e}")); return out; },
    };
    out.alive = Some(Arc::downgrade(&session));
    if let Some(g) = &opts.ghost {
        let mut cleaner = session.start_clean(g.name.clone());
        for (bi, b) in g.data.chunks(block).enumerate() {
            if let Err(e) = cleaner.add_data(b).await { out.error = Some(format!("add_data (file '{}' whose cleaner is dropped later, block {bi}): {e}", g.name)); return out; }
            if !quick { pause().await; }
        }
        drop(cleaner);
    }
    let groups: Vec<Vec<usize>> = if opts.interleave { (0..files.len()).collect::<Vec<_>>().chunks(2).map(|c| c.to_vec()).collect() } else { (0..files.len()).map(|i| vec![i]).collect() };
    let mut fed = 0usize;
    for group in groups {
        let mut cleaners: Vec<_> = group.iter().map(|&fi| Some(session.start_clean(files[fi].name.clone()))).collect();
        let blocks: Vec<Vec<&[u8]>> = group.iter().map(|&fi| files[fi].data.chunks(block).collect()).collect();
        let rounds = blocks.iter().map(|b| b.len()).max().unwrap_or(0);
        for bi in 0..rounds {
            for (gi, &fi) in group.iter().enumerate() {
                let Some(b) = blocks[gi].get(bi) else { continue };
                if let (Fault::XorbDirAfterBlocks(n), Some(s), 0) = (fault, store, fi) { if *n == bi { break_dir(&xorb_dir(s)); } }
                let blip = hit(When::AfterBlocks(fed));
                let r = cleaners[gi].as_mut().unwrap().add_data(b).await;
                if blip.is_some() { pause().await; pause().await; }
                if let Some(p) = blip { repair_dir(&p); }
                if let Err(e) = r { out.error = Some(format!("add_data (file '{}', block {bi}): {e}", files[fi].name)); return out; }
                fed += 1;
                if !quick { pause().await; }
            }
        }
        for (gi, &fi) in group.iter().enumerate() {
            if let (Fault::XorbDirBeforeFirstFinish, Some(s), 0) = (fault, store, fi) { break_dir(&xorb_dir(s)); }
            let blip = hit(When::BeforeFinish(fi));
            let r = cleaners[gi].take().unwrap().finish().await;
            if blip.is_some() { pause().await; pause().await; }
            if let Some(p) = blip { repair_dir(&p); }
            match r {
                Ok((p, m)) => { out.pointers.push(p); out.file_metrics.push(m); },
                Err(e) => { out.error = Some(format!("finish (file '{}'): {e}", files[fi].name)); return out; },
            }
            if !quick { pause().await; }
        }
    }
    if opts.abandon.is_some() {
        drop(session);
        out.error = Some("(the session was dropped without finalize)".into());
        return out;
    }
    if let (Fault::ShardDirBeforeFinalize, Some(s)) = (fault, store) { break_dir(&shard_dir(s)); }
    let _ = hit(When::BeforeFinalize);
    if opts.plain_finalize {
        match session.finalize().await {
            Ok(m) => out.session_metrics = Some(m),
            Err(e) => out.error = Some(format!("finalize: {e}")),
        }
        return out;
    }
    match session.finalize_with_file_info().await {
        Ok((m, infos)) => {
            out.session_metrics = Some(m);
            if let Some(p) = out.pointers.first() {
                if let Some(fi) = infos.iter().find(|fi| fi.metadata.file_hash.hex() == *p.hash_string()) {
                    for s in &fi.segments { if out.xorbs_of_first_file.last() != Some(&s.cas_hash) { out.xorbs_of_first_file.push(s.cas_hash); } }
                }
            }
        },
        Err(e) => out.error = Some(format!("finalize: {e}")),
    }
    out
}

async fn download_check(store: &Path, scratch: &Path, tp: Arc<ThreadPool>, f: &FileIn, p: &PointerFile, n_download: &mut usize) -> Result<(), String> {
    *n_download += 1;
    let fresh_local = scratch.join(format!("fresh-local-{n_download}"));
    let dl = FileDownloader::new(local_store(store, &fresh_local), tp).await.map_err(|e| format!("FileDownloader::new fails: {e}"))?;
    let len = f.data.len() as u64;
    if p.filesize() != len {
        return Err(format!("pointer of file '{}' ({}) records size {} but {len} bytes were fed", f.name, f.what, p.filesize()));
    }
    let mut ranges: Vec<Option<(u64, u64)>> = vec![None];
    if len > 3 { ranges.extend([Some((len / 3, 2 * len / 3)), Some((len - 1, len)), Some((1, len.min(50_001)))]); }
    for r in ranges {
        let out = scratch.join("download.bin");
        let _ = std::fs::remove_file(&out);
        let prov = OutputProvider::File(FileProvider::new(out.clone()));
        let what = r.map(|r| format!("byte range {r:?}")).unwrap_or("the whole file".into());
        let n = dl.smudge_file_from_pointer(p, &prov, r.map(|(a, b)| FileRange { start: a, end: b }), None).await
            .map_err(|e| format!("file '{}' ({}; {len} bytes) cannot be reconstructed from the store ({what}): {e}", f.name, f.what))?;
        let got = std::fs::read(&out).unwrap_or_default();
        let (a, b) = r.unwrap_or((0, len));
        let want = &f.data[a as usize..b as usize];
        if got != want || n != want.len() as u64 {
            let i = got.iter().zip(want.iter()).position(|(x, y)| x != y).unwrap_or(got.len().min(want.len()));
            return Err(format!("file '{}' ({}; {len} bytes): downloading {what} from the store returns {} bytes (reported {n}), fed were {} there; first difference at offset {i}", f.name, f.what, got.len(), want.len()));
        }
    }
    Ok(())
}

/// shard files of the store: name -> (size, inode, modification time); a shard that is handed to the store again (same content,
/// same name) is written to a temporary file and renamed, i.e. shows up with a new inode
fn shard_files(store: &Path) -> BTreeMap<String, (u64, u64, Option<std::time::SystemTime>)> {
    use std::os::unix::fs::MetadataExt;
    let mut m = BTreeMap::new();
    if let Ok(rd) = std::fs::read_dir(shard_dir(store)) {
        for e in rd.flatten() {
            let n = e.file_name().to_string_lossy().to_string();
            if n.ends_with(".mdb") { m.insert(n, e.metadata().map(|m| (m.len(), m.ino(), m.modified().ok())).unwrap_or((0, 0, None))); }
        }
    }
    m
}
fn mdb_files(dir: &Path) -> Vec<String> {
    std::fs::read_dir(dir).map(|rd| rd.flatten().map(|e| e.file_name().to_string_lossy().to_string()).filter(|n| n.ends_with(".mdb")).collect()).unwrap_or_default()
}

fn metrics_check(files: &[FileIn], o: &Outcome) -> Result<(), String> {
    let mut sum = DeduplicationMetrics::default();
    for (f, m) in files.iter().zip(&o.file_metrics) {
        if m.total_bytes != f.data.len() {
            return Err(format!("file '{}' ({}): finish() reports total_bytes {} for {} bytes fed", f.name, f.what, m.total_bytes, f.data.len()));
        }
        if m.new_bytes + m.deduped_bytes != m.total_bytes || m.new_chunks + m.deduped_chunks != m.total_chunks {
            return Err(format!("file '{}' ({}): finish() reports new + deduped != total: bytes {} + {} vs {}, chunks {} + {} vs {}", f.name, f.what, m.new_bytes, m.deduped_bytes, m.total_bytes, m.new_chunks, m.deduped_chunks, m.total_chunks));
        }
        if m.defrag_prevented_dedup_bytes > m.new_bytes || m.defrag_prevented_dedup_chunks > m.new_chunks {
            return Err(format!("file '{}' ({}): bytes / chunks withheld from dedup ({} / {}) exceed the new bytes / chunks ({} / {})", f.name, f.what, m.defrag_prevented_dedup_bytes, m.defrag_prevented_dedup_chunks, m.new_bytes, m.new_chunks));
        }
        sum.merge_in(m);
    }
    let Some(s) = &o.session_metrics else { return Ok(()) };
    let a = [s.total_bytes, s.deduped_bytes, s.new_bytes, s.deduped_bytes_by_global_dedup, s.defrag_prevented_dedup_bytes, s.total_chunks, s.deduped_chunks, s.new_chunks, s.deduped_chunks_by_global_dedup, s.defrag_prevented_dedup_chunks];
    let b = [sum.total_bytes, sum.deduped_bytes, sum.new_bytes, sum.deduped_bytes_by_global_dedup, sum.defrag_prevented_dedup_bytes, sum.total_chunks, sum.deduped_chunks, sum.new_chunks, sum.deduped_chunks_by_global_dedup, sum.defrag_prevented_dedup_chunks];
    if a != b {
        let per: Vec<String> = files.iter().zip(&o.file_metrics).map(|(f, m)| format!("'{}' total {} new {} deduped {} / chunks {} {} {}", f.name, m.total_bytes, m.new_bytes, m.deduped_bytes, m.total_chunks, m.new_chunks, m.deduped_chunks)).collect();
        return Err(format!("finalize() reports (total, deduped, new, global, withheld bytes; same for chunks) {a:?} but the per-file metrics returned by finish() sum to {b:?}; files: {}", per.join("; ")));
    }
    total_uploaded_check(s)
}
/// C14: total_bytes_uploaded == shard_bytes_uploaded + xorb_bytes_uploaded
fn total_uploaded_check(s: &DeduplicationMetrics) -> Result<(), String> {
    if s.total_bytes_uploaded != s.shard_bytes_uploaded + s.xorb_bytes_uploaded {
        return Err(format!("finalize() reports total_bytes_uploaded = {} but shard_bytes_uploaded + xorb_bytes_uploaded = {} + {}", s.total_bytes_uploaded, s.shard_bytes_uploaded, s.xorb_bytes_uploaded));
    }
    Ok(())
}
/// xorb objects of a local store: file name -> size
fn xorb_files(store: &Path) -> BTreeMap<String, u64> {
    let mut m = BTreeMap::new();
    if let Ok(rd) = std::fs::read_dir(xorb_dir(store)) {
        for e in rd.flatten() {
            let n = e.file_name().to_string_lossy().to_string();
            if n.starts_with("default.") { m.insert(n, e.metadata().map(|m| m.len()).unwrap_or(0)); }
        }
    }
    m
}
/// C14 against a local store: LocalClient::put reports the bytes of the object it wrote and 0 for an object that exists already, so
/// xorb_bytes_uploaded == total size of the xorb objects that appeared in the store during the session
fn xorb_bytes_check(before: &BTreeMap<String, u64>, after: &BTreeMap<String, u64>, s: &DeduplicationMetrics) -> Result<(), String> {
    let new: Vec<(&String, &u64)> = after.iter().filter(|(n, _)| !before.contains_key(*n)).collect();
    let bytes: u64 = new.iter().map(|(_, b)| **b).sum();
    if s.xorb_bytes_uploaded as u64 != bytes {
        return Err(format!("finalize() reports xorb_bytes_uploaded = {} (total_bytes_uploaded = {}, shard_bytes_uploaded = {}) but {} new xorb object(s) of {bytes} bytes in total appeared in the store during the session (sizes {:?})", s.xorb_bytes_uploaded, s.total_bytes_uploaded, s.shard_bytes_uploaded, new.len(), new.iter().map(|(_, b)| **b).collect::<Vec<_>>()));
    }
    Ok(())
}

// ---------------------------------------------------------------------------------------------------------------------------------
// histories against the local store
// ---------------------------------------------------------------------------------------------------------------------------------

struct Step {
    files: Vec<FileIn>,
    fault: Fault,
    opts: Opts,
}

struct Ctx {
    tp: Arc<ThreadPool>,
    cfg_name: String,
    n_download: usize,
    policy: GlobalDedupPolicy,
}

fn fault_text(f: &Fault) -> String {
    match f {
        Fault::None => "no fault".to_string(),
        Fault::XorbDirBeforeStart => "the store's xorb directory is a regular file during the whole session".into(),
        Fault::XorbDirAfterBlocks(n) => format!("the store's xorb directory is replaced by a regular file after {n} blocks of the first file"),
        Fault::XorbDirBeforeFirstFinish => "the store's xorb directory is replaced by a regular file just before finish() of the first file".into(),
        Fault::ShardDirBeforeFinalize => "the store's shard directory is replaced by a regular file just before finalize()".into(),
        Fault::Planted(h, which) => format!("a truncated object sits at the path of the file's {which} xorb {}", h.hex()),
        Fault::Break(t, w) | Fault::Blip(t, w) => format!(
            "{} is replaced by a regular file {}{}",
            match t {
                Target::XorbDir => "the store's xorb directory",
                Target::ShardDir => "the store's shard directory",
                Target::DedupDb => "the store's global_dedup_lookup.db directory",
                Target::CacheDir => "the machine's shard cache directory",
                Target::SessionDir => "the machine's shard-session directory",
            },
            match w {
                When::BeforeNew => "before FileUploadSession::new".to_string(),
                When::AfterBlocks(n) => format!("after {n} add_data calls of the session"),
                When::BeforeFinish(k) => format!("just before finish() of file #{k}"),
                When::BeforeFinalize => "just before finalize()".to_string(),
            },
            if matches!(f, Fault::Blip(..)) { " and restored 50 ms after that call has returned" } else { "" }
        ),
    }
}
fn opts_text(o: &Opts) -> String {
    let mut v = vec![];
    if o.dry_run { v.push("DRY RUN".to_string()); }
    if o.fresh_local { v.push("on a second machine (fresh local directories, same store)".into()); }
    if o.interleave { v.push("two cleaners alive at a time, their blocks alternate".into()); }
    if let Some(g) = &o.ghost { v.push(format!("a cleaner for '{}' ({}, {} bytes) is started first, fed completely and dropped without finish()", g.name, g.what, g.data.len())); }
    if o.one_call { v.push("one add_data call per file, no pauses".into()); }
    if o.plain_finalize { v.push("finalize() instead of finalize_with_file_info()".into()); }
    match o.abandon { Some(true) => v.push("one add_data call per file, then the session is DROPPED without finalize while uploads are pending".into()), Some(false) => v.push("the session is DROPPED without finalize".into()), None => {} }
    if v.is_empty() { String::new() } else { format!(" [{}]", v.join("; ")) }
}

/// content identity of the chunks of a file (own chunker, blake3): used for "a chunk stored by an earlier successful session of this
/// machine is not stored again"
fn chunk_ids(data: &[u8]) -> Vec<([u8; 32], usize)> {
    let mut start = 0;
    chunk_ends(data).into_iter().map(|e| { let id = (*blake3::hash(&data[start..e]).as_bytes(), e - start); start = e; id }).collect()
}

/// Runs the sessions of one history against one store + one local directory; returns a witness text on the first violation.
async fn run_history(cx: &mut Ctx, name: &str, steps: &[Step]) -> Option<String> {
    let root = tempfile::tempdir().unwrap();
    let (store, local, scratch) = (root.path().join("store"), root.path().join("local"), root.path().join("scratch"));
    std::fs::create_dir_all(&scratch).unwrap();
    let mut good: Vec<(FileIn, PointerFile, usize)> = vec![];
    let mut trail: Vec<String> = vec![];
    // chunks stored by the successful sessions of the first machine
    let mut known: std::collections::HashSet<[u8; 32]> = Default::default();
    // the previous session ended (dropped / failed) while uploads could still be running in the background
    let mut lingering = false;
    for (si, st) in steps.iter().enumerate() {
        let files_text: Vec<String> = st.files.iter().map(|f| format!("'{}' ({}, {} bytes)", f.name, f.what, f.data.len())).collect();
        let before = shard_files(&store);
        let xorbs_before = xorb_files(&store);
        let local_dir = if st.opts.fresh_local { root.path().join(format!("local-of-machine-{}", si + 2)) } else { local.clone() };
        let cfg = local_store_p(&store, &local_dir, cx.policy);
        let cached_before = mdb_files(&cfg.shard_config.cache_directory);
        let o = run_session_opts(cfg.clone(), cx.tp.clone(), Some(&store), &st.files, &st.fault, &st.opts).await;
        // repair everything before checking
        repair_all(&cfg, Some(&store));
        let xorbs_after = xorb_files(&store);
        if let Fault::Planted(h, _) = &st.fault {
            let p = xorb_path(&store, h);
            if std::fs::metadata(&p).map(|m| m.len() == 64).unwrap_or(false) { let _ = std::fs::remove_file(&p); }
        }
        trail.push(format!("session {}{}: files {} with {} -> {}", si + 1, opts_text(&st.opts), files_text.join(", "), fault_text(&st.fault), o.error.clone().map(|e| format!("error from {e}")).unwrap_or("every call Ok".into())));
        eprintln!("[{name}] {}", trail.last().unwrap());
        // a session that returned an error may have uploads running in the background (e.g. spawned by the very call that failed);
        // they finish on their own.  Wait for them (the session object dies with its last task), except after a session that was
        // dropped with pending uploads on purpose: there the next session is meant to overlap with them.
        let uploads_may_linger = lingering;
        lingering = false;
        if o.error.is_some() {
            if st.opts.abandon == Some(true) {
                lingering = true;
            } else if let Some(w) = &o.alive {
                let mut n = 0;
                while w.strong_count() > 0 && n < 1000 { tokio::time::sleep(Duration::from_millis(10)).await; n += 1; }
                lingering = w.strong_count() > 0;
            }
        }
        let policy_text = if cx.policy == GlobalDedupPolicy::Always { ", global dedup policy Always" } else { "" };
        let ctx = format!("config {}{policy_text}; history '{name}' (one process, one store, one shard cache): {}", cx.cfg_name, trail.join(" | "));
        match &o.error {
            Some(e) => {
                if st.fault == Fault::None && st.opts.abandon.is_none() {
                    return Some(format!("{ctx}: session {} fails on a healthy store: {e}", si + 1));
                }
            },
            None => {
                if let Err(e) = metrics_check(&st.files, &o) {
                    return Some(format!("{ctx}: session {}: {e}", si + 1));
                }
                if let Err(e) = global_counters_check(&st.files, &o, cx.policy) {
                    return Some(format!("{ctx}: session {}: {e}", si + 1));
                }
                // (not after a session that was dropped or failed with uploads still running: those finish in the background)
                if let (Some(m), false) = (&o.session_metrics, uploads_may_linger) {
                    if let Err(e) = xorb_bytes_check(&xorbs_before, &xorbs_after, m) {
                        return Some(format!("{ctx}: session {}: {e}", si + 1));
                    }
                }
                let after = shard_files(&store);
                let new_bytes: u64 = after.iter().filter(|(n, v)| before.get(*n) != Some(*v)).map(|(_, s)| s.0).sum();
                let n_new = after.iter().filter(|(n, v)| before.get(*n) != Some(*v)).count();
                let reported = o.session_metrics.as_ref().map(|m| m.shard_bytes_uploaded as u64).unwrap_or(0);
                if st.opts.dry_run {
                    // pinned, not flagged: LocalClient has no dry-run mode, the xorbs of a dry run ARE written to a local store
                    if n_new > 0 {
                        return Some(format!("{ctx}: session {}: the DRY RUN handed {n_new} shard(s) to the store", si + 1));
                    }
                    let cached: Vec<String> = mdb_files(&cfg.shard_config.cache_directory).into_iter().filter(|n| !cached_before.contains(n)).collect();
                    if !cached.is_empty() {
                        return Some(format!("{ctx}: session {}: the DRY RUN registered nothing with the store, yet left {} new shard(s) in the local shard cache: {cached:?}", si + 1, cached.len()));
                    }
                    for (f, p) in st.files.iter().zip(&o.pointers) {
                        if p.filesize() != f.data.len() as u64 {
                            return Some(format!("{ctx}: session {}: pointer of file '{}' records size {} but {} bytes were fed", si + 1, f.name, p.filesize(), f.data.len()));
                        }
                    }
                } else {
                    if reported != new_bytes {
                        return Some(format!("{ctx}: session {}: finalize() reports shard_bytes_uploaded = {reported} but {n_new} shard file(s) of {new_bytes} bytes in total were written to the store", si + 1));
                    }
                    // C11 at the session level: a chunk that an earlier SUCCESSFUL session of this machine stored is not stored again
                    // (all files here have far fewer than 128 segments, fragmentation prevention cannot interfere)
                    let ids: Vec<Vec<([u8; 32], usize)>> = st.files.iter().map(|f| chunk_ids(&f.data)).collect();
                    if !st.opts.fresh_local {
                        for ((f, m), ids) in st.files.iter().zip(&o.file_metrics).zip(&ids) {
                            let unknown: usize = ids.iter().filter(|(h, _)| !known.contains(h)).map(|(_, n)| *n).sum();
                            if m.new_bytes > unknown {
                                return Some(format!("{ctx}: session {}: file '{}' ({}): finish() reports {} new bytes, but only {unknown} of its {} bytes lie in chunks that no earlier successful session sharing this shard cache had stored", si + 1, f.name, f.what, m.new_bytes, f.data.len()));
                            }
                        }
                        for ids in &ids { known.extend(ids.iter().map(|(h, _)| *h)); }
                    }
                    for (f, p) in st.files.iter().zip(&o.pointers) {
                        good.push((f.clone(), p.clone(), si + 1));
                    }
                }
            },
        }
        // every file accepted by a session that reported success must be reconstructible from the store alone
        for (f, p, from) in &good {
            if let Err(e) = download_check(&store, &scratch, cx.tp.clone(), f, p, &mut cx.n_download).await {
                return Some(format!("{ctx}: session {from} reported success for it, but after session {}: {e}", si + 1));
            }
        }
    }
    None
}

/// GlobalDedupPolicy::Never: nothing may be counted as deduplicated through global dedup; always: that counter is part of the
/// deduplicated bytes / chunks.
fn global_counters_check(files: &[FileIn], o: &Outcome, policy: GlobalDedupPolicy) -> Result<(), String> {
    let mut all: Vec<(String, &DeduplicationMetrics)> = files.iter().zip(&o.file_metrics).map(|(f, m)| (format!("finish() of file '{}'", f.name), m)).collect();
    if let Some(m) = &o.session_metrics { all.push(("finalize()".to_string(), m)); }
    for (what, m) in all {
        if policy == GlobalDedupPolicy::Never && (m.deduped_bytes_by_global_dedup != 0 || m.deduped_chunks_by_global_dedup != 0) {
            return Err(format!("{what} reports {} bytes / {} chunks deduplicated by global dedup although the policy is Never", m.deduped_bytes_by_global_dedup, m.deduped_chunks_by_global_dedup));
        }
        if m.deduped_bytes_by_global_dedup > m.deduped_bytes || m.deduped_chunks_by_global_dedup > m.deduped_chunks {
            return Err(format!("{what} reports {} bytes / {} chunks deduplicated by global dedup but only {} bytes / {} chunks deduplicated in total", m.deduped_bytes_by_global_dedup, m.deduped_chunks_by_global_dedup, m.deduped_bytes, m.deduped_chunks));
        }
    }
    Ok(())
}

// ---------------------------------------------------------------------------------------------------------------------------------
// HTTP store: rejects / holds chosen xorb uploads, records everything it is sent
// ---------------------------------------------------------------------------------------------------------------------------------

#[derive(Default)]
struct HttpState {
    xorb_posts: Vec<(String, bool)>,
    shards: usize,
    other: Vec<String>,
    reject_index: Option<usize>,
    hold_index: Option<usize>,
    rejection_delivered: bool,
    // --- coverage review additions: script ---
    /// accepted xorbs / shards are written below this directory in the local store's layout (xorbs/default.<hash>, shards/<hash>.mdb)
    mirror: Option<PathBuf>,
    /// every accepted xorb is answered `was_inserted: false` / every accepted shard `result: 0` (exists)
    xorb_not_inserted: bool,
    shard_exists: bool,
    /// every xorb answer is delayed by this many milliseconds
    delay_ms: u64,
    /// no xorb upload is answered before this many have been in flight at the same time (gives up after 5 s)
    gate: usize,
    /// the connection is closed without an answer on the first arrival of xorb upload #k
    xorb_close_once: Option<usize>,
    /// shard upload #k is rejected with 403
    shard_reject: Option<usize>,
    /// GET /chunk/<prefix>/<hash> is answered with the first accepted shard that contains the hash (else 404)
    serve_chunks: bool,
    // --- observations ---
    shard_posts: Vec<(String, bool)>,
    shard_bodies: Vec<Vec<u8>>,
    shard_bytes_accepted: u64,
    /// total body length of the accepted POST /xorb requests (an answer was_inserted:false counts: the bytes were transmitted)
    xorb_bytes_accepted: u64,
    in_flight: usize,
    max_in_flight: usize,
    chunk_queries: usize,
    chunk_hits: usize,
    closed_without_answer: usize,
    open_requests: usize,
    last_activity: Option<std::time::Instant>,
    last_session_failed: bool,
}
#[derive(Default)]
struct HttpStore {
    state: Mutex<HttpState>,
    cv: Condvar,
}

fn read_request(stream: &mut TcpStream) -> Option<(String, String, Vec<u8>)> {
    let mut buf = Vec::new();
    let mut tmp = [0u8; 16 * 1024];
    let header_end = loop {
        if let Some(p) = buf.windows(4).position(|w| w == b"\r\n\r\n") { break p + 4; }
        let n = stream.read(&mut tmp).ok()?;
        if n == 0 { return None; }
        buf.extend_from_slice(&tmp[..n]);
    };
    let head = String::from_utf8_lossy(&buf[..header_end]).to_string();
    let mut lines = head.split("\r\n");
    let first = lines.next()?;
    let method = first.split_whitespace().next()?.to_string();
    let path = first.split_whitespace().nth(1)?.to_string();
    let mut content_length = 0usize;
    for l in lines {
        if let Some((k, v)) = l.split_once(':') {
            if k.trim().eq_ignore_ascii_case("content-length") { content_length = v.trim().parse().ok()?; }
        }
    }
    let mut body = buf[header_end..].to_vec();
    while body.len() < content_length {
        let n = stream.read(&mut tmp).ok()?;
        if n == 0 { return None; }
        body.extend_from_slice(&tmp[..n]);
    }
    Some((method, path, body))
}
fn respond(stream: &mut TcpStream, status: &str, body: &str) { respond_bytes(stream, status, "application/json", body.as_bytes()) }
fn respond_bytes(stream: &mut TcpStream, status: &str, content_type: &str, body: &[u8]) {
    let mut msg = format!("HTTP/1.1 {status}\r\ncontent-type: {content_type}\r\ncontent-length: {}\r\n\r\n", body.len()).into_bytes();
    msg.extend_from_slice(body);
    let _ = stream.write_all(&msg);
    let _ = stream.flush();
}
fn serve(mut stream: TcpStream, store: Arc<HttpStore>) {
    let _ = stream.set_nodelay(true);
    while let Some((method, path, body)) = read_request(&mut stream) {
        { let mut st = store.state.lock().unwrap(); st.open_requests += 1; st.last_activity = Some(std::time::Instant::now()); }
        let keep = handle(&mut stream, &store, method, path, body);
        { let mut st = store.state.lock().unwrap(); st.open_requests -= 1; st.last_activity = Some(std::time::Instant::now()); }
        if !keep { return; }
    }
}
/// waits until the store has been idle for 200 ms (uploads of a failed session that were already on the wire when the session
/// returned must not be counted for the next one); gives up after 5 s
async fn quiesce(store: &Arc<HttpStore>) {
    for _ in 0..250 {
        let idle = { let s = store.state.lock().unwrap(); s.open_requests == 0 && s.last_activity.map(|t| t.elapsed() >= Duration::from_millis(200)).unwrap_or(true) };
        if idle { return; }
        tokio::time::sleep(Duration::from_millis(20)).await;
    }
}
fn handle(stream: &mut TcpStream, store: &Arc<HttpStore>, method: String, path: String, body: Vec<u8>) -> bool {
    let mut stream = stream;
    {
        if path.starts_with("/xorb/") {
            let hash = path.rsplit('/').next().unwrap_or("").to_string();
            let (reject, hold, close, delay, mirror, not_inserted) = {
                let mut st = store.state.lock().unwrap();
                let idx = st.xorb_posts.len();
                let reject = st.reject_index == Some(idx);
                let close = st.xorb_close_once == Some(idx);
                if close { st.xorb_close_once = None; st.closed_without_answer += 1; }
                st.xorb_posts.push((hash.clone(), !reject && !close));
                if !reject && !close { st.xorb_bytes_accepted += body.len() as u64; }
                st.in_flight += 1;
                st.max_in_flight = st.max_in_flight.max(st.in_flight);
                (reject, st.hold_index == Some(idx) && st.reject_index.is_some(), close, st.delay_ms, st.mirror.clone(), st.xorb_not_inserted)
            };
            store.cv.notify_all();
            {
                let st = store.state.lock().unwrap();
                if st.gate > 0 { let _ = store.cv.wait_timeout_while(st, Duration::from_secs(5), |s| s.max_in_flight < s.gate).unwrap(); }
            }
            if delay > 0 { std::thread::sleep(Duration::from_millis(delay)); }
            if close {
                store.state.lock().unwrap().in_flight -= 1;
                let _ = stream.shutdown(std::net::Shutdown::Both);
                return false;
            }
            if reject {
                store.state.lock().unwrap().in_flight -= 1;
                respond(&mut stream, "403 Forbidden", "{}");
                store.state.lock().unwrap().rejection_delivered = true;
                store.cv.notify_all();
            } else {
                if hold {
                    let st = store.state.lock().unwrap();
                    let _ = store.cv.wait_timeout_while(st, Duration::from_secs(8), |s| !s.rejection_delivered).unwrap();
                    std::thread::sleep(Duration::from_millis(300));
                }
                if let Some(m) = mirror {
                    let _ = std::fs::create_dir_all(m.join("xorbs"));
                    let _ = std::fs::write(m.join("xorbs").join(format!("default.{hash}")), &body);
                }
                store.state.lock().unwrap().in_flight -= 1;
                respond(&mut stream, "200 OK", if not_inserted { r#"{"was_inserted":false}"# } else { r#"{"was_inserted":true}"# });
            }
        } else if path.starts_with("/shard/") {
            let hash = path.rsplit('/').next().unwrap_or("").to_string();
            let (reject, mirror, exists) = {
                let mut st = store.state.lock().unwrap();
                st.shards += 1;
                let idx = st.shard_posts.len();
                let reject = st.shard_reject == Some(idx);
                st.shard_posts.push((hash.clone(), !reject));
                if !reject { st.shard_bytes_accepted += body.len() as u64; st.shard_bodies.push(body.clone()); }
                (reject, st.mirror.clone(), st.shard_exists)
            };
            if reject {
                respond(&mut stream, "403 Forbidden", "{}");
            } else {
                if let Some(m) = mirror {
                    let _ = std::fs::create_dir_all(m.join("shards"));
                    let _ = std::fs::write(m.join("shards").join(format!("{hash}.mdb")), &body);
                }
                respond(&mut stream, "200 OK", if exists { r#"{"result":0}"# } else { r#"{"result":1}"# });
            }
        } else if path.starts_with("/chunk/") && method == "GET" {
            let hash = path.rsplit('/').next().unwrap_or("").to_string();
            let found = {
                let mut st = store.state.lock().unwrap();
                st.chunk_queries += 1;
                let raw = MerkleHash::from_hex(&hash).ok().map(|h| h.as_bytes().to_vec());
                let found = match (st.serve_chunks, raw) {
                    (true, Some(raw)) => st.shard_bodies.iter().find(|b| b.windows(raw.len()).any(|w| w == &raw[..])).cloned(),
                    _ => None,
                };
                if found.is_some() { st.chunk_hits += 1; }
                found
            };
            match found {
                Some(shard) => respond_bytes(&mut stream, "200 OK", "application/octet-stream", &shard),
                None => respond(&mut stream, "404 Not Found", "{}"),
            }
        } else {
            store.state.lock().unwrap().other.push(format!("{method} {path}"));
            respond(&mut stream, "404 Not Found", "{}");
        }
    }
    true
}
fn start_http_store() -> (Arc<HttpStore>, String) {
    let store = Arc::new(HttpStore::default());
    let listener = TcpListener::bind("127.0.0.1:0").unwrap();
    let url = format!("http://{}", listener.local_addr().unwrap());
    let s2 = store.clone();
    std::thread::spawn(move || {
        for stream in listener.incoming().flatten() {
            let s = s2.clone();
            std::thread::spawn(move || serve(stream, s));
        }
    });
    (store, url)
}

/// One-call feed and immediate finalize (no pauses): the uploads are still in flight when finalize joins them.
async fn quick_session(cfg: Arc<TranslatorConfig>, tp: Arc<ThreadPool>, f: &FileIn, dry_run: bool) -> Result<DeduplicationMetrics, String> {
    let session = if dry_run { FileUploadSession::dry_run(cfg, tp, None).await } else { FileUploadSession::new(cfg, tp, None).await }.map_err(|e| format!("new: {e}"))?;
    let mut cleaner = session.start_clean(f.name.clone());
    cleaner.add_data(&f.data).await.map_err(|e| format!("add_data: {e}"))?;
    cleaner.finish().await.map_err(|e| format!("finish: {e}"))?;
    session.finalize().await.map_err(|e| format!("finalize: {e}"))
}

async fn http_histories(cx: &mut Ctx, f: &FileIn) -> Option<String> {
    // reference: how many xorbs does this file produce?
    let root = tempfile::tempdir().unwrap();
    let (st, url) = start_http_store();
    match quick_session(config(Endpoint::Server(url), &root.path().join("l0")), cx.tp.clone(), f, false).await {
        Err(e) => return Some(format!("config {}: session against a healthy HTTP store fails: {e}", cx.cfg_name)),
        Ok(m) => {
            // C14: what finalize() reports as uploaded is what the store was sent
            let (n, xb, sb) = { let s = st.state.lock().unwrap(); (s.xorb_posts.len(), s.xorb_bytes_accepted, s.shard_bytes_accepted) };
            let ctx = format!("config {}; session of file '{}' ({} bytes, one add_data call, immediate finalize) against a healthy HTTP store", cx.cfg_name, f.name, f.data.len());
            if m.xorb_bytes_uploaded as u64 != xb || m.shard_bytes_uploaded as u64 != sb {
                return Some(format!("{ctx}: finalize() reports xorb_bytes_uploaded = {}, shard_bytes_uploaded = {}, total_bytes_uploaded = {} but the store received {n} xorb uploads with {xb} body bytes and shard uploads with {sb} body bytes", m.xorb_bytes_uploaded, m.shard_bytes_uploaded, m.total_bytes_uploaded));
            }
            if let Err(e) = total_uploaded_check(&m) { return Some(format!("{ctx}: {e}")); }
        },
    }
    let n = st.state.lock().unwrap().xorb_posts.len();
    if n < 2 || st.state.lock().unwrap().shards == 0 {
        return Some(format!("config {}: a healthy session of file '{}' sent {n} xorbs and {} shards to the HTTP store (expected several xorbs, one shard)", cx.cfg_name, f.name, st.state.lock().unwrap().shards));
    }
    // (rejected xorb index, held xorb index)
    for (k, (reject, hold)) in [(n - 1, Some(0)), (n - 1, None), (0, None), (n / 2, Some(0)), (n - 1, Some(n - 2))].into_iter().enumerate() {
        let (st, url) = start_http_store();
        { let mut s = st.state.lock().unwrap(); s.reject_index = Some(reject); s.hold_index = hold; }
        let r = quick_session(config(Endpoint::Server(url), &root.path().join(format!("l{}", k + 1))), cx.tp.clone(), f, false).await;
        let s = st.state.lock().unwrap();
        eprintln!("[http] reject #{reject} hold {hold:?}: posts {:?} shards {} outcome {r:?}", s.xorb_posts.iter().map(|p| p.1).collect::<Vec<_>>(), s.shards);
        let rejected: Vec<&String> = s.xorb_posts.iter().filter(|p| !p.1).map(|p| &p.0).collect();
        let ctx = format!("config {}; session of file '{}' ({} bytes, one add_data call, {n} xorbs) against an HTTP store that rejects xorb upload #{reject} with 403{}", cx.cfg_name, f.name, f.data.len(), hold.map(|h| format!(" and answers upload #{h} only 300 ms after the rejection was delivered")).unwrap_or_default());
        if !rejected.is_empty() {
            if r.is_ok() {
                return Some(format!("{ctx}: the store rejected xorb {} but add_data, finish and finalize all returned Ok; {} shard(s) were handed to the store", rejected[0], s.shards));
            }
            if s.shards > 0 {
                return Some(format!("{ctx}: {} shard(s) were handed to the store although the upload of xorb {} had failed", s.shards, rejected[0]));
            }
        } else if let Err(e) = r {
            return Some(format!("{ctx}: no upload was rejected (only {} arrived) yet the session fails: {e}", s.xorb_posts.len()));
        }
    }
    // dry run: nothing may be sent, nothing may be left in the shard cache; then a real session of the same content
    let (st, url) = start_http_store();
    let local = root.path().join("dry-local");
    let r = quick_session(config(Endpoint::Server(url), &local), cx.tp.clone(), f, true).await;
    let ctx = format!("config {}; DRY-RUN session of file '{}' ({} bytes)", cx.cfg_name, f.name, f.data.len());
    if let Err(e) = r {
        return Some(format!("{ctx}: fails: {e}"));
    }
    {
        let s = st.state.lock().unwrap();
        if !s.xorb_posts.is_empty() || s.shards > 0 {
            return Some(format!("{ctx}: {} xorbs and {} shards were sent to the store", s.xorb_posts.len(), s.shards));
        }
    }
    let cached = mdb_files(&local.join("shard-cache"));
    if !cached.is_empty() {
        return Some(format!("{ctx}: stored nothing, yet left {} shard(s) in the local shard cache, advertising xorbs that do not exist: {cached:?}", cached.len()));
    }
    let store = root.path().join("real-store");
    let o = run_session(local_store(&store, &local), cx.tp.clone(), Some(&store), std::slice::from_ref(f), &Fault::None, false).await;
    let ctx = format!("{ctx}, followed by a real session of the same file sharing the shard cache directory");
    match o.error {
        Some(e) => return Some(format!("{ctx}: the real session fails: {e}")),
        None => {
            if let Err(e) = download_check(&store, root.path(), cx.tp.clone(), f, &o.pointers[0], &mut cx.n_download).await {
                return Some(format!("{ctx}: every call returned Ok, but {e}"));
            }
        },
    }
    None
}

// ---------------------------------------------------------------------------------------------------------------------------------
// the histories
// ---------------------------------------------------------------------------------------------------------------------------------

async fn run_all(tp: Arc<ThreadPool>, cfg_name: String, seed: u64, full: bool) -> Option<String> {
    let mut cx = Ctx { tp, cfg_name, n_download: 0, policy: GlobalDedupPolicy::Never };
    let file = |name: &str, what: &str, data: Vec<u8>| FileIn { name: name.into(), what: what.into(), data: Arc::new(data) };
    let a_bytes = random(seed * 100 + 1, 250_000);
    let ends = chunk_ends(&a_bytes);
    let cut = ends[ends.len() * 3 / 5];
    let cut2 = ends[ends.len() / 4];
    let a = file("A", "fresh random data", a_bytes.clone());
    let small = file("small", "fresh, smaller than a xorb", random(seed * 100 + 2, 10_000));
    let b = file("A-prefix", &format!("A cut at its chunk boundary {cut}: new file hash, no new chunk"), a_bytes[..cut].to_vec());
    let b2 = file("A-prefix-2", &format!("A cut at its chunk boundary {cut2}"), a_bytes[..cut2].to_vec());
    let c = file("C", "fresh random data", random(seed * 100 + 3, 60_000));
    let mut e_bytes = random(seed * 100 + 4, 30_000);
    e_bytes.extend_from_slice(&a_bytes[ends[3]..ends[12]]);
    e_bytes.extend(random(seed * 100 + 5, 30_000));
    let e = file("edited", "30,000 fresh bytes, chunks 4..12 of A, 30,000 fresh bytes", e_bytes);
    let mut x_bytes = a_bytes.clone();
    x_bytes.extend(random(seed * 100 + 6, 120_000));
    let x = file("A-extended", "A followed by 120,000 fresh bytes", x_bytes);
    let d = file("D", "fresh random data", random(seed * 100 + 7, 230_000));
    let empty = file("empty", "no bytes", vec![]);
    let step = |files: &[&FileIn], fault: Fault| Step { files: files.iter().map(|f| (*f).clone()).collect(), fault, opts: Opts::default() };

    // 1. healthy histories: dedup structures across sessions
    if let Some(w) = run_history(&mut cx, "dedup structures", &[
        step(&[&a, &small], Fault::None),
        step(&[&b, &c, &e, &a, &empty], Fault::None),
        step(&[&b2, &a], Fault::None),
        step(&[&b], Fault::None),
    ]).await { return Some(w); }
    if let Some(w) = run_history(&mut cx, "prefix file alone, then with new data", &[
        step(&[&x], Fault::None),
        step(&[&a], Fault::None),
        step(&[&b, &d], Fault::None),
    ]).await { return Some(w); }

    // 2. xorb directory faults, each followed by a repaired retry and a further session
    let faults = if full { vec![Fault::XorbDirBeforeStart, Fault::XorbDirAfterBlocks(1), Fault::XorbDirAfterBlocks(3), Fault::XorbDirBeforeFirstFinish, Fault::ShardDirBeforeFinalize] } else { vec![Fault::XorbDirAfterBlocks(3), Fault::ShardDirBeforeFinalize] };
    for fault in faults {
        if let Some(w) = run_history(&mut cx, "healthy upload, faulty upload of an extended file, retry", &[
            step(&[&a], Fault::None),
            step(&[&x, &small], fault.clone()),
            step(&[&x, &small], Fault::None),
            step(&[&b, &c], Fault::None),
        ]).await { return Some(w); }
    }
    if full {
        if let Some(w) = run_history(&mut cx, "faulty first session, retry", &[
            step(&[&d, &small], Fault::XorbDirAfterBlocks(2)),
            step(&[&d, &small], Fault::None),
        ]).await { return Some(w); }
    }

    // 3. a truncated object at the path of the first / a middle / the last xorb of the file (hashes from a reference run)
    let reference = {
        let root = tempfile::tempdir().unwrap();
        let (store, local) = (root.path().join("store"), root.path().join("local"));
        run_session(local_store(&store, &local), cx.tp.clone(), Some(&store), std::slice::from_ref(&d), &Fault::None, false).await
    };
    if let Some(e) = reference.error {
        return Some(format!("config {}: reference session of file 'D' on a healthy store fails: {e}", cx.cfg_name));
    }
    let xs = reference.xorbs_of_first_file;
    if xs.len() < 3 {
        return Some(format!("config {}: file 'D' produced only {} xorbs in the reference session", cx.cfg_name, xs.len()));
    }
    let picks = if full { vec![(0, "first"), (xs.len() / 2, "middle"), (xs.len() - 2, "last but one"), (xs.len() - 1, "last")] } else { vec![(xs.len() / 2, "middle")] };
    for (k, which) in picks {
        if let Some(w) = run_history(&mut cx, "stale truncated object in the store, retry after its removal", &[
            step(&[&d], Fault::Planted(xs[k], format!("{which} (#{k} of {})", xs.len()))),
            step(&[&d], Fault::None),
            step(&[&c, &d], Fault::None),
        ]).await { return Some(w); }
    }

    // 4. HTTP store: rejected xorb with controlled completion order, dry run
    if full {
        if let Some(w) = http_histories(&mut cx, &d).await { return Some(w); }
    }
    // 5. two endpoints sharing their first 16 characters under one cache root
    if full {
        if let Some(w) = endpoint_histories(&mut cx, &a, &x).await { return Some(w); }
    }
    None
}

/// C16 across endpoints: `data_client::default_config` must give endpoints that agree in their first 16 characters separate shard
/// cache / session directories under one cache root; a session against store B must not deduplicate against shards describing
/// xorbs that were stored only behind A.
async fn endpoint_histories(cx: &mut Ctx, a: &FileIn, x: &FileIn) -> Option<String> {
    use data::data_client::default_config;
    let root = tempfile::tempdir().unwrap();
    unsafe { std::env::set_var("HF_XET_CACHE", root.path().join("xet-cache")); }
    for (k, (ea, eb)) in [("https://cas-server.prod.example.co", "https://cas-server.staging.example.co"), ("http://localhost:8080", "http://localhost:9090"), ("https://cas-server.prod.example.co/", "https://cas-server.prod.example.co")].into_iter().enumerate() {
        let ctx = format!("config {}; data_client::default_config with HF_XET_CACHE set to one directory, endpoints {ea:?} and {eb:?} (same first 16 characters)", cx.cfg_name);
        let (ca, cb) = match (default_config(ea.to_string(), None, None, None), default_config(eb.to_string(), None, None, None)) {
            (Ok(a), Ok(b)) => (a, b),
            (ra, rb) => return Some(format!("{ctx}: default_config fails: {:?} / {:?}", ra.err().map(|e| e.to_string()), rb.err().map(|e| e.to_string()))),
        };
        for (what, da, db) in [
            ("shard cache directory", &ca.shard_config.cache_directory, &cb.shard_config.cache_directory),
            ("shard session directory", &ca.shard_config.session_directory, &cb.shard_config.session_directory),
            ("chunk cache directory", &ca.data_config.cache_config.cache_directory, &cb.data_config.cache_config.cache_directory),
        ] {
            if da == db {
                return Some(format!("{ctx}: both endpoints get the same {what} {da:?}"));
            }
        }
        if k > 1 {
            continue;
        }
        // the same layout with the transport replaced by one local directory per store
        let (store_a, store_b) = (root.path().join(format!("store-a-{k}")), root.path().join(format!("store-b-{k}")));
        let with_store = |cfg: Arc<TranslatorConfig>, store: &Path| -> Arc<TranslatorConfig> {
            std::fs::create_dir_all(store).unwrap();
            let c = &*cfg;
            Arc::new(TranslatorConfig {
                data_config: DataConfig { endpoint: Endpoint::FileSystem(store.to_path_buf()), compression: c.data_config.compression, auth: None, prefix: c.data_config.prefix.clone(), cache_config: CacheConfig { cache_directory: c.data_config.cache_config.cache_directory.clone(), cache_size: 0 }, staging_directory: None },
                shard_config: ShardConfig { prefix: c.shard_config.prefix.clone(), cache_directory: c.shard_config.cache_directory.clone(), session_directory: c.shard_config.session_directory.clone(), global_dedup_policy: GlobalDedupPolicy::Never, repo_salt: c.shard_config.repo_salt },
                repo_info: Some(RepoInfo { repo_paths: vec!["".into()] }),
            })
        };
        let ctx = format!("config {}; one machine (cache root HF_XET_CACHE, directories from data_client::default_config), store A behind {ea:?}, store B behind {eb:?}: session 1 uploads '{}' ({} bytes) to A, session 2 uploads '{}' ({}, {} bytes) to B", cx.cfg_name, a.name, a.data.len(), x.name, x.what, x.data.len());
        let o1 = run_session(with_store(ca.clone(), &store_a), cx.tp.clone(), None, std::slice::from_ref(a), &Fault::None, false).await;
        if let Some(e) = o1.error { return Some(format!("{ctx}: session 1 fails: {e}")); }
        let o2 = run_session(with_store(cb.clone(), &store_b), cx.tp.clone(), None, std::slice::from_ref(x), &Fault::None, false).await;
        if let Some(e) = o2.error { return Some(format!("{ctx}: session 2 fails: {e}")); }
        if let Err(e) = download_check(&store_a, root.path(), cx.tp.clone(), a, &o1.pointers[0], &mut cx.n_download).await {
            return Some(format!("{ctx}: every call returned Ok, but from store A: {e}"));
        }
        if let Err(e) = download_check(&store_b, root.path(), cx.tp.clone(), x, &o2.pointers[0], &mut cx.n_download).await {
            return Some(format!("{ctx}: every call returned Ok, but from store B: {e}"));
        }
    }
    None
}

// ---------------------------------------------------------------------------------------------------------------------------------
// coverage review: further histories against the local store
// ---------------------------------------------------------------------------------------------------------------------------------

/// The standard files (same contents as in run_all).
struct Files {
    a: FileIn,
    small: FileIn,
    b: FileIn,
    c: FileIn,
    x: FileIn,
    d: FileIn,
    empty: FileIn,
    a_bytes: Vec<u8>,
    ends: Vec<usize>,
}
fn mkfile(name: &str, what: &str, data: Vec<u8>) -> FileIn { FileIn { name: name.into(), what: what.into(), data: Arc::new(data) } }
fn standard_files(seed: u64) -> Files {
    let a_bytes = random(seed * 100 + 1, 250_000);
    let ends = chunk_ends(&a_bytes);
    let cut = ends[ends.len() * 3 / 5];
    let mut x_bytes = a_bytes.clone();
    x_bytes.extend(random(seed * 100 + 6, 120_000));
    Files {
        a: mkfile("A", "fresh random data", a_bytes.clone()),
        small: mkfile("small", "fresh, smaller than a xorb", random(seed * 100 + 2, 10_000)),
        b: mkfile("A-prefix", &format!("A cut at its chunk boundary {cut}: new file hash, no new chunk"), a_bytes[..cut].to_vec()),
        c: mkfile("C", "fresh random data", random(seed * 100 + 3, 60_000)),
        x: mkfile("A-extended", "A followed by 120,000 fresh bytes", x_bytes),
        d: mkfile("D", "fresh random data", random(seed * 100 + 7, 230_000)),
        empty: mkfile("empty", "no bytes", vec![]),
        a_bytes,
        ends,
    }
}
/// 14 files of 2,000..30,000 bytes and 12 files of 300..707 bytes (a single chunk each)
fn small_files(seed: u64) -> (Vec<FileIn>, Vec<FileIn>) {
    let mut rng = StdRng::seed_from_u64(seed * 100 + 12);
    let smalls: Vec<FileIn> = (0..14).map(|i| { let len = rng.random_range(2_000..30_000usize); mkfile(&format!("s{i}"), "fresh, smaller than a xorb", random(seed * 1000 + 100 + i, len)) }).collect();
    let tinies: Vec<FileIn> = (0..12u64).map(|i| mkfile(&format!("tiny{i}"), "fresh, a single chunk", random(seed * 1000 + 200 + i, 300 + 37 * i as usize))).collect();
    (smalls, tinies)
}
fn st(files: &[&FileIn], fault: Fault, opts: Opts) -> Step { Step { files: files.iter().map(|f| (*f).clone()).collect(), fault, opts } }
fn ok(files: &[&FileIn]) -> Step { st(files, Fault::None, Opts::default()) }

/// Model of the session-level aggregation (only used to PLACE faults): which finish() cuts the session's aggregated data (the
/// larger side: session data -> "swap", file data -> "no swap")?  Returns (index of the first swap cut, of the first no-swap cut).
fn aggregation_cuts(files: &[FileIn]) -> (Option<usize>, Option<usize>) {
    let (max_b, max_c) = (*deduplication::constants::MAX_XORB_BYTES, *deduplication::constants::MAX_XORB_CHUNKS);
    let (mut cur_b, mut cur_c) = (0usize, 0usize);
    let (mut swap, mut noswap) = (None, None);
    for (i, f) in files.iter().enumerate() {
        let (fb, fc) = (f.data.len(), chunk_ends(&f.data).len());
        if cur_b + fb > max_b || cur_c + fc > max_c {
            if cur_b > fb { swap = swap.or(Some(i)); cur_b = fb; cur_c = fc; } else { noswap = noswap.or(Some(i)); }
        } else {
            cur_b += fb;
            cur_c += fc;
        }
    }
    (swap, noswap)
}

async fn extra_histories(tp: Arc<ThreadPool>, cfg_name: String, seed: u64, part: usize) -> Option<String> {
    let mut cx = Ctx { tp, cfg_name, n_download: 0, policy: GlobalDedupPolicy::Never };
    let fs = standard_files(seed);
    let (a, small, b, c, x, d, empty) = (&fs.a, &fs.small, &fs.b, &fs.c, &fs.x, &fs.d, &fs.empty);
    let (ab, ends) = (&fs.a_bytes, &fs.ends);
    let n = ends.len();
    let plain = Opts { plain_finalize: true, ..Default::default() };

    // (suffix of A: also used by E9)
    let suffix = mkfile("A-suffix", &format!("A from its chunk boundary {} to its end: no new chunk", ends[n * 2 / 5]), ab[ends[n * 2 / 5]..].to_vec());
    if part == 0 {
        // E1. slices of an earlier file, each ALONE in its session (no xorb, a shard holding only a file record), hit -> new -> hit, a
        // file whose data went into the session's final aggregated xorb, sessions without files, finalize() vs finalize_with_file_info()
        let middle = mkfile("A-middle", &format!("A between its chunk boundaries {} and {}: no new chunk", ends[n / 5], ends[n * 3 / 5]), ab[ends[n / 5]..ends[n * 3 / 5]].to_vec());
        let mut h_bytes = ab[..ends[n / 6]].to_vec();
        h_bytes.extend(random(seed * 100 + 11, 30_000));
        h_bytes.extend_from_slice(&ab[ends[n * 2 / 3]..ends[n * 5 / 6]]);
        let h = mkfile("hit-new-hit", &format!("chunks 0..{} of A, 30,000 fresh bytes, chunks {}..{} of A", n / 6 + 1, n * 2 / 3 + 1, n * 5 / 6 + 1), h_bytes);
        if let Some(w) = run_history(&mut cx, "slices of an earlier file alone in a session; empty sessions", &[
            ok(&[a, small]),
            ok(&[&suffix]),
            st(&[&middle], Fault::None, plain.clone()),
            ok(&[&h]),
            ok(&[small, empty]),
            ok(&[]),
            st(&[], Fault::None, plain.clone()),
            st(&[a, small, &suffix, &middle, &h], Fault::None, plain.clone()),
        ]).await { return Some(w); }

        // E2. many small files: the session's aggregated data is cut by bytes and by chunk count, by either side of the comparison
        let (smalls, tinies) = small_files(seed);
        let sm: Vec<&FileIn> = smalls.iter().collect();
        let ti: Vec<&FileIn> = tinies.iter().collect();
        let (swap_cut, noswap_cut) = aggregation_cuts(&smalls);
        let (tiny_swap, tiny_noswap) = aggregation_cuts(&tinies);
        eprintln!("[small files] model: first cut of the session data at finish #{swap_cut:?}, of the file data at finish #{noswap_cut:?}; tiny files: {tiny_swap:?} / {tiny_noswap:?}");
        let mut sm_rev = sm.clone();
        sm_rev.reverse();
        let mut mixed: Vec<&FileIn> = ti.iter().rev().cloned().collect();
        mixed.push(sm[3]);
        if let Some(w) = run_history(&mut cx, "many small files in one session", &[
            ok(&sm),
            ok(&ti),
            st(&sm_rev, Fault::None, plain.clone()),
            ok(&mixed),
            st(&[sm[0], ti[0], sm[1], ti[1], sm[2], ti[2], sm[3], ti[3]], Fault::None, Opts { interleave: true, ..Default::default() }),
        ]).await { return Some(w); }

        // E3. the upload of a session-level xorb fails: cut by a finish() (either side) / by finalize
        let mut places: Vec<(bool, When)> = vec![(false, When::BeforeFinalize), (true, When::BeforeFinalize)];
        if let Some(k) = swap_cut { places.push((false, When::BeforeFinish(k))); }
        if let Some(k) = noswap_cut { places.push((false, When::BeforeFinish(k))); }
        if let Some(k) = tiny_swap.or(tiny_noswap) { places.push((true, When::BeforeFinish(k))); }
        for (tiny, when) in places {
            let set = if tiny { &ti } else { &sm };
            let fault = if when == When::BeforeFinalize { Fault::Break(Target::XorbDir, when) } else { Fault::Blip(Target::XorbDir, when) };
            if let Some(w) = run_history(&mut cx, "small files: the upload of a xorb aggregated over several files fails, retry", &[
                ok(&[a]),
                st(set, fault, Opts::default()),
                ok(set),
                ok(&[sm[5], ti[3], c]),
            ]).await { return Some(w); }
        }

    } else if part == 3 {
        // E4. a cleaner that is fed and dropped without finish(); a later file of the session deduplicates against its xorbs
        let g = mkfile("G", "fresh random data", random(seed * 100 + 13, 100_000));
        let g_copy = mkfile("G-copy", "same bytes as the file of the dropped cleaner", (*g.data).clone());
        if let Some(w) = run_history(&mut cx, "a cleaner dropped without finish()", &[
            st(&[&g_copy, small], Fault::None, Opts { ghost: Some(g.clone()), ..Default::default() }),
            ok(&[&g]),
            st(&[c], Fault::None, Opts { ghost: Some(d.clone()), plain_finalize: true, ..Default::default() }),
            ok(&[d]),
        ]).await { return Some(w); }
        let reference = {
            let root = tempfile::tempdir().unwrap();
            let (store, local) = (root.path().join("store"), root.path().join("local"));
            run_session(local_store(&store, &local), cx.tp.clone(), Some(&store), std::slice::from_ref(d), &Fault::None, false).await
        };
        if let Some(e) = reference.error { return Some(format!("config {}: reference session of file 'D' on a healthy store fails: {e}", cx.cfg_name)); }
        let xs = reference.xorbs_of_first_file;
        if xs.len() < 3 { return Some(format!("HARNESS file 'D' produced only {} xorbs in the reference session", xs.len())); }
        let d_copy = mkfile("D-copy", "same bytes as the file of the dropped cleaner", (*d.data).clone());
        if let Some(w) = run_history(&mut cx, "the upload of a xorb cut by a cleaner that is dropped later fails", &[
            st(&[&d_copy], Fault::Planted(xs[xs.len() / 2], format!("middle (#{} of {})", xs.len() / 2, xs.len())), Opts { ghost: Some(d.clone()), ..Default::default() }),
            ok(&[d]),
        ]).await { return Some(w); }

        // E5. abandoned sessions (dropped without finalize), without and with pending uploads
        if let Some(w) = run_history(&mut cx, "sessions dropped without finalize", &[
            ok(&[a]),
            st(&[x, small], Fault::None, Opts { abandon: Some(false), ..Default::default() }),
            ok(&[x, small]),
            st(&[d, c], Fault::None, Opts { abandon: Some(true), ..Default::default() }),
            ok(&[d, b]),
            st(&[c], Fault::None, Opts { abandon: Some(true), ..Default::default() }),
            st(&[c, a], Fault::None, Opts { one_call: true, ..Default::default() }),
        ]).await { return Some(w); }

        // E7. a failed session followed by a file that overlaps only the part of it that never reached the store
        let ends_x = chunk_ends(&x.data);
        let nx = ends_x.len();
        let mut e2_bytes = random(seed * 100 + 14, 30_000);
        e2_bytes.extend_from_slice(&x.data[ends_x[nx - 10]..ends_x[nx - 3]]);
        e2_bytes.extend(random(seed * 100 + 15, 30_000));
        let e2 = mkfile("edited-2", &format!("30,000 fresh bytes, chunks {}..{} of A-extended (its tail), 30,000 fresh bytes", nx - 9, nx - 2), e2_bytes);
        for fault in [Fault::XorbDirAfterBlocks(3), Fault::Break(Target::ShardDir, When::BeforeFinalize), Fault::Break(Target::CacheDir, When::BeforeFinalize)] {
            if let Some(w) = run_history(&mut cx, "failed session, then a file overlapping it partially", &[
                ok(&[a]),
                st(&[x, small], fault, Opts::default()),
                ok(&[&e2]),
                ok(&[x, small]),
                ok(&[&e2, b]),
            ]).await { return Some(w); }
        }

        // E8. dry runs against the local store (LocalClient has no dry-run mode: the xorbs are written, pinned), then the real thing
        if let Some(w) = run_history(&mut cx, "dry runs against the local store", &[
            st(&[a], Fault::None, Opts { dry_run: true, ..Default::default() }),
            ok(&[a]),
            st(&[x, small], Fault::None, Opts { dry_run: true, plain_finalize: true, ..Default::default() }),
            ok(&[x, small, b]),
        ]).await { return Some(w); }

        // E9. GlobalDedupPolicy::Always against the local store, a second and third machine
        cx.policy = GlobalDedupPolicy::Always;
        let w = run_history(&mut cx, "global dedup policy Always, several machines", &[
            ok(&[a, small]),
            st(&[x], Fault::None, Opts { fresh_local: true, ..Default::default() }),
            ok(&[b, a]),
            st(&[a, c], Fault::None, Opts { fresh_local: true, ..Default::default() }),
            ok(&[&suffix, x]),
        ]).await;
        cx.policy = GlobalDedupPolicy::Never;
        if w.is_some() { return w; }
    } else {
        // E6. further fault points, each: healthy, faulty, retry, further session
        let seq = Opts::default();
        let il = Opts { interleave: true, ..Default::default() };
        let cases: Vec<(Fault, Opts)> = vec![
            (Fault::Break(Target::SessionDir, When::BeforeNew), seq.clone()),
            (Fault::Break(Target::CacheDir, When::BeforeNew), seq.clone()),
            (Fault::Break(Target::DedupDb, When::BeforeNew), seq.clone()),
            (Fault::Break(Target::ShardDir, When::BeforeNew), seq.clone()),
            (Fault::Break(Target::CacheDir, When::BeforeFinalize), seq.clone()),
            (Fault::Break(Target::SessionDir, When::BeforeFinalize), seq.clone()),
            (Fault::Break(Target::SessionDir, When::AfterBlocks(4)), seq.clone()),
            (Fault::Break(Target::CacheDir, When::AfterBlocks(2)), seq.clone()),
            // (A-extended deduplicates its first 6 blocks; its first new xorb is cut during call 7, D's xorbs from call 11 on;
            // interleaved: D's blocks are the odd calls)
            (Fault::Blip(Target::XorbDir, When::AfterBlocks(7)), seq.clone()),
            (Fault::Blip(Target::XorbDir, When::AfterBlocks(8)), seq.clone()),
            (Fault::Blip(Target::XorbDir, When::AfterBlocks(12)), seq.clone()),
            (Fault::Blip(Target::XorbDir, When::AfterBlocks(15)), seq.clone()),
            (Fault::Blip(Target::XorbDir, When::BeforeFinish(1)), seq.clone()),
            (Fault::Blip(Target::XorbDir, When::AfterBlocks(3)), il.clone()),
            (Fault::Blip(Target::XorbDir, When::AfterBlocks(11)), il.clone()),
            (Fault::Blip(Target::XorbDir, When::BeforeFinish(1)), il.clone()),
            (Fault::Break(Target::XorbDir, When::AfterBlocks(5)), il.clone()),
            (Fault::Break(Target::XorbDir, When::BeforeFinish(0)), il.clone()),
            (Fault::Break(Target::XorbDir, When::BeforeFinish(1)), il.clone()),
            (Fault::Break(Target::ShardDir, When::BeforeFinalize), Opts { interleave: true, plain_finalize: true, ..Default::default() }),
        ];
        let half = cases.len() / 2;
        let cases: Vec<(Fault, Opts)> = if part == 1 { cases[..half].to_vec() } else { cases[half..].to_vec() };
        for (fault, opts) in cases {
            if let Some(w) = run_history(&mut cx, "healthy upload, faulty upload of an extended file, retry (further fault points)", &[
                ok(&[a]),
                st(&[x, d, small], fault, opts.clone()),
                st(&[x, d, small], Fault::None, opts),
                ok(&[b, c]),
            ]).await { return Some(w); }
        }
        // E10. two sessions alive at the same time over one shard cache
        if part == 2 { if let Some(w) = live_sessions(&mut cx, &fs).await { return Some(w); } }
    }
    None
}

/// Two sessions ALIVE at the same time in one process over the same local directories and store; their calls interleave.
/// (A session cannot be finalized twice: finalize consumes the Arc.)
async fn live_sessions(cx: &mut Ctx, fs: &Files) -> Option<String> {
    for faulty in [false, true] {
        let root = tempfile::tempdir().unwrap();
        let (store, local, scratch) = (root.path().join("store"), root.path().join("local"), root.path().join("scratch"));
        std::fs::create_dir_all(&scratch).unwrap();
        let block = *deduplication::constants::MAX_XORB_BYTES;
        // faulty: session 1 uploads D while a truncated object sits at the path of D's middle xorb; session 2 uploads A
        let (f1, f2) = if faulty { (&fs.d, &fs.a) } else { (&fs.a, &fs.x) };
        let mut planted = None;
        if faulty {
            let r = {
                let root = tempfile::tempdir().unwrap();
                run_session(local_store(&root.path().join("store"), &root.path().join("local")), cx.tp.clone(), None, std::slice::from_ref(&fs.d), &Fault::None, false).await
            };
            if r.error.is_some() || r.xorbs_of_first_file.len() < 3 { return Some(format!("HARNESS reference session of file 'D' failed or produced fewer than 3 xorbs: {:?}", r.error)); }
            let h = r.xorbs_of_first_file[r.xorbs_of_first_file.len() / 2];
            std::fs::create_dir_all(xorb_dir(&store)).unwrap();
            std::fs::write(xorb_path(&store, &h), [0x58u8; 64]).unwrap();
            planted = Some(h);
        }
        let ctx = format!("config {}; two sessions alive at the same time over the same store and local directories: session 1 cleans '{}' ({} bytes), session 2 '{}' ({}, {} bytes), blocks of one xorb alternating, both finish; session 1 finalizes; session 2 then also cleans '{}' ({}) and finalizes{}", cx.cfg_name, f1.name, f1.data.len(), f2.name, f2.what, f2.data.len(), fs.b.name, fs.b.what, planted.map(|h| format!("; a truncated object sits at the path of xorb {} of '{}'", h.hex(), f1.name)).unwrap_or_default());
        let mut errors: [Option<String>; 2] = [None, None];
        let s1 = match FileUploadSession::new(local_store(&store, &local), cx.tp.clone(), None).await { Ok(s) => s, Err(e) => return Some(format!("{ctx}: FileUploadSession::new (session 1) fails: {e}")) };
        let s2 = match FileUploadSession::new(local_store(&store, &local), cx.tp.clone(), None).await { Ok(s) => s, Err(e) => return Some(format!("{ctx}: FileUploadSession::new (session 2) fails: {e}")) };
        let mut c1 = Some(s1.start_clean(f1.name.clone()));
        let mut c2 = Some(s2.start_clean(f2.name.clone()));
        let (b1, b2): (Vec<&[u8]>, Vec<&[u8]>) = (f1.data.chunks(block).collect(), f2.data.chunks(block).collect());
        for i in 0..b1.len().max(b2.len()) {
            if let (Some(b), None) = (b1.get(i), &errors[0]) { if let Err(e) = c1.as_mut().unwrap().add_data(b).await { errors[0] = Some(format!("add_data (block {i}): {e}")); } pause().await; }
            if let (Some(b), None) = (b2.get(i), &errors[1]) { if let Err(e) = c2.as_mut().unwrap().add_data(b).await { errors[1] = Some(format!("add_data (block {i}): {e}")); } pause().await; }
        }
        let mut pointers: Vec<(FileIn, PointerFile, usize)> = vec![];
        let c1 = c1.take().unwrap();
        if errors[0].is_none() { match c1.finish().await { Ok((p, _)) => pointers.push((f1.clone(), p, 0)), Err(e) => errors[0] = Some(format!("finish: {e}")) } } else { drop(c1); }
        let c2 = c2.take().unwrap();
        if errors[1].is_none() { match c2.finish().await { Ok((p, _)) => pointers.push((f2.clone(), p, 1)), Err(e) => errors[1] = Some(format!("finish: {e}")) } } else { drop(c2); }
        pause().await;
        if errors[0].is_none() { if let Err(e) = s1.finalize().await { errors[0] = Some(format!("finalize: {e}")); } } else { drop(s1); }
        if errors[1].is_none() {
            let mut c3 = s2.start_clean(fs.b.name.clone());
            for (i, b) in fs.b.data.chunks(block).enumerate() {
                if let Err(e) = c3.add_data(b).await { errors[1] = Some(format!("add_data ('{}', block {i}): {e}", fs.b.name)); break; }
                pause().await;
            }
            if errors[1].is_none() { match c3.finish().await { Ok((p, _)) => pointers.push((fs.b.clone(), p, 1)), Err(e) => errors[1] = Some(format!("finish ('{}'): {e}", fs.b.name)) } } else { drop(c3); }
            if errors[1].is_none() { if let Err(e) = s2.finalize().await { errors[1] = Some(format!("finalize: {e}")); } } else { drop(s2); }
        } else {
            drop(s2);
        }
        if let Some(h) = planted { let _ = std::fs::remove_file(xorb_path(&store, &h)); }
        eprintln!("[live sessions] faulty {faulty}: session 1 {:?}, session 2 {:?}", errors[0], errors[1]);
        let ctx = format!("{ctx} -> session 1: {}, session 2: {}", errors[0].clone().unwrap_or("every call Ok".into()), errors[1].clone().unwrap_or("every call Ok".into()));
        if !faulty { if let Some(e) = errors.iter().flatten().next() { return Some(format!("{ctx}: a session fails on a healthy store: {e}")); } }
        // the fault concerns a xorb that only session 1 produces
        if let Some(e) = &errors[1] { return Some(format!("{ctx}: session 2 fails although nothing it uploads was touched: {e}")); }
        for (f, p, s) in &pointers {
            if errors[*s].is_some() { continue; }
            if let Err(e) = download_check(&store, &scratch, cx.tp.clone(), f, p, &mut cx.n_download).await {
                return Some(format!("{ctx}: every call of session {} returned Ok, but {e}", s + 1));
            }
        }
        // a later session is not poisoned
        let o = run_session(local_store(&store, &local), cx.tp.clone(), Some(&store), &[f1.clone(), fs.b.clone(), fs.c.clone()], &Fault::None, false).await;
        if let Some(e) = o.error { return Some(format!("{ctx}; then a third session of '{}', '{}', 'C' on the repaired store fails: {e}", f1.name, fs.b.name)); }
        for (f, p) in [f1, &fs.b, &fs.c].into_iter().zip(&o.pointers) {
            if let Err(e) = download_check(&store, &scratch, cx.tp.clone(), f, p, &mut cx.n_download).await {
                return Some(format!("{ctx}; then a third session of '{}', '{}', 'C' on the repaired store: every call Ok, but {e}", f1.name, fs.b.name));
            }
        }
    }
    None
}

// ---------------------------------------------------------------------------------------------------------------------------------
// coverage review: HTTP store mirrored to disk (downloads can be checked), upload concurrency limits
// ---------------------------------------------------------------------------------------------------------------------------------

#[derive(Clone, Default, Debug)]
struct Script {
    reject_xorb: Option<usize>,
    hold_xorb: Option<usize>,
    close_xorb_once: Option<usize>,
    reject_shard: Option<usize>,
    delay_ms: u64,
    gate: usize,
    not_inserted: bool,
    shard_exists: bool,
    serve_chunks: bool,
}
impl Script {
    fn text(&self) -> String {
        let mut v = vec![];
        if let Some(k) = self.reject_xorb { v.push(format!("rejects xorb upload #{k} with 403")); }
        if let Some(k) = self.hold_xorb { v.push(format!("answers xorb upload #{k} only 300 ms after the rejection was delivered")); }
        if let Some(k) = self.close_xorb_once { v.push(format!("closes the connection without an answer when xorb upload #{k} arrives (once)")); }
        if let Some(k) = self.reject_shard { v.push(format!("rejects shard upload #{k} with 403")); }
        if self.delay_ms > 0 { v.push(format!("answers every xorb upload after {} ms", self.delay_ms)); }
        if self.gate > 0 { v.push(format!("answers no xorb upload before {} are in flight at the same time", self.gate)); }
        if self.not_inserted { v.push("answers every xorb upload with was_inserted:false".into()); }
        if self.shard_exists { v.push("answers every shard upload with result 0 (exists)".into()); }
        if self.serve_chunks { v.push("answers chunk queries with the first accepted shard containing the chunk".into()); }
        if v.is_empty() { "accepts everything".into() } else { v.join(", ") }
    }
    fn apply(&self, st: &mut HttpState) {
        st.reject_index = self.reject_xorb;
        st.hold_index = self.hold_xorb;
        st.xorb_close_once = self.close_xorb_once;
        st.shard_reject = self.reject_shard;
        st.delay_ms = self.delay_ms;
        st.gate = self.gate;
        st.xorb_not_inserted = self.not_inserted;
        st.shard_exists = self.shard_exists;
        st.serve_chunks = self.serve_chunks;
        st.rejection_delivered = false;
    }
}

fn start_mirrored_store(mirror: &Path, script: &Script) -> (Arc<HttpStore>, String) {
    let (st, url) = start_http_store();
    std::fs::create_dir_all(mirror.join("xorbs")).unwrap();
    std::fs::create_dir_all(mirror.join("shards")).unwrap();
    { let mut s = st.state.lock().unwrap(); s.mirror = Some(mirror.to_path_buf()); script.apply(&mut s); }
    (st, url)
}

/// A session (one add_data call per file, immediate finalize) against the HTTP store: the store's own record decides what must
/// have happened.  Returns the outcome for further use.
async fn http_checked_session(cx: &mut Ctx, what: &str, st: &Arc<HttpStore>, url: &str, mirror: &Path, local: &Path, scratch: &Path, files: &[FileIn], opts: &Opts, policy: GlobalDedupPolicy) -> Result<Outcome, String> {
    if st.state.lock().unwrap().last_session_failed { quiesce(st).await; }
    let xb0 = st.state.lock().unwrap().xorb_bytes_accepted;
    let (x0, s0, bytes0, q0, closed0) = { let s = st.state.lock().unwrap(); (s.xorb_posts.len(), s.shard_posts.len(), s.shard_bytes_accepted, s.chunk_queries, s.closed_without_answer) };
    let o = run_session_opts(config_p(Endpoint::Server(url.to_string()), local, policy), cx.tp.clone(), None, files, &Fault::None, opts).await;
    st.state.lock().unwrap().last_session_failed = o.error.is_some();
    let (xorbs, shards, shard_bytes, queries, closed, other, max_in_flight) = { let s = st.state.lock().unwrap(); (s.xorb_posts[x0..].to_vec(), s.shard_posts[s0..].to_vec(), s.shard_bytes_accepted - bytes0, s.chunk_queries - q0, s.closed_without_answer - closed0, s.other.clone(), s.max_in_flight) };
    let files_text: Vec<String> = files.iter().map(|f| format!("'{}' ({}, {} bytes)", f.name, f.what, f.data.len())).collect();
    let ctx = format!("{what}: session of files {}{} -> {}; the store received {} xorb upload(s) and {} shard upload(s)", files_text.join(", "), opts_text(opts), o.error.clone().map(|e| format!("error from {e}")).unwrap_or("every call Ok".into()), xorbs.len(), shards.len());
    eprintln!("[http] {ctx}; at most {max_in_flight} xorb uploads in flight, {queries} chunk queries");
    // closed connections are retried by the client: only an upload that was never accepted afterwards counts as failed
    let failed_xorbs: Vec<&String> = xorbs.iter().filter(|p| !p.1 && !xorbs.iter().any(|q| q.1 && q.0 == p.0)).map(|p| &p.0).collect();
    let failed_shards: Vec<&String> = shards.iter().filter(|p| !p.1).map(|p| &p.0).collect();
    if !other.is_empty() { return Err(format!("{ctx}: unexpected requests {other:?}")); }
    if policy == GlobalDedupPolicy::Never && queries > 0 { return Err(format!("{ctx}: {queries} global dedup chunk queries were sent although the policy is Never")); }
    if let Some(x) = failed_xorbs.first() {
        if o.error.is_none() { return Err(format!("{ctx}: the upload of xorb {x} failed, but every call returned Ok")); }
        if !shards.is_empty() { return Err(format!("{ctx}: {} shard(s) were handed to the store although the upload of xorb {x} had failed", shards.len())); }
    }
    if let Some(x) = failed_shards.first() {
        if o.error.is_none() { return Err(format!("{ctx}: the store rejected shard {x}, but every call returned Ok")); }
    }
    match &o.error {
        Some(e) => {
            if failed_xorbs.is_empty() && failed_shards.is_empty() && closed == 0 { return Err(format!("{ctx}: the store accepted everything it was sent, yet the session fails: {e}")); }
        },
        None => {
            metrics_check(files, &o).map_err(|e| format!("{ctx}: {e}"))?;
            global_counters_check(files, &o, policy).map_err(|e| format!("{ctx}: {e}"))?;
            let reported = o.session_metrics.as_ref().map(|m| m.shard_bytes_uploaded as u64).unwrap_or(0);
            if reported != shard_bytes && !opts.dry_run { return Err(format!("{ctx}: finalize() reports shard_bytes_uploaded = {reported} but the store accepted {} shard(s) of {shard_bytes} bytes in total", shards.len())); }
            let xorb_bytes = st.state.lock().unwrap().xorb_bytes_accepted - xb0;
            if let (Some(m), false) = (&o.session_metrics, opts.dry_run) {
                if m.xorb_bytes_uploaded as u64 != xorb_bytes {
                    return Err(format!("{ctx}: finalize() reports xorb_bytes_uploaded = {} (total_bytes_uploaded = {}, shard_bytes_uploaded = {}) but the bodies of the {} accepted xorb upload(s) had {xorb_bytes} bytes in total", m.xorb_bytes_uploaded, m.total_bytes_uploaded, m.shard_bytes_uploaded, xorbs.iter().filter(|p| p.1).count()));
                }
            }
            for (f, p) in files.iter().zip(&o.pointers) {
                download_check(mirror, scratch, cx.tp.clone(), f, p, &mut cx.n_download).await.map_err(|e| format!("{ctx}: every call returned Ok, but (reading the objects the store accepted) {e}"))?;
            }
        },
    }
    Ok(o)
}

/// scripted session, then (script cleared) a retry over the same local directories and a third session
async fn http_fault_retry(cx: &mut Ctx, root: &Path, tag: &str, files: &[FileIn], script: Script, third: &[FileIn]) -> Option<String> {
    http_fault_retry_fed(cx, root, tag, files, script, third, false).await
}
/// paused: blocks of one xorb with 25 ms pauses, one file after the other (a rejection has been delivered when the next call runs)
async fn http_fault_retry_fed(cx: &mut Ctx, root: &Path, tag: &str, files: &[FileIn], script: Script, third: &[FileIn], paused: bool) -> Option<String> {
    let (mirror, local, scratch) = (root.join(format!("{tag}-mirror")), root.join(format!("{tag}-local")), root.join(format!("{tag}-scratch")));
    std::fs::create_dir_all(&scratch).unwrap();
    let (st, url) = start_mirrored_store(&mirror, &script);
    let one = Opts { one_call: !paused, plain_finalize: true, ..Default::default() };
    let what = format!("config {}; HTTP store that {}", cx.cfg_name, script.text());
    let first = match http_checked_session(cx, &what, &st, &url, &mirror, &local, &scratch, files, &one, GlobalDedupPolicy::Never).await { Ok(o) => o, Err(w) => return Some(w) };
    let expected_failure = script.reject_xorb.is_some() || script.reject_shard.is_some();
    if expected_failure && first.error.is_none() {
        let s = st.state.lock().unwrap();
        if s.xorb_posts.iter().all(|p| p.1) && s.shard_posts.iter().all(|p| p.1) { return Some(format!("HARNESS {what}: the scripted rejection never happened ({} xorb / {} shard uploads arrived)", s.xorb_posts.len(), s.shard_posts.len())); }
    }
    Script::default().apply(&mut st.state.lock().unwrap());
    // after a failed session the store is replaced by a new process-local server over the same objects: uploads of the failed
    // session that were still on the wire when it returned cannot be mistaken for uploads of the next session
    let (st, url) = if first.error.is_some() { quiesce(&st).await; start_mirrored_store(&mirror, &Script::default()) } else { (st, url) };
    let what = format!("{what} in session 1 ({}) and accepts everything afterwards; same local directories", first.error.clone().map(|e| format!("error from {e}")).unwrap_or("every call Ok".into()));
    let with_info = Opts { one_call: true, ..Default::default() };
    for (k, set) in [files, third, files].into_iter().enumerate() {
        if let Err(w) = http_checked_session(cx, &format!("{what}; session {}", k + 2), &st, &url, &mirror, &local, &scratch, set, &with_info, GlobalDedupPolicy::Never).await { return Some(w); }
    }
    None
}

async fn http_mirror_histories(tp: Arc<ThreadPool>, cfg_name: String, seed: u64, part: usize) -> Option<String> {
    let mut cx = Ctx { tp: tp.clone(), cfg_name: cfg_name.clone(), n_download: 0, policy: GlobalDedupPolicy::Never };
    let fs = standard_files(seed);
    let root_dir = tempfile::tempdir().unwrap();
    let root = root_dir.path().to_path_buf();
    let files = vec![fs.d.clone(), fs.small.clone(), fs.x.clone()];
    let third = vec![fs.b.clone(), fs.c.clone(), fs.empty.clone()];

    // the connection closed without an answer: the client retries after >= 3 s; runs beside everything else
    let closer = {
        let (tp, cfg_name, root, files, third) = (tp.clone(), cfg_name.clone(), root.clone(), files.clone(), third.clone());
        tokio::spawn(async move {
            if part != 2 { return None; }
            let mut cx = Ctx { tp, cfg_name, n_download: 0, policy: GlobalDedupPolicy::Never };
            let t = std::time::Instant::now();
            let r = http_fault_retry(&mut cx, &root, "closed", &files, Script { close_xorb_once: Some(1), ..Default::default() }, &third).await;
            eprintln!("[http] closed-connection scenario took {:?}", t.elapsed());
            r
        })
    };

    // M1. reference: healthy store; then the same content again: no xorb may be sent
    let (n_x, n_s) = {
        let (mirror, local, scratch) = (root.join("m1-mirror"), root.join("m1-local"), root.join("m1-scratch"));
        std::fs::create_dir_all(&scratch).unwrap();
        let (st, url) = start_mirrored_store(&mirror, &Script::default());
        let what = format!("config {}; HTTP store that accepts everything", cx.cfg_name);
        let one = Opts { one_call: true, ..Default::default() };
        if let Err(w) = http_checked_session(&mut cx, &what, &st, &url, &mirror, &local, &scratch, &files, &one, GlobalDedupPolicy::Never).await { return Some(w); }
        let (n_x, n_s) = { let s = st.state.lock().unwrap(); (s.xorb_posts.len(), s.shard_posts.len()) };
        let again = vec![fs.d.clone(), fs.b.clone(), fs.x.clone(), fs.small.clone()];
        if let Err(w) = http_checked_session(&mut cx, &format!("{what}; second session over the same local directories"), &st, &url, &mirror, &local, &scratch, &again, &one, GlobalDedupPolicy::Never).await { return Some(w); }
        let n_x2 = st.state.lock().unwrap().xorb_posts.len();
        if n_x2 != n_x {
            return Some(format!("{what}: session 1 uploaded 'D', 'small', 'A-extended' ({n_x} xorbs); session 2 over the same local directories uploads 'D', 'A-prefix', 'A-extended', 'small' - every chunk of them was stored by session 1 - and sends {} more xorb(s) to the store", n_x2 - n_x));
        }
        (n_x, n_s)
    };
    if n_x < 4 || n_s < 3 { return Some(format!("HARNESS the reference session sent {n_x} xorbs and {n_s} shards (expected several of each)")); }

    // M2. answers that are no failures
    if part == 0 {
    for (tag, script) in [
        ("notins", Script { not_inserted: true, ..Default::default() }),
        ("exists", Script { shard_exists: true, ..Default::default() }),
        ("slow", Script { delay_ms: 150, ..Default::default() }),
    ] {
        if let Some(w) = http_fault_retry(&mut cx, &root, tag, &files, script, &third).await { return Some(w); }
    }
    // M3. a shard upload is rejected after every xorb was accepted: first / second / last shard
    for k in [0, 1, n_s - 1] {
        if let Some(w) = http_fault_retry(&mut cx, &root, &format!("shard{k}"), &files, Script { reject_shard: Some(k), ..Default::default() }, &third).await { return Some(w); }
    }
    }
    if part == 2 {
    // M4. a xorb upload is rejected: first / middle / last, then retry over the same local directories
    for (k, hold) in [(0, None), (n_x / 2, None), (n_x - 1, None), (n_x - 1, Some(0))] {
        if let Some(w) = http_fault_retry(&mut cx, &root, &format!("xorb{k}-{hold:?}"), &files, Script { reject_xorb: Some(k), hold_xorb: hold, ..Default::default() }, &third).await { return Some(w); }
    }

    }
    // M5. many small files, fed with pauses: the upload of a xorb aggregated over several files is rejected (the session's
    // aggregated data cut by a finish(), either side / by finalize)
    if part == 1 {
        let (smalls, tinies) = small_files(seed);
        let mut set = smalls.clone();
        set.extend(tinies.iter().cloned());
        let n_small = {
            let (mirror, local, scratch) = (root.join("s-mirror"), root.join("s-local"), root.join("s-scratch"));
            std::fs::create_dir_all(&scratch).unwrap();
            let (st, url) = start_mirrored_store(&mirror, &Script::default());
            let what = format!("config {}; HTTP store that accepts everything", cx.cfg_name);
            if let Err(w) = http_checked_session(&mut cx, &what, &st, &url, &mirror, &local, &scratch, &set, &Opts::default(), GlobalDedupPolicy::Never).await { return Some(w); }
            let n = st.state.lock().unwrap().xorb_posts.len();
            n
        };
        if n_small < 4 { return Some(format!("HARNESS the small files made only {n_small} xorbs")); }
        for k in [0, 1, n_small / 2, n_small - 1] {
            if let Some(w) = http_fault_retry_fed(&mut cx, &root, &format!("small{k}"), &set, Script { reject_xorb: Some(k), ..Default::default() }, &third, true).await { return Some(w); }
        }
        // and the multi-xorb files fed with pauses
        for k in [n_x / 2] {
            if let Some(w) = http_fault_retry_fed(&mut cx, &root, &format!("paused{k}"), &files, Script { reject_xorb: Some(k), ..Default::default() }, &third, true).await { return Some(w); }
        }
    }

    if part != 2 { return None; }
    // M6. global dedup through the store's chunk index: machine 1 uploads A, machine 2 (fresh local directories) A-extended and a
    // prefix of A, machine 3 with policy Never
    {
        let (mirror, scratch) = (root.join("g-mirror"), root.join("g-scratch"));
        std::fs::create_dir_all(&scratch).unwrap();
        let script = Script { serve_chunks: true, ..Default::default() };
        let (st, url) = start_mirrored_store(&mirror, &script);
        let what = format!("config {}; HTTP store that {}; global dedup policy Always", cx.cfg_name, script.text());
        let one = Opts { one_call: true, ..Default::default() };
        if let Err(w) = http_checked_session(&mut cx, &format!("{what}; machine 1"), &st, &url, &mirror, &root.join("g-local-1"), &scratch, &[fs.a.clone(), fs.small.clone()], &one, GlobalDedupPolicy::Always).await { return Some(w); }
        let o = match http_checked_session(&mut cx, &format!("{what}; machine 1 has uploaded 'A' and 'small'; machine 2 (fresh local directories)"), &st, &url, &mirror, &root.join("g-local-2"), &scratch, &[fs.x.clone(), fs.b.clone(), fs.c.clone()], &one, GlobalDedupPolicy::Always).await { Ok(o) => o, Err(w) => return Some(w) };
        let (q, h) = { let s = st.state.lock().unwrap(); (s.chunk_queries, s.chunk_hits) };
        eprintln!("[http] global dedup: {q} chunk queries, {h} answered with a shard; machine 2 metrics {:?}", o.session_metrics);
        if let Err(w) = http_checked_session(&mut cx, &format!("{what} (machines 1 and 2 have uploaded 'A', 'small', 'A-extended', 'A-prefix', 'C'); machine 3 with policy Never"), &st, &url, &mirror, &root.join("g-local-3"), &scratch, &[fs.a.clone(), fs.c.clone()], &one, GlobalDedupPolicy::Never).await { return Some(w); }
        // machine 2 again: everything it uploaded or learnt is known now
        if let Err(w) = http_checked_session(&mut cx, &format!("{what}; machine 2, second session"), &st, &url, &mirror, &root.join("g-local-2"), &scratch, &[fs.x.clone(), fs.a.clone()], &one, GlobalDedupPolicy::Always).await { return Some(w); }
    }

    // M7. the public entry point data_client::upload_async (default_config, files read from disk, up to 8 cleaners at a time, policy
    // Always): files with overlapping content cleaned concurrently
    if let Some(w) = upload_async_histories(&mut cx, &fs, &root, n_x).await { return Some(w); }

    match closer.await {
        Ok(None) => None,
        Ok(Some(w)) => Some(w),
        Err(e) => Some(format!("config {}: a session against an HTTP store that closes one connection panicked: {e}", cx.cfg_name)),
    }
}

async fn upload_async_histories(cx: &mut Ctx, fs: &Files, root: &Path, _n_x: usize) -> Option<String> {
    use data::data_client::upload_async;
    unsafe { std::env::set_var("HF_XET_CACHE", root.join("xet-cache")); }
    let src = root.join("ua-src");
    std::fs::create_dir_all(&src).unwrap();
    let ends = &fs.ends;
    let mut e_bytes = random(977, 30_000);
    e_bytes.extend_from_slice(&fs.a_bytes[ends[3]..ends[12]]);
    e_bytes.extend(random(978, 30_000));
    let set = vec![fs.d.clone(), fs.x.clone(), fs.c.clone(), fs.small.clone(), fs.a.clone(), fs.b.clone(), mkfile("edited", "30,000 fresh bytes, chunks 4..12 of A, 30,000 fresh bytes", e_bytes), fs.empty.clone(), mkfile("A-copy", "same bytes as A", fs.a_bytes.clone())];
    let paths: Vec<String> = set.iter().map(|f| { let p = src.join(&f.name); std::fs::write(&p, &f.data[..]).unwrap(); p.to_string_lossy().to_string() }).collect();
    let files_text: Vec<String> = set.iter().map(|f| format!("'{}' ({}, {} bytes)", f.name, f.what, f.data.len())).collect();
    for (round, script) in [Script::default(), Script { reject_xorb: Some(3), ..Default::default() }, Script { reject_shard: Some(1), ..Default::default() }, Script { delay_ms: 30, ..Default::default() }].into_iter().enumerate() {
        let (mirror, scratch) = (root.join(format!("ua-mirror-{round}")), root.join(format!("ua-scratch-{round}")));
        std::fs::create_dir_all(&scratch).unwrap();
        let (st, url) = start_mirrored_store(&mirror, &script);
        let r = upload_async(cx.tp.clone(), paths.clone(), Some(url.clone()), None, None, None).await;
        let (ctx, failed, xorb_failed, n_shards) = {
            let s = st.state.lock().unwrap();
            let ctx = format!("config {}; data_client::upload_async (cache root HF_XET_CACHE, files on disk: {}) against an HTTP store that {} -> {}; the store received {} xorb and {} shard uploads", cx.cfg_name, files_text.join(", "), script.text(), r.as_ref().map(|_| "Ok".to_string()).unwrap_or_else(|e| format!("error {e}")), s.xorb_posts.len(), s.shard_posts.len());
            eprintln!("[http] {ctx}; {} chunk queries", s.chunk_queries);
            (ctx, s.xorb_posts.iter().any(|p| !p.1) || s.shard_posts.iter().any(|p| !p.1), s.xorb_posts.iter().any(|p| !p.1), s.shard_posts.len())
        };
        match r {
            Ok(pointers) => {
                if failed { return Some(format!("{ctx}: an upload was rejected, but upload_async returned Ok")); }
                if pointers.len() != set.len() { return Some(format!("{ctx}: {} pointer files returned for {} files", pointers.len(), set.len())); }
                for (f, path) in set.iter().zip(&paths) {
                    let Some(p) = pointers.iter().find(|p| p.path() == path) else { return Some(format!("{ctx}: no pointer file returned for '{}'", f.name)) };
                    if let Err(e) = download_check(&mirror, &scratch, cx.tp.clone(), f, p, &mut cx.n_download).await {
                        return Some(format!("{ctx}: upload_async returned Ok, but (reading the objects the store accepted) {e}"));
                    }
                }
            },
            Err(e) => {
                if !failed { return Some(format!("{ctx}: the store accepted everything it was sent, yet upload_async fails: {e}")); }
                if xorb_failed && n_shards > 0 { return Some(format!("{ctx}: {n_shards} shard(s) were handed to the store although a xorb upload had failed")); }
            },
        }
    }
    None
}

/// HF_XET_MAX_CONCURRENT_UPLOADS = 1 (strictly serialized uploads) / 64 (everything in flight at once)
async fn upload_limit_histories(tp: Arc<ThreadPool>, cfg_name: String, seed: u64, serial: bool) -> Option<String> {
    let mut cx = Ctx { tp, cfg_name, n_download: 0, policy: GlobalDedupPolicy::Never };
    let fs = standard_files(seed);
    let root_dir = tempfile::tempdir().unwrap();
    let root = root_dir.path().to_path_buf();
    let files = vec![fs.d.clone(), fs.small.clone(), fs.x.clone()];
    let third = vec![fs.b.clone(), fs.c.clone(), fs.empty.clone()];
    // is the limit in force?  (the store counts the xorb uploads it is processing at the same time)
    {
        let (mirror, local, scratch) = (root.join("p-mirror"), root.join("p-local"), root.join("p-scratch"));
        std::fs::create_dir_all(&scratch).unwrap();
        let script = if serial { Script { delay_ms: 30, ..Default::default() } } else { Script { gate: 12, ..Default::default() } };
        let (st, url) = start_mirrored_store(&mirror, &script);
        let what = format!("config {}; HTTP store that {}", cx.cfg_name, script.text());
        if let Err(w) = http_checked_session(&mut cx, &what, &st, &url, &mirror, &local, &scratch, &files, &Opts { one_call: true, ..Default::default() }, GlobalDedupPolicy::Never).await { return Some(w); }
        let (m, n) = { let s = st.state.lock().unwrap(); (s.max_in_flight, s.xorb_posts.len()) };
        if serial && m != 1 { return Some(format!("HARNESS HF_XET_MAX_CONCURRENT_UPLOADS=1 is not in force: {m} xorb uploads were in flight at the same time")); }
        if !serial && m < 12 { return Some(format!("HARNESS HF_XET_MAX_CONCURRENT_UPLOADS=64 is not in force: at most {m} of {n} xorb uploads were in flight at the same time")); }
    }
    let n_x = 6;
    let scripts: Vec<Script> = if serial {
        vec![Script { reject_xorb: Some(0), ..Default::default() }, Script { reject_xorb: Some(n_x), ..Default::default() }, Script { reject_xorb: Some(n_x), delay_ms: 20, ..Default::default() }, Script { reject_shard: Some(0), ..Default::default() }]
    } else {
        vec![Script { reject_xorb: Some(0), delay_ms: 100, ..Default::default() }, Script { reject_xorb: Some(n_x), hold_xorb: Some(0), ..Default::default() }, Script { reject_xorb: Some(n_x), hold_xorb: Some(n_x + 1), ..Default::default() }, Script { reject_shard: Some(0), delay_ms: 100, ..Default::default() }]
    };
    for (i, script) in scripts.into_iter().enumerate() {
        if let Some(w) = http_fault_retry(&mut cx, &root, &format!("u{i}"), &files, script, &third).await { return Some(w); }
    }
    // local store: healthy history, a fault history, small files
    let (a, small, b, c, x, d) = (&fs.a, &fs.small, &fs.b, &fs.c, &fs.x, &fs.d);
    let quick = Opts { one_call: true, ..Default::default() };
    if let Some(w) = run_history(&mut cx, "upload limit: dedup structures", &[
        ok(&[a, small]),
        st(&[b, c, a, x], Fault::None, quick.clone()),
        st(&[d, b], Fault::None, Opts { interleave: true, ..Default::default() }),
    ]).await { return Some(w); }
    for fault in [Fault::XorbDirAfterBlocks(3), Fault::Break(Target::XorbDir, When::BeforeNew)] {
        for opts in [Opts::default(), quick.clone()] {
            if opts.one_call && fault == Fault::XorbDirAfterBlocks(3) { continue; }
            if let Some(w) = run_history(&mut cx, "upload limit: healthy upload, faulty upload of an extended file, retry", &[
                ok(&[a]),
                st(&[x, small], fault.clone(), opts.clone()),
                st(&[x, small], Fault::None, opts),
                ok(&[b, c]),
            ]).await { return Some(w); }
        }
    }
    None
}

/// Many cleaners running concurrently in one session while the session shard is flushed to disk again and again (minimum shard
/// size 1 kB): every file of a session that reports success must be reconstructible.
async fn concurrent_histories(tp: Arc<ThreadPool>, cfg_name: String, seed: u64) -> Option<String> {
    let mut cx = Ctx { tp, cfg_name, n_download: 0, policy: GlobalDedupPolicy::Never };
    let xorb = *deduplication::constants::MAX_XORB_BYTES;
    for round in 0..4u64 {
        let root = tempfile::tempdir().unwrap();
        let (store, local) = (root.path().join("store"), root.path().join("local"));
        let files: Vec<FileIn> = (0..48usize).map(|i| FileIn { name: format!("f{i}"), what: "fresh random data".into(), data: Arc::new(random(seed * 1_000_000 + round * 1000 + i as u64 + 1, xorb + xorb / 2 + 17 * i)) }).collect();
        let ctx = format!("config {}; round {round}: ONE session, 48 files of {}..{} fresh bytes each cleaned by its own concurrently running task (add_data in pieces of 3000 bytes), then finalize", cx.cfg_name, files[0].data.len(), files[47].data.len());
        let session = match FileUploadSession::new(local_store(&store, &local), cx.tp.clone(), None).await { Ok(s) => s, Err(e) => return Some(format!("{ctx}: FileUploadSession::new fails: {e}")) };
        let mut tasks = tokio::task::JoinSet::new();
        for (i, f) in files.iter().cloned().enumerate() {
            let session = session.clone();
            tasks.spawn(async move {
                let mut cleaner = session.start_clean(f.name.clone());
                for piece in f.data.chunks(3000) {
                    cleaner.add_data(piece).await.map_err(|e| format!("add_data (file '{}'): {e}", f.name))?;
                    tokio::task::yield_now().await;
                }
                let (p, _m) = cleaner.finish().await.map_err(|e| format!("finish (file '{}'): {e}", f.name))?;
                Ok::<(usize, PointerFile), String>((i, p))
            });
        }
        let mut pointers: Vec<Option<PointerFile>> = files.iter().map(|_| None).collect();
        let mut failed: Option<String> = None;
        while let Some(r) = tasks.join_next().await {
            match r {
                Ok(Ok((i, p))) => pointers[i] = Some(p),
                Ok(Err(e)) => failed = failed.or(Some(e)),
                Err(e) => failed = failed.or(Some(format!("a cleaning task panicked: {e}"))),
            }
        }
        if let Some(e) = failed { return Some(format!("{ctx}: a session without injected fault fails: {e}")); }
        let m = match session.finalize().await { Ok(m) => m, Err(e) => return Some(format!("{ctx}: finalize fails on a healthy store: {e}")) };
        // C14 under every completion order of the background uploads (fresh store: every xorb object is new)
        if let Err(e) = xorb_bytes_check(&BTreeMap::new(), &xorb_files(&store), &m).and_then(|_| total_uploaded_check(&m)) {
            return Some(format!("{ctx}: every call returned Ok, but {e}"));
        }
        let shard_bytes: u64 = shard_files(&store).values().map(|v| v.0).sum();
        if m.shard_bytes_uploaded as u64 != shard_bytes {
            return Some(format!("{ctx}: every call returned Ok, but finalize() reports shard_bytes_uploaded = {} and the store holds shard files of {shard_bytes} bytes in total", m.shard_bytes_uploaded));
        }
        let mut lost = vec![];
        for (f, p) in files.iter().zip(&pointers) {
            if let Err(e) = download_check(&store, root.path(), cx.tp.clone(), f, p.as_ref().unwrap(), &mut cx.n_download).await {
                lost.push(e);
            }
        }
        if !lost.is_empty() {
            return Some(format!("{ctx}: every call returned Ok, but {} of the 48 files cannot be reconstructed from the store; first: {}", lost.len(), lost[0]));
        }
    }
    None
}

fn child(idx: usize) -> i32 {
    let (cfg_name, env, kind) = CONFIGS[idx];
    let got = [
        ("HF_XET_TARGET_CHUNK_SIZE", *deduplication::constants::TARGET_CHUNK_SIZE as u64),
        ("HF_XET_MAX_XORB_BYTES", *deduplication::constants::MAX_XORB_BYTES as u64),
        ("HF_XET_MAX_XORB_CHUNKS", *deduplication::constants::MAX_XORB_CHUNKS as u64),
        ("HF_XET_MDB_SHARD_MIN_TARGET_SIZE", *mdb_shard::constants::MDB_SHARD_MIN_TARGET_SIZE),
    ];
    let effective: BTreeMap<&str, &str> = BASE_ENV.iter().chain(env.iter()).map(|(k, v)| (*k, *v)).collect();
    for (k, v) in effective.iter() {
        if let Some((_, g)) = got.iter().find(|(n, _)| n == k) {
            if g.to_string() != *v {
                println!("infrastructure: {k}={v} was not picked up by this build (value {g})");
                return 2;
            }
        }
    }
    let seed = std::env::var("VERIF_SEED").ok().and_then(|s| s.parse().ok()).unwrap_or(0u64);
    let tp = Arc::new(ThreadPool::new().expect("runtime"));
    let name = cfg_name.to_string();
    let r = match kind {
        Kind::Concurrent => tp.external_run_async_task(concurrent_histories(tp.clone(), name, seed)),
        Kind::Full | Kind::Reduced => tp.external_run_async_task(run_all(tp.clone(), name, seed, kind == Kind::Full)),
        Kind::Extra(part) => tp.external_run_async_task(extra_histories(tp.clone(), name, seed, part)),
        Kind::Http(part) => tp.external_run_async_task(http_mirror_histories(tp.clone(), name, seed, part)),
        Kind::Serial | Kind::Wide => tp.external_run_async_task(upload_limit_histories(tp.clone(), name, seed, kind == Kind::Serial)),
    };
    match r {
        Ok(Some(w)) if w.starts_with("HARNESS") => { println!("infrastructure: config {cfg_name}: {w}"); 2 },
        Ok(None) => { println!("no violation found"); 0 },
        Ok(Some(w)) => { println!("WITNESS {w}"); 1 },
        Err(e) => { println!("WITNESS config {cfg_name}: a session or download panicked / was aborted: {e}"); 1 },
    }
}

fn main() {
    let args: Vec<String> = std::env::args().collect();
    if args.len() == 3 && args[1] == "--child" {
        std::process::exit(child(args[2].parse().unwrap()));
    }
    let exe = std::env::current_exe().unwrap();
    // C16_ONLY=3,5 runs only those children; C16_VERBOSE=1 copies the children's stderr (debugging aids)
    let only: Option<Vec<usize>> = std::env::var("C16_ONLY").ok().map(|s| s.split(',').filter_map(|t| t.trim().parse().ok()).collect());
    let verbose = std::env::var("C16_VERBOSE").is_ok();
    let selected: Vec<usize> = (0..CONFIGS.len()).filter(|i| only.as_ref().map(|o| o.contains(i)).unwrap_or(true)).collect();
    let handles: Vec<_> = selected.iter().cloned()
        .map(|i| {
            let mut cmd = Command::new(&exe);
            cmd.arg("--child").arg(i.to_string()).stdout(Stdio::piped()).stderr(Stdio::piped());
            for v in ["HF_XET_MAX_XORB_BYTES", "HF_XET_MAX_XORB_CHUNKS", "HF_XET_TARGET_CHUNK_SIZE", "HF_XET_INGESTION_BLOCK_SIZE", "HF_XET_MDB_SHARD_MIN_TARGET_SIZE", "HF_XET_MAX_CONCURRENT_UPLOADS", "HF_XET_HIGH_PERFORMANCE", "HF_XET_CACHE", "HF_HOME"] {
                cmd.env_remove(v);
            }
            for (k, v) in BASE_ENV.iter().chain(CONFIGS[i].1.iter()) {
                cmd.env(k, v);
            }
            let c = cmd.spawn().expect("spawn child");
            std::thread::spawn(move || { let t = std::time::Instant::now(); let r = c.wait_with_output(); eprintln!("[c16_session] child {i} ({}) took {:.1} s", CONFIGS[i].0.split(':').next().unwrap_or(""), t.elapsed().as_secs_f32()); r })
        })
        .collect();
    let mut verdict = 0;
    let mut lines = vec![];
    for (i, h) in selected.iter().cloned().zip(handles) {
        let out = h.join().unwrap().expect("child output");
        let stdout = String::from_utf8_lossy(&out.stdout).to_string();
        if verbose { eprintln!("----- child {i} -----\n{}", String::from_utf8_lossy(&out.stderr)); }
        match out.status.code() {
            Some(0) => {},
            Some(1) => { verdict = verdict.max(1); lines.extend(stdout.lines().filter(|l| l.starts_with("WITNESS")).map(|s| s.to_string())); },
            Some(2) => { eprintln!("{stdout}"); verdict = 2; },
            _ => {
                let err = String::from_utf8_lossy(&out.stderr);
                let tail: Vec<&str> = err.lines().rev().take(6).collect();
                verdict = verdict.max(1);
                lines.push(format!("WITNESS config {}: the process running the session histories died ({:?}); last output: {}", CONFIGS[i].0, out.status, tail.into_iter().rev().collect::<Vec<_>>().join(" | ")));
            },
        }
    }
    if verdict == 2 {
        eprintln!("configuration could not be applied");
        std::process::exit(2);
    }
    if let Some(l) = lines.first() {
        println!("{l}");
        std::process::exit(1);
    }
    println!("no violation found");
}
