//! Witness search for C04 / C03: the REAL deduplication::Chunker against an independent reference implementation of the gear-hash
//! rule (first cut: length == max, or length > min-65 and the gear hash of the bytes from offset max(min-65,0) meets the mask), on
//! structured streams and call partitions.  Prints `WITNESS ...` and exits 1 on the first disagreement.
use deduplication::Chunker;
use rand::rngs::StdRng;
use rand::{Rng, SeedableRng};

fn reference(data: &[u8], target: usize, div: usize, mult: usize) -> Vec<usize> {
    let mask0 = (target - 1) as u64;
    let mask = mask0 << mask0.leading_zeros();
    let mn = target / div;
    let mx = target * mult;
    let skip = if mn >= 65 { mn - 65 } else { 0 };
    let mut out = vec![];
    let mut start = 0usize;
    while start < data.len() {
        let mut h: u64 = 0;
        let mut len = 0usize;
        let mut cut = None;
        while start + len < data.len() {
            let b = data[start + len];
            len += 1;
            if len > skip {
                h = (h << 1).wrapping_add(gearhash::DEFAULT_TABLE[b as usize]);
                if h & mask == 0 {
                    cut = Some(len);
                    break;
                }
            }
            if len == mx {
                cut = Some(len);
                break;
            }
        }
        let l = cut.unwrap_or(len);
        out.push(l);
        start += l;
    }
    out
}

/// mode 0: every call non-final, then finish(); mode 1: the last call carries is_final=true (no finish());
/// mode 2: as mode 1, then the same chunker is fed the stream a second time (it must start clean).
fn real(data: &[u8], target: usize, pieces: &[usize], mode: u8) -> Vec<usize> {
    let mut c = Chunker::new(target);
    let mut out = vec![];
    let mut cat: Vec<u8> = vec![];
    let rounds = if mode == 2 { 2 } else { 1 };
    for _round in 0..rounds {
        let mut pos = 0;
        let mut k = 0;
        while pos < data.len() {
            let n = pieces[k % pieces.len()].max(1).min(data.len() - pos);
            k += 1;
            let last = pos + n == data.len();
            for ch in c.next_block(&data[pos..pos + n], mode != 0 && last) {
                out.push(ch.data.len());
                cat.extend_from_slice(&ch.data);
            }
            pos += n;
        }
        if data.is_empty() && mode != 0 {
            for ch in c.next_block(&[], true) {
                out.push(ch.data.len());
                cat.extend_from_slice(&ch.data);
            }
        }
    }
    if mode == 0 {
        if let Some(ch) = c.finish() {
            out.push(ch.data.len());
            cat.extend_from_slice(&ch.data);
        }
    }
    let mut want_cat = data.to_vec();
    if mode == 2 {
        want_cat.extend_from_slice(data);
    }
    if cat != want_cat {
        println!(
            "WITNESS Chunker(target={target}) fed {} bytes in pieces {:?} (mode {mode}: 0=finish(), 1=last call is_final, 2=reused after a final call): the chunks concatenate to {} bytes, not to the {} bytes fed{}",
            data.len(), pieces, cat.len(), want_cat.len(),
            if cat.len() == want_cat.len() { " (same length, different bytes)" } else { "" }
        );
        std::process::exit(1);
    }
    out
}

fn main() {
    let div = *deduplication::constants::MINIMUM_CHUNK_DIVISOR;
    let mult = *deduplication::constants::MAXIMUM_CHUNK_MULTIPLIER;
    let mut rng = StdRng::seed_from_u64(std::env::var("VERIF_SEED").ok().and_then(|s| s.parse().ok()).unwrap_or(0));
    for &target in &[128usize, 1024, 4096, 65536] {
        let len = (target * 200).min(6 << 20);
        let mut streams: Vec<(String, Vec<u8>)> = vec![];
        let mut r = vec![0u8; len];
        rng.fill(&mut r[..]);
        streams.push(("random".into(), r.clone()));
        streams.push(("zeros".into(), vec![0u8; len]));
        let mut p = r.clone();
        for i in 0..p.len() {
            p[i] = r[i % 97];
        }
        streams.push(("period-97".into(), p));
        let mut low = r.clone();
        for b in low.iter_mut() {
            *b &= 1;
        }
        streams.push(("two-symbol".into(), low));
        for (name, s) in &streams {
            let want = reference(s, target, div, mult);
            for pieces in [vec![usize::MAX], vec![1usize], vec![4096], vec![(target / div).saturating_sub(70).max(1), 3, 1], vec![target * mult, 7], vec![8127, 1]] {
              for mode in 0u8..3 {
                let got = real(s, target, &pieces, mode);
                let want = if mode == 2 { let mut w = want.clone(); w.extend_from_slice(&want); w } else { want.clone() };
                if got != want {
                    let i = got.iter().zip(want.iter()).position(|(a, b)| a != b).unwrap_or(got.len().min(want.len()));
                    println!(
                        "WITNESS Chunker(target={target}) on a {name} stream of {} bytes (rng seed in VERIF_SEED) fed in pieces {:?} (mode {mode}): chunk #{i} has length {:?} but the gear-hash rule gives {:?} ({} vs {} chunks)",
                        s.len(), pieces, got.get(i), want.get(i), got.len(), want.len()
                    );
                    std::process::exit(1);
                }
              }
            }
        }
        // short streams (shorter than, and just around, the skip-ahead distance), every call pattern
        let min = target / div;
        let mut lens: Vec<usize> = (0..70).collect();
        for d in [min.saturating_sub(66), min.saturating_sub(65), min.saturating_sub(64), min, min + 1] {
            lens.push(d);
        }
        for &l in &lens {
            let mut s = vec![0u8; l];
            rng.fill(&mut s[..]);
            let want = reference(&s, target, div, mult);
            for pieces in [vec![usize::MAX], vec![1usize], vec![l.saturating_sub(1).max(1), 1]] {
                for mode in 0u8..3 {
                    let got = real(&s, target, &pieces, mode);
                    let want = if mode == 2 { let mut w = want.clone(); w.extend_from_slice(&want); w } else { want.clone() };
                    if got != want {
                        println!(
                            "WITNESS Chunker(target={target}) on a random stream of {l} bytes fed in pieces {:?} (mode {mode}): chunk lengths {:?} but the gear-hash rule gives {:?}",
                            pieces, got, want
                        );
                        std::process::exit(1);
                    }
                }
            }
        }
    }
    println!("no violation found");
}
