//! Witness search for C04 / C03: the REAL deduplication::Chunker against an independent reference implementation of the gear-hash
//! rule (first cut: length == max, or length > min-65 and the gear hash of the bytes from offset max(min-65,0) meets the mask), on
//! structured streams and call partitions, under the default limits and under (MINIMUM_CHUNK_DIVISOR, MAXIMUM_CHUNK_MULTIPLIER) =
//! (6, 3), (3, 5), (16, 2) - one re-executed process per configuration, HF_XET_* overrides (honoured in builds with debug assertions).
//! Prints `WITNESS ...` and exits 1 on the first disagreement.
use deduplication::Chunker;
use rand::rngs::StdRng;
use rand::{Rng, SeedableRng};

fn reference(data: &[u8], target: usize, div: usize, mult: usize) -> Vec<usize> {
    let mask0 = (target - 1) as u64;
    let mask = mask0 << mask0.leading_zeros();
    let mn = target / div;
    let mx = target * mult;
    let skip = if mn >= 65 { mn - 65 } else { 0 };
    let mut out = vec![];
    let mut start = 0usize;
    while start < data.len() {
        let mut h: u64 = 0;
        let mut len = 0usize;
        let mut cut = None;
        while start + len < data.len() {
            let b = data[start + len];
            len += 1;
            if len > skip {
                h = (h << 1).wrapping_add(gearhash::DEFAULT_TABLE[b as usize]);
                if h & mask == 0 {
                    cut = Some(len);
                    break;
                }
            }
            if len == mx {
                cut = Some(len);
                break;
            }
        }
        let l = cut.unwrap_or(len);
        out.push(l);
        start += l;
    }
    out
}

/// mode 0: every call non-final, then finish(); mode 1: the last call carries is_final=true (no finish());
/// mode 2: as mode 1, then the same chunker is fed the stream a second time (it must start clean).
fn real(data: &[u8], target: usize, pieces: &[usize], mode: u8) -> Vec<usize> {
    let mut c = Chunker::new(target);
    let mut out = vec![];
    let mut cat: Vec<u8> = vec![];
    let rounds = if mode == 2 { 2 } else { 1 };
    for _round in 0..rounds {
        let mut pos = 0;
        let mut k = 0;
        while pos < data.len() {
            let n = pieces[k % pieces.len()].max(1).min(data.len() - pos);
            k += 1;
            let last = pos + n == data.len();
            for ch in c.next_block(&data[pos..pos + n], mode != 0 && last) {
                out.push(ch.data.len());
                cat.extend_from_slice(&ch.data);
            }
            pos += n;
        }
        if data.is_empty() && mode != 0 {
            for ch in c.next_block(&[], true) {
                out.push(ch.data.len());
                cat.extend_from_slice(&ch.data);
            }
        }
    }
    if mode == 0 {
        if let Some(ch) = c.finish() {
            out.push(ch.data.len());
            cat.extend_from_slice(&ch.data);
        }
    }
    let mut want_cat = data.to_vec();
    if mode == 2 {
        want_cat.extend_from_slice(data);
    }
    if cat != want_cat {
        println!(
            "WITNESS Chunker(target={target}) fed {} bytes in pieces {:?} (mode {mode}: 0=finish(), 1=last call is_final, 2=reused after a final call): the chunks concatenate to {} bytes, not to the {} bytes fed{}",
            data.len(), pieces, cat.len(), want_cat.len(),
            if cat.len() == want_cat.len() { " (same length, different bytes)" } else { "" }
        );
        std::process::exit(1);
    }
    out
}

/// (MINIMUM_CHUNK_DIVISOR, MAXIMUM_CHUNK_MULTIPLIER) configurations; the constants are read once per process (and are overridable
/// through HF_XET_* in builds with debug assertions, as the replay crate's is), so the program re-executes itself per configuration.
const CONFIGS: [Option<(usize, usize)>; 4] = [None, Some((6, 3)), Some((3, 5)), Some((16, 2))];

fn main() {
    let args: Vec<String> = std::env::args().collect();
    if !(args.len() == 3 && args[1] == "--child") {
        let exe = std::env::current_exe().unwrap();
        let handles: Vec<_> = (0..CONFIGS.len())
            .map(|i| {
                let mut cmd = std::process::Command::new(&exe);
                cmd.arg("--child").arg(i.to_string()).stdout(std::process::Stdio::piped()).stderr(std::process::Stdio::piped());
                cmd.env_remove("HF_XET_MINIMUM_CHUNK_DIVISOR").env_remove("HF_XET_MAXIMUM_CHUNK_MULTIPLIER");
                if let Some((d, m)) = CONFIGS[i] {
                    cmd.env("HF_XET_MINIMUM_CHUNK_DIVISOR", d.to_string()).env("HF_XET_MAXIMUM_CHUNK_MULTIPLIER", m.to_string());
                }
                let c = cmd.spawn().expect("spawn child");
                std::thread::spawn(move || c.wait_with_output())
            })
            .collect();
        let mut witness: Option<String> = None;
        for (i, h) in handles.into_iter().enumerate() {
            let out = h.join().unwrap().expect("child output");
            let stdout = String::from_utf8_lossy(&out.stdout).to_string();
            match out.status.code() {
                Some(0) => {},
                Some(1) => witness = witness.or(stdout.lines().find(|l| l.starts_with("WITNESS")).map(|s| s.to_string())),
                Some(2) => { eprintln!("{stdout}"); std::process::exit(2); },
                _ => {
                    let err = String::from_utf8_lossy(&out.stderr);
                    let tail: Vec<&str> = err.lines().rev().take(4).collect();
                    witness = witness.or(Some(format!("WITNESS configuration {:?} (divisor, multiplier; None = defaults): the chunker process died ({:?}): {}", CONFIGS[i], out.status, tail.into_iter().rev().collect::<Vec<_>>().join(" | "))));
                },
            }
        }
        match witness {
            Some(w) => { println!("{w}"); std::process::exit(1); },
            None => { println!("no violation found"); return; },
        }
    }
    let div = *deduplication::constants::MINIMUM_CHUNK_DIVISOR;
    let mult = *deduplication::constants::MAXIMUM_CHUNK_MULTIPLIER;
    // the non-default configurations run shorter streams and skip the two slowest call patterns
    let default_config = CONFIGS[args[2].parse::<usize>().unwrap()].is_none();
    if let Some((d, m)) = CONFIGS[args[2].parse::<usize>().unwrap()] {
        if (div, mult) != (d, m) {
            println!("infrastructure: HF_XET_MINIMUM_CHUNK_DIVISOR={d} / HF_XET_MAXIMUM_CHUNK_MULTIPLIER={m} were not picked up by this build (values {div}, {mult})");
            std::process::exit(2);
        }
    }
    let mut rng = StdRng::seed_from_u64(std::env::var("VERIF_SEED").ok().and_then(|s| s.parse().ok()).unwrap_or(0));
    for &target in &[128usize, 1024, 4096, 65536] {
        let len = (target * 200).min(if default_config { 6 << 20 } else { 2 << 20 });
        let mut streams: Vec<(String, Vec<u8>)> = vec![];
        let mut r = vec![0u8; len];
        rng.fill(&mut r[..]);
        streams.push(("random".into(), r.clone()));
        streams.push(("zeros".into(), vec![0u8; len]));
        let mut p = r.clone();
        for i in 0..p.len() {
            p[i] = r[i % 97];
        }
        streams.push(("period-97".into(), p));
        let mut low = r.clone();
        for b in low.iter_mut() {
            *b &= 1;
        }
        streams.push(("two-symbol".into(), low));
        for (name, s) in &streams {
            let want = reference(s, target, div, mult);
            for pieces in [vec![usize::MAX], vec![1usize], vec![4096], vec![(target / div).saturating_sub(70).max(1), 3, 1], vec![target * mult, 7], vec![8127, 1]] {
              if !default_config && (pieces == [1] || pieces == [8127, 1]) && s.len() > 300_000 {
                  continue;
              }
              for mode in 0u8..3 {
                let got = real(s, target, &pieces, mode);
                let want = if mode == 2 { let mut w = want.clone(); w.extend_from_slice(&want); w } else { want.clone() };
                if got != want {
                    let i = got.iter().zip(want.iter()).position(|(a, b)| a != b).unwrap_or(got.len().min(want.len()));
                    println!(
                        "WITNESS [MINIMUM_CHUNK_DIVISOR={div}, MAXIMUM_CHUNK_MULTIPLIER={mult}] Chunker(target={target}) on a {name} stream of {} bytes (rng seed in VERIF_SEED) fed in pieces {:?} (mode {mode}): chunk #{i} has length {:?} but the gear-hash rule gives {:?} ({} vs {} chunks)",
                        s.len(), pieces, got.get(i), want.get(i), got.len(), want.len()
                    );
                    std::process::exit(1);
                }
              }
            }
        }
        // short streams (shorter than, and just around, the skip-ahead distance), every call pattern
        let min = target / div;
        let mut lens: Vec<usize> = (0..70).collect();
        for d in [min.saturating_sub(66), min.saturating_sub(65), min.saturating_sub(64), min, min + 1] {
            lens.push(d);
        }
        for &l in &lens {
            let mut s = vec![0u8; l];
            rng.fill(&mut s[..]);
            let want = reference(&s, target, div, mult);
            for pieces in [vec![usize::MAX], vec![1usize], vec![l.saturating_sub(1).max(1), 1]] {
                for mode in 0u8..3 {
                    let got = real(&s, target, &pieces, mode);
                    let want = if mode == 2 { let mut w = want.clone(); w.extend_from_slice(&want); w } else { want.clone() };
                    if got != want {
                        println!(
                            "WITNESS [MINIMUM_CHUNK_DIVISOR={div}, MAXIMUM_CHUNK_MULTIPLIER={mult}] Chunker(target={target}) on a random stream of {l} bytes fed in pieces {:?} (mode {mode}): chunk lengths {:?} but the gear-hash rule gives {:?}",
                            pieces, got, want
                        );
                        std::process::exit(1);
                    }
                }
            }
        }
    }
    println!("no violation found");
}
