//! Witness search for C04 / C03: the REAL deduplication::Chunker against an independent reference implementation of the gear-hash
//! rule (first cut: length == max, or length > min-65 and the gear hash of the bytes from offset max(min-65,0) meets the mask), on
//! structured streams and call partitions, under the default limits and under (MINIMUM_CHUNK_DIVISOR, MAXIMUM_CHUNK_MULTIPLIER,
//! TARGET_CHUNK_SIZE) = (6, 3, 4096), (3, 5, -), (16, 2, 2^17), (1, 2, 1024: minimum == target), (8, 1, 256: maximum == target),
//! (2048, 2, 128: minimum < 65, no skip-ahead), (63, 4, 8192: minimum 65 at target 4096) - one re-executed process per configuration,
//! HF_XET_* overrides (honoured in builds with debug assertions).  Targets 128, 1024, 4096, 65536 (+ 2^20 under the defaults).  Checked: chunk lengths == reference, chunk bytes concatenate to the input, every chunk's hash
//! == compute_data_hash(its bytes), size bounds, the contract of next() (consumed <= given; everything consumed when no chunk comes
//! back; (None, 0) on empty non-final input), flushing through is_final / finish(), reuse after a final call, Chunker::default().
//! Prints `WITNESS ...` and exits 1 on the first disagreement.
use deduplication::Chunker;
use merklehash::{compute_data_hash, MerkleHash};
use rand::rngs::StdRng;
use rand::{Rng, SeedableRng};

/// position (1-based length) of the first cut in `data` read from a clean state, and whether the hash (not the size limit) made it
fn first_cut(data: &[u8], target: usize, div: usize, mult: usize) -> Option<(usize, bool)> {
    let mask0 = (target - 1) as u64;
    let mask = mask0 << mask0.leading_zeros();
    let mn = target / div;
    let mx = target * mult;
    let skip = if mn >= 65 { mn - 65 } else { 0 };
    let mut h: u64 = 0;
    for (i, &b) in data.iter().enumerate() {
        let len = i + 1;
        if len > skip {
            h = (h << 1).wrapping_add(gearhash::DEFAULT_TABLE[b as usize]);
            if h & mask == 0 {
                return Some((len, true));
            }
        }
        if len == mx {
            return Some((len, false));
        }
    }
    None
}

fn reference(data: &[u8], target: usize, div: usize, mult: usize) -> Vec<usize> {
    let mut out = vec![];
    let mut start = 0usize;
    while start < data.len() {
        let l = first_cut(&data[start..], target, div, mult).map(|c| c.0).unwrap_or(data.len() - start);
        out.push(l);
        start += l;
    }
    out
}

fn witness(msg: String) -> ! {
    println!("WITNESS {msg}");
    std::process::exit(1);
}

const MODES: &str = "0 = next_block + finish(); 1 = last next_block call is_final; 2 = as 1, then the same chunker is fed the stream again; 3 = next() called directly (with interleaved empty calls) + finish(); 4 = next_block, then next_block(&[], true), next(&[], true) twice, then the stream again";

/// Runs the real chunker over `data` cut into `pieces` (cycled) in the given mode; returns (length, hash) per chunk.
fn real(ctx: &str, data: &[u8], target: Option<usize>, pieces: &[usize], mode: u8) -> Vec<(usize, MerkleHash)> {
    let mut c = match target {
        Some(t) => Chunker::new(t),
        None => Chunker::default(),
    };
    let mut out = vec![];
    let mut cat: Vec<u8> = Vec::with_capacity(data.len() * 2);
    let mut take = |ch: deduplication::Chunk, out: &mut Vec<(usize, MerkleHash)>| {
        out.push((ch.data.len(), ch.hash));
        cat.extend_from_slice(&ch.data);
    };
    let describe = |what: String| -> ! {
        witness(format!("{ctx} fed {} bytes in pieces {:?} (cycled), mode {mode} ({MODES}): {what}", data.len(), &pieces[..pieces.len().min(12)]))
    };
    let rounds = if mode == 2 || mode == 4 { 2 } else { 1 };
    for round in 0..rounds {
        let last_is_final = mode == 1 || mode == 2 || (mode == 4 && round == 1);
        let mut pos = 0;
        let mut k = 0;
        while pos < data.len() {
            let n = pieces[k % pieces.len()].max(1).min(data.len() - pos);
            k += 1;
            let last = pos + n == data.len();
            if mode == 3 {
                let mut p = pos;
                while p < pos + n {
                    let (ch, used) = c.next(&data[p..pos + n], false);
                    if used > pos + n - p || (ch.is_none() && used != pos + n - p) {
                        describe(format!("next() on {} bytes at stream offset {p} returned {} and says it consumed {used} bytes", pos + n - p, if ch.is_some() { "a chunk" } else { "no chunk" }));
                    }
                    if let Some(ch) = ch {
                        take(ch, &mut out);
                    }
                    p += used;
                }
                if k % 5 == 0 {
                    let (ch, used) = c.next(&[], false);
                    if ch.is_some() || used != 0 {
                        describe(format!("next(&[], false) at stream offset {} returned {} / consumed {used}", pos + n, if ch.is_some() { "a chunk" } else { "no chunk" }));
                    }
                }
            } else {
                for ch in c.next_block(&data[pos..pos + n], last_is_final && last) {
                    take(ch, &mut out);
                }
            }
            pos += n;
        }
        if data.is_empty() && last_is_final {
            for ch in c.next_block(&[], true) {
                take(ch, &mut out);
            }
        }
        if mode == 4 && round == 0 {
            // a final call without data: whatever next_block does with it, next(&[], true) must hand out what is left, once
            for ch in c.next_block(&[], true) {
                take(ch, &mut out);
            }
            let (ch, used) = c.next(&[], true);
            if used != 0 {
                describe(format!("next(&[], true) says it consumed {used} bytes"));
            }
            if let Some(ch) = ch {
                take(ch, &mut out);
            }
            let (ch, used) = c.next(&[], true);
            if ch.is_some() || used != 0 {
                describe(format!("a second next(&[], true) returned {} / consumed {used}", if ch.is_some() { "another chunk" } else { "no chunk" }));
            }
        }
    }
    if mode == 0 || mode == 3 {
        if let Some(ch) = c.finish() {
            take(ch, &mut out);
        }
    } else if let Some(ch) = c.finish() {
        describe(format!("finish() after a final call returned another chunk of {} bytes", ch.data.len()));
    }
    let same = if rounds == 2 { cat.len() == 2 * data.len() && cat[..data.len()] == *data && cat[data.len()..] == *data } else { cat[..] == *data };
    if !same {
        describe(format!("the chunks concatenate to {} bytes, not to the {} bytes fed{}", cat.len(), rounds * data.len(), if cat.len() == rounds * data.len() { " (same length, different bytes)" } else { "" }));
    }
    out
}

struct Cfg {
    div: usize,
    mult: usize,
    target: Option<usize>, // HF_XET_TARGET_CHUNK_SIZE (what Chunker::default() uses)
}
/// (MINIMUM_CHUNK_DIVISOR, MAXIMUM_CHUNK_MULTIPLIER, TARGET_CHUNK_SIZE) configurations; the constants are read once per process (and
/// are overridable through HF_XET_* in builds with debug assertions, as the replay crate's is), so the program re-executes itself.
const CONFIGS: [Option<Cfg>; 8] = [
    None,
    Some(Cfg { div: 6, mult: 3, target: Some(4096) }),
    Some(Cfg { div: 3, mult: 5, target: None }),
    Some(Cfg { div: 16, mult: 2, target: Some(1 << 17) }),
    Some(Cfg { div: 1, mult: 2, target: Some(1024) }),    // minimum == target
    Some(Cfg { div: 8, mult: 1, target: Some(256) }),     // maximum == target
    Some(Cfg { div: 2048, mult: 2, target: Some(128) }),  // minimum < 65 for every target (0 for the small ones): no skip-ahead at all
    Some(Cfg { div: 63, mult: 4, target: Some(8192) }),   // 4096 / 63 = 65: the smallest minimum with skip-ahead (of 0 bytes); 8192 / 63 = 130
];

struct Env {
    div: usize,
    mult: usize,
    default_config: bool,
}

/// compares one run with the expected (length, hash) list
fn compare(e: &Env, what: &str, target: Option<usize>, tval: usize, data: &[u8], want: &[(usize, MerkleHash)], pieces: &[usize], mode: u8) {
    let ctx = format!("[MINIMUM_CHUNK_DIVISOR={}, MAXIMUM_CHUNK_MULTIPLIER={}] {} on {what}", e.div, e.mult, match target { Some(t) => format!("Chunker::new({t})"), None => format!("Chunker::default() (TARGET_CHUNK_SIZE {tval})") });
    let got = real(&ctx, data, target, pieces, mode);
    let twice = mode == 2 || mode == 4;
    let total = if twice { 2 * want.len() } else { want.len() };
    let w = |i: usize| want[i % want.len().max(1)];
    let (mn, mx) = (tval / e.div, tval * e.mult);
    for i in 0..got.len().max(total) {
        let g = got.get(i).copied();
        let x = if i < total { Some(w(i)) } else { None };
        if g.map(|g| g.0) != x.map(|x| x.0) {
            witness(format!(
                "{ctx} ({} bytes; rng seed in VERIF_SEED) fed in pieces {:?} (cycled), mode {mode} ({MODES}): chunk #{i} has length {:?} but the gear-hash rule gives {:?} ({} vs {} chunks)",
                data.len(), &pieces[..pieces.len().min(12)], g.map(|g| g.0), x.map(|x| x.0), got.len(), total
            ));
        }
        if g.map(|g| g.1) != x.map(|x| x.1) {
            witness(format!(
                "{ctx} ({} bytes) fed in pieces {:?} (cycled), mode {mode}: chunk #{i} ({} bytes) carries the hash {} but compute_data_hash of its bytes is {}",
                data.len(), &pieces[..pieces.len().min(12)], g.unwrap().0, g.unwrap().1.hex(), x.unwrap().1.hex()
            ));
        }
        let l = g.unwrap().0;
        let last_of_pass = (i + 1) % want.len().max(1) == 0;
        if l > mx || l == 0 || (!last_of_pass && l < mn.saturating_sub(64)) {
            witness(format!("{ctx} ({} bytes), pieces {:?}, mode {mode}: chunk #{i} has {l} bytes; limits: at most {mx}, at least {mn} - 64 unless it is the last", data.len(), &pieces[..pieces.len().min(12)]));
        }
    }
}

fn expected(data: &[u8], target: usize, e: &Env) -> Vec<(usize, MerkleHash)> {
    let mut pos = 0;
    reference(data, target, e.div, e.mult).into_iter().map(|l| { let h = compute_data_hash(&data[pos..pos + l]); pos += l; (l, h) }).collect()
}

/// call partition aligned with the expected chunks: calls ending exactly at the end of the skip-ahead stretch, one byte before /
/// after it, exactly at / one byte before / one byte after a chunk end
fn aligned_pieces(want: &[(usize, MerkleHash)], target: usize, e: &Env) -> Vec<usize> {
    let skip = (target / e.div).saturating_sub(65);
    let mut ends: Vec<usize> = vec![];
    let mut s = 0usize;
    for (i, (l, _)) in want.iter().enumerate() {
        match i % 6 {
            0 => ends.push(s + skip.min(*l)),
            1 => { ends.push(s + (skip + 1).min(*l)); ends.push(s + l); },
            2 => { ends.push(s + l - 1); ends.push(s + l + 1); },
            3 => ends.push(s + l),
            4 => { ends.push(s + skip.saturating_sub(1).min(*l)); ends.push(s + skip.min(*l)); ends.push(s + (skip + 64).min(*l)); },
            _ => {},
        }
        s += l;
    }
    ends.push(s);
    ends.sort();
    ends.dedup();
    let mut pieces = vec![];
    let mut prev = 0;
    for x in ends {
        if x > prev && x <= s {
            pieces.push(x - prev);
            prev = x;
        }
    }
    if pieces.is_empty() {
        pieces.push(1);
    }
    pieces
}

/// A stream made of self-delimiting blocks: F = exactly max bytes without a hash match (forced cut; random or constant bytes),
/// E = a block whose hash match comes within the first 64 hashed bytes (so it is computed while the 64-byte window still holds
/// whatever state the previous chunk left), N = an ordinary chunk.  Returns the stream and the block lengths.
fn block_stream(rng: &mut StdRng, target: usize, e: &Env, budget_blocks: usize) -> Option<(Vec<u8>, Vec<usize>, String)> {
    let (mn, mx) = (target / e.div, target * e.mult);
    let skip = mn.saturating_sub(65);
    let cut = |d: &[u8]| first_cut(d, target, e.div, e.mult);
    // F: constant bytes first (cheap), random when the search is affordable
    let mut forced: Vec<Vec<u8>> = vec![];
    for b in 0..=255u8 {
        let d = vec![b; mx];
        if cut(&d) == Some((mx, false)) {
            forced.push(d);
            break;
        }
    }
    if mx <= 1 << 18 {
        for _ in 0..(4000usize).min((1 << 26) / mx) {
            let mut d = vec![0u8; mx];
            rng.fill(&mut d[..]);
            if cut(&d) == Some((mx, false)) {
                forced.push(d);
                break;
            }
        }
    }
    // E (the bytes before the skip-ahead end are not hashed: search over the 64 hashed bytes only, then confirm with the full rule)
    let mut early: Vec<Vec<u8>> = vec![];
    if mx > skip + 64 {
        let mask0 = (target - 1) as u64;
        let mask = mask0 << mask0.leading_zeros();
        let mut prefix = vec![0u8; skip];
        rng.fill(&mut prefix[..]);
        for _ in 0..40 * target {
            let mut tail = [0u8; 64];
            rng.fill(&mut tail[..]);
            let mut h = 0u64;
            let hit = tail.iter().position(|&b| { h = (h << 1).wrapping_add(gearhash::DEFAULT_TABLE[b as usize]); h & mask == 0 });
            if let Some(j) = hit {
                let mut d = prefix.clone();
                d.extend_from_slice(&tail[..=j]);
                if cut(&d) != Some((d.len(), true)) {
                    return None;
                }
                early.push(d);
                if early.len() == 2 {
                    break;
                }
            }
        }
    }
    // N
    let mut normal: Vec<Vec<u8>> = vec![];
    for _ in 0..200 {
        let mut d = vec![0u8; mx];
        rng.fill(&mut d[..]);
        if let Some((l, true)) = cut(&d) {
            if l > skip + 64 {
                d.truncate(l);
                normal.push(d);
                if normal.len() == 2 {
                    break;
                }
            }
        }
    }
    if forced.is_empty() || early.is_empty() {
        return None;
    }
    let order = "FEFFEENEFNNFEEFENEEF";
    let mut stream = vec![];
    let mut lens = vec![];
    let mut used = String::new();
    let mut counts = [0usize; 3];
    for ch in order.chars().cycle().take(budget_blocks) {
        let (pool, k) = match ch { 'F' => (&forced, 0), 'E' => (&early, 1), _ => (&normal, 2) };
        if pool.is_empty() {
            continue;
        }
        let b = &pool[counts[k] % pool.len()];
        counts[k] += 1;
        stream.extend_from_slice(b);
        lens.push(b.len());
        used.push(ch);
    }
    // a tail that is not a complete chunk
    let tail = skip.min(37).max(1);
    stream.extend(std::iter::repeat(0xA5u8).take(tail));
    if let Some(_) = cut(&stream[stream.len() - tail..]) {
        stream.truncate(stream.len() - tail);
    } else {
        lens.push(tail);
    }
    Some((stream, lens, format!("blocks {used} (F = {mx} bytes without a hash match: forced cut; E = hash match within the first 64 hashed bytes, {:?} bytes; N = ordinary chunk) + {tail} trailing bytes", early.iter().map(|b| b.len()).collect::<Vec<_>>())))
}

fn child(idx: usize) -> i32 {
    let div = *deduplication::constants::MINIMUM_CHUNK_DIVISOR;
    let mult = *deduplication::constants::MAXIMUM_CHUNK_MULTIPLIER;
    let tdef = *deduplication::constants::TARGET_CHUNK_SIZE;
    let default_config = CONFIGS[idx].is_none();
    match &CONFIGS[idx] {
        Some(c) => {
            if (div, mult) != (c.div, c.mult) || tdef != c.target.unwrap_or(65536) {
                println!("infrastructure: HF_XET_MINIMUM_CHUNK_DIVISOR={} / HF_XET_MAXIMUM_CHUNK_MULTIPLIER={} / HF_XET_TARGET_CHUNK_SIZE={:?} were not picked up by this build (values {div}, {mult}, {tdef})", c.div, c.mult, c.target);
                return 2;
            }
        },
        None => {
            if (div, mult, tdef) != (8, 2, 65536) {
                println!("infrastructure: the defaults are not (8, 2, 65536) but ({div}, {mult}, {tdef})");
                return 2;
            }
        },
    }
    let e = Env { div, mult, default_config };
    let t0 = std::time::Instant::now();
    let stats = std::env::var("VERIF_STATS").is_ok();
    let lap = |what: &str| {
        if stats {
            println!("STATS child {idx} (divisor {div}, multiplier {mult}): {what} at {:.1} s", t0.elapsed().as_secs_f32());
        }
    };
    let mut rng = StdRng::seed_from_u64(std::env::var("VERIF_SEED").ok().and_then(|s| s.parse().ok()).unwrap_or(0));
    let mut targets = vec![128usize, 1024, 4096, 65536];
    if e.default_config {
        targets.push(1 << 20);
    }
    for &target in &targets {
        lap(&format!("target {target}: start"));
        let huge = target == 1 << 20;
        let len = if huge { 5 << 20 } else { (target * 200).min(2 << 20) };
        let mut streams: Vec<(String, Vec<u8>)> = vec![];
        let mut r = vec![0u8; len];
        rng.fill(&mut r[..]);
        streams.push(("a random stream".into(), r.clone()));
        // the structured streams are shorter at the large targets (time), and two of them are left to the default configuration there
        let slen = if target >= 65536 { len / 2 } else { len };
        streams.push(("a stream of zeros".into(), vec![0u8; slen]));
        if !huge && (e.default_config || target < 65536) {
            let mut p = r[..slen].to_vec();
            for i in 0..p.len() {
                p[i] = r[i % 97];
            }
            streams.push(("a period-97 stream".into(), p));
            let mut low = r[..slen].to_vec();
            for b in low.iter_mut() {
                *b &= 1;
            }
            streams.push(("a two-symbol stream".into(), low));
        }
        let budget = if huge { 6 } else { ((4 << 20) / (target * mult)).clamp(8, 60) };
        lap(&format!("target {target}: streams generated"));
        let bs = block_stream(&mut rng, target, &e, budget);
        lap(&format!("target {target}: block stream crafted"));
        match bs {
            Some((s, lens, what)) => {
                let got = reference(&s, target, div, mult);
                if got != lens {
                    println!("infrastructure: the block stream for target {target} does not re-chunk block by block under the reference rule ({} vs {} chunks)", got.len(), lens.len());
                    return 2;
                }
                streams.push((format!("a stream of {what}"), s));
            },
            None => {
                println!("infrastructure: no forced / early-cut block found for target {target}, divisor {div}, multiplier {mult}");
                return 2;
            },
        }
        for (name, s) in &streams {
            let want = expected(s, target, &e);
            let aligned = aligned_pieces(&want, target, &e);
            let skip = (target / div).saturating_sub(65);
            // (call pattern, modes on streams up to 300,000 bytes, modes on longer streams, modes at target 2^20)
            let all: &[u8] = &[0, 1, 2, 3, 4];
            let patterns: Vec<(Vec<usize>, &[u8], &[u8], &[u8])> = vec![
                (vec![usize::MAX], all, all, &[0, 1, 3]),
                (vec![4096], all, &[0, 1], &[0]),
                (vec![(target / div).saturating_sub(70).max(1), 3, 1], all, &[0, 3], &[]),
                (vec![target * mult, 7], all, &[1, 4], &[1]),
                (aligned, all, &[0, 2, 3], &[0, 3]),
                (vec![skip.max(1), 1, 64, target * mult], all, &[0, 3], &[]),
                (vec![target * mult + 1], all, &[1], &[1]),
                (vec![8127, 1], all, &[0, 2], &[]),
            ];
            let zeros = name.contains("zeros");
            for (k, (pieces, small, big, at_huge)) in patterns.iter().enumerate() {
                let modes: &[u8] = if huge { if zeros && k != 0 && k != 4 { &[] } else { at_huge } } else if s.len() <= 300_000 { small } else { big };
                for &mode in modes {
                    compare(&e, name, Some(target), target, s, &want, pieces, mode);
                }
            }
            lap(&format!("target {target}: patterns on {}", &name[..name.len().min(30)]));
            // the one-byte call pattern on a prefix of the stream (the prefix re-chunks like the stream up to its last chunk)
            let plen = s.len().min(if huge { 3 << 20 } else if e.default_config { 1 << 19 } else { 1 << 17 });
            if !(huge && zeros) {
                let p = &s[..plen];
                let want = expected(p, target, &e);
                let modes: &[u8] = if huge { &[0, 1] } else if plen <= 300_000 { all } else { &[0, 2, 3] };
                for &mode in modes {
                    compare(&e, &format!("the first {plen} bytes of {name}"), Some(target), target, p, &want, &[1], mode);
                }
            }
        }
        lap(&format!("target {target}: long streams done"));
        // short streams (shorter than, and just around, the skip-ahead distance, the minimum and the maximum), every call pattern
        let min = target / div;
        let max = target * mult;
        let mut lens: Vec<usize> = (0..70).collect();
        for d in [min.saturating_sub(66), min.saturating_sub(65), min.saturating_sub(64), min.saturating_sub(1), min, min + 1, min + 63, min + 64, min + 65] {
            lens.push(d);
        }
        if !huge {
            for d in [max - 1, max, max + 1, 2 * max - 1, 2 * max, 2 * max + 1, max + min.saturating_sub(65), max + min.saturating_sub(64)] {
                lens.push(d);
            }
        }
        lens.sort();
        lens.dedup();
        for &l in &lens {
            for zeros in [false, true] {
                if zeros && l < min.saturating_sub(66) {
                    continue;
                }
                let mut s = vec![0u8; l];
                if !zeros {
                    rng.fill(&mut s[..]);
                }
                let want = expected(&s, target, &e);
                let name = format!("a {} stream of {l} bytes (minimum {min}, maximum {max})", if zeros { "zero" } else { "random" });
                for pieces in [vec![usize::MAX], vec![1usize], vec![l.saturating_sub(1).max(1), 1], vec![min.saturating_sub(65).max(1), 1], vec![max, 1]] {
                    if pieces == [1] && l > 150_000 {
                        continue;
                    }
                    let modes: &[u8] = if l > 100_000 { &[0, 1, 3] } else { &[0, 1, 2, 3, 4] };
                    for &mode in modes {
                        compare(&e, &name, Some(target), target, &s, &want, &pieces, mode);
                    }
                }
            }
        }
        lap(&format!("target {target}: short streams done"));
        // constant streams of every byte value (gear-hash fixed points): 6 maximum chunks + 5 bytes
        if target <= 4096 {

            for b in 0..=255u8 {
                let mut s = vec![b; 6 * max + 5];
                let mut want = expected(&s, target, &e);
                if want.len() > 1500 {
                    // a fixed point that meets the mask: tiny chunks; 1500 of them are enough
                    s.truncate(want[..1500].iter().map(|w| w.0).sum::<usize>() + 5);
                    want = expected(&s, target, &e);
                }
                for (pieces, mode) in [(vec![usize::MAX], 1u8), (vec![61], 0), (vec![max, 1], 3)] {
                    compare(&e, &format!("a stream of {} bytes of value {b:#04x}", s.len()), Some(target), target, &s, &want, &pieces, mode);
                }
            }
        }
    }
    lap("targets done");
    // Chunker::default() == Chunker::new(TARGET_CHUNK_SIZE)
    {
        let len = (tdef * 40).min(3 << 20);
        let mut s = vec![0u8; len];
        rng.fill(&mut s[..]);
        let want = expected(&s, tdef, &e);
        for (pieces, mode) in [(vec![usize::MAX], 0u8), (vec![usize::MAX], 1), (vec![4096], 2), (vec![8127, 1], 3), (vec![tdef * mult, 7], 4)] {
            compare(&e, "a random stream", None, tdef, &s, &want, &pieces, mode);
        }
    }
    0
}

fn main() {
    let args: Vec<String> = std::env::args().collect();
    if args.len() == 3 && args[1] == "--child" {
        std::process::exit(child(args[2].parse().unwrap()));
    }
    let exe = std::env::current_exe().unwrap();
    const VARS: [&str; 3] = ["HF_XET_MINIMUM_CHUNK_DIVISOR", "HF_XET_MAXIMUM_CHUNK_MULTIPLIER", "HF_XET_TARGET_CHUNK_SIZE"];
    let handles: Vec<_> = (0..CONFIGS.len())
        .map(|i| {
            let mut cmd = std::process::Command::new(&exe);
            cmd.arg("--child").arg(i.to_string()).stdout(std::process::Stdio::piped()).stderr(std::process::Stdio::piped());
            for v in VARS {
                cmd.env_remove(v);
            }
            if let Some(c) = &CONFIGS[i] {
                cmd.env(VARS[0], c.div.to_string()).env(VARS[1], c.mult.to_string());
                if let Some(t) = c.target {
                    cmd.env(VARS[2], t.to_string());
                }
            }
            let c = cmd.spawn().expect("spawn child");
            std::thread::spawn(move || c.wait_with_output())
        })
        .collect();
    let mut witness: Option<String> = None;
    let mut trouble: Option<String> = None;
    for (i, h) in handles.into_iter().enumerate() {
        let out = h.join().unwrap().expect("child output");
        let stdout = String::from_utf8_lossy(&out.stdout).to_string();
        stdout.lines().filter(|l| l.starts_with("STATS")).for_each(|l| println!("{l}"));
        match out.status.code() {
            Some(0) => {},
            Some(1) => witness = witness.or(stdout.lines().find(|l| l.starts_with("WITNESS")).map(|s| s.to_string())),
            Some(2) => trouble = trouble.or(Some(stdout)),
            _ => {
                let err = String::from_utf8_lossy(&out.stderr);
                let tail: Vec<&str> = err.lines().rev().take(4).collect();
                let cfg = CONFIGS[i].as_ref().map(|c| format!("divisor {}, multiplier {}, TARGET_CHUNK_SIZE {:?}", c.div, c.mult, c.target)).unwrap_or("defaults".into());
                witness = witness.or(Some(format!("WITNESS configuration {cfg}: the chunker process died ({:?}): {}", out.status, tail.into_iter().rev().collect::<Vec<_>>().join(" | "))));
            },
        }
    }
    if let Some(w) = witness {
        println!("{w}");
        std::process::exit(1);
    }
    if let Some(t) = trouble {
        eprintln!("{t}");
        std::process::exit(2);
    }
    println!("no violation found");
}
