//! Witness search for C20 (singleflight runs one task per key and every caller gets its outcome) against the REAL
//! `utils::singleflight::Group` through its public API (`Group::new`, `Group::work`).  Never proves anything: it only looks for a
//! concrete schedule on which the real code breaks the property, prints it as `WITNESS ...` and exits 1.
//!
//! Oracle (from the property text only).  Every caller supplies its OWN task, whose outcome is a fixed function of the task id
//! (value 1000+id, error "boom-<id>", or a panic), so one can tell whose task produced what a caller received:
//!  * a caller reported as owner: its task was executed exactly once and it receives that task's outcome (value;
//!    `InternalError(e)` or its copy `WaiterInternalError` naming e - HEAD hands the owner the copy although the doc comment of
//!    `work` promises the original, the property text only demands "that task's error"; for a panic `JoinError`/`OwnerPanicked`);
//!  * a caller reported as non-owner: its own task is never executed and it receives the outcome of a task that WAS executed for
//!    the same key in the same scenario (value; `WaiterInternalError`/`InternalError` naming that task's error; `OwnerPanicked`/
//!    `JoinError` if a panicking task ran);
//!  * nobody receives `CallMissing` / `NoResult` / `NoNotifierCreated` (the crate's own "BUG:" errors);
//!  * at no time do two tasks of one key execute concurrently (a gauge incremented/decremented inside the tasks); no task is
//!    executed twice;
//!  * a call made strictly after every earlier call of that key has returned is an owner (starts a new flight);
//!  * nobody waits forever: every caller is awaited with a 10 s timeout and every scenario runs on its own OS thread + runtime
//!    under a 12 s watchdog (a blocked runtime thread cannot fire its own timers) -> `WITNESS ... still waiting after 10 s`.
//! The oracle holds under every interleaving, so it is also applied on the multi-threaded runtime where arrival order is up to
//! the machine.  "Exactly one task for N callers" is asserted only where the schedule is steered (current_thread runtime, tasks
//! gated by a semaphore, callers parked before the gate opens).
//!
//! Scenarios, each on a current_thread runtime and on a multi_thread runtime (4 workers), each once without any enabled tracing
//! level and once with a DEBUG-level tracing subscriber enabled (log arguments with side effects are then evaluated):
//!  J  N = 1, 2, 8, 40 callers of one key started while the (gated) task is in flight; tasks that succeed, fail, panic; followed
//!     by a later call of the same key (must be a new flight with its own outcome).
//!  L  late joiner: the owner's task wakes caller B (oneshot) as its very last step, so that B calls `work` after the task
//!     completed but before the owner was re-polled and removed the call; then C arrives after the owner returned, two more
//!     callers join C's gated flight; permits are handed out one by one.
//!  Q  sequential flights on one key: ok, error, panic, ok, panic, error, ok, with calls on another key in between: every call
//!     owns a new flight and gets its own outcome.
//!  A  the owner CALLER (the future returned by `work`) is aborted mid-flight while three waiters are parked.  The property text
//!     says nothing about a cancelled owner; pinned here is only what it does say: the waiters of that flight come back (no
//!     hang) with the outcome of the one task that was started, that task is not executed twice, no second task runs
//!     concurrently.  (On HEAD the spawned owner task keeps running detached and the waiters get its value; nobody removes the
//!     call afterwards, so later callers of that key are served the old value as non-owners - observed, deliberately not judged.)
//!  K  12 keys x 5 callers x 3 waves concurrently, tasks of random short duration: outcomes never cross keys.
//!  S  about 0.6 s of random arrival times around the completion instant on one Group (callers arriving before, at and after
//!     completion/removal), fresh ids per round so that a stale call of an earlier round is recognised.
//!  N  remaining entry points and key shapes: `Group::default()`, `work_dump_caller_info` (value, error, panic), the empty key, a
//!     2,000-character key, keys that are prefixes of each other ("", "a", "ab") in flight at the same time with gated tasks (each
//!     caller gets its own key's value), and nesting: the task of key "outer" itself calls `work` on key "inner" of the SAME
//!     group (and a waiter joins "outer" meanwhile) - nobody may wait forever and everybody gets the value computed from the inner
//!     flight; a WAITER call (not the owner) aborted mid-flight: owner and the other waiter still get the value, the key is free
//!     afterwards.
//!  W  (multi_thread, DEBUG on) forced window: the subscriber pauses a waiter inside `Call::get_future` at the event
//!     "Adding to Call's Notify" (after it saw the empty result slot, before it registered with the notifier) for up to 400 ms
//!     while the owner's task is released; the waiter must still get the value.  Skipped (with a note on stderr) if that event
//!     is never emitted.
//! Inputs are deterministic functions of VERIF_SEED (default 0).  `VERIF_C20_ONLY=J,L,...` restricts the scenarios.
//! Exit 0 `no violation found`, exit 1 `WITNESS ...`, exit 2 harness trouble.
use std::future::Future;
use std::sync::atomic::{AtomicBool, AtomicUsize, Ordering};
use std::sync::{mpsc, Arc, Condvar, Mutex, OnceLock};
use std::time::{Duration, Instant};

use tokio::sync::{oneshot, Semaphore};
use tokio::task::JoinHandle;
use tokio::time::timeout;
use tracing::field::{Field, Visit};
use tracing::span::{Attributes, Id, Record};
use tracing::subscriber::Interest;
use tracing::{Event, Level, Metadata, Subscriber};
use utils::singleflight::{Group, SingleflightError};

type W = Result<(), String>;
type G = Arc<Group<usize, String>>;
type Res = Result<usize, SingleflightError<String>>;

const CALLER_TIMEOUT: Duration = Duration::from_secs(10);
const WATCHDOG: Duration = Duration::from_secs(12);
const WINDOW: Duration = Duration::from_millis(400);

fn infra(msg: String) -> ! {
    eprintln!("harness failure: {msg}");
    println!("harness failure: {msg}");
    std::process::exit(2)
}

fn splitmix(mut z: u64) -> u64 {
    z = z.wrapping_add(0x9E3779B97F4A7C15);
    z = (z ^ (z >> 30)).wrapping_mul(0xBF58476D1CE4E5B9);
    z = (z ^ (z >> 27)).wrapping_mul(0x94D049BB133111EB);
    z ^ (z >> 31)
}
struct Rng(u64);
impl Rng {
    fn next(&mut self) -> u64 {
        self.0 = self.0.wrapping_add(0x9E3779B97F4A7C15);
        splitmix(self.0)
    }
    fn below(&mut self, n: u64) -> u64 {
        self.next() % n.max(1)
    }
}

// ---------------------------------------------------------------- tracing subscriber: DEBUG switch + the pause hook of scenario W
struct HookState {
    debug_on: AtomicBool,
    armed: AtomicBool,
    in_window: Mutex<Option<oneshot::Sender<()>>>,
    completed: Mutex<bool>,
    completed_cv: Condvar,
    completed_inside_window: AtomicBool,
}
fn hook() -> &'static HookState {
    static S: OnceLock<HookState> = OnceLock::new();
    S.get_or_init(|| HookState {
        debug_on: AtomicBool::new(false),
        armed: AtomicBool::new(false),
        in_window: Mutex::new(None),
        completed: Mutex::new(false),
        completed_cv: Condvar::new(),
        completed_inside_window: AtomicBool::new(false),
    })
}
struct Msg(String);
impl Visit for Msg {
    fn record_debug(&mut self, field: &Field, value: &dyn std::fmt::Debug) {
        if field.name() == "message" {
            self.0 = format!("{value:?}");
        }
    }
}
struct Hook;
impl Subscriber for Hook {
    // decided per event, so that the switch can be flipped between scenarios
    fn register_callsite(&self, _: &'static Metadata<'static>) -> Interest {
        Interest::sometimes()
    }
    fn enabled(&self, m: &Metadata<'_>) -> bool {
        hook().debug_on.load(Ordering::SeqCst) && *m.level() <= Level::DEBUG
    }
    fn new_span(&self, _: &Attributes<'_>) -> Id {
        Id::from_u64(1)
    }
    fn record(&self, _: &Id, _: &Record<'_>) {}
    fn record_follows_from(&self, _: &Id, _: &Id) {}
    fn enter(&self, _: &Id) {}
    fn exit(&self, _: &Id) {}
    fn event(&self, event: &Event<'_>) {
        let mut m = Msg(String::new());
        event.record(&mut m); // formats the arguments, as a logging subscriber would
        let st = hook();
        if m.0.contains("Completed Call with") {
            *st.completed.lock().unwrap() = true;
            st.completed_cv.notify_all();
        } else if m.0.contains("Adding to Call's Notify") && st.armed.swap(false, Ordering::SeqCst) {
            if let Some(tx) = st.in_window.lock().unwrap().take() {
                let _ = tx.send(());
            }
            let guard = st.completed.lock().unwrap();
            let (guard, _) = st.completed_cv.wait_timeout_while(guard, WINDOW, |done| !*done).unwrap();
            st.completed_inside_window.store(*guard, Ordering::SeqCst);
        }
    }
}

// ---------------------------------------------------------------- tasks and the ledger
#[derive(Clone, Copy, PartialEq, Debug)]
enum Kind {
    Ok,
    Err,
    Panic,
}
enum Wait {
    None,
    Gate(Arc<Semaphore>),
    Yields(u32),
    Sleep(u64),
}
struct TaskInfo {
    key: usize,
    kind: Kind,
    started: AtomicUsize,
}
struct Ledger {
    tasks: Mutex<Vec<Arc<TaskInfo>>>,
    id_base: usize,
    running: Vec<AtomicUsize>,
    max_running: Vec<AtomicUsize>,
}
impl Ledger {
    fn new(keys: usize, id_base: usize) -> Arc<Self> {
        Arc::new(Ledger {
            tasks: Mutex::new(Vec::new()),
            id_base,
            running: (0..keys).map(|_| AtomicUsize::new(0)).collect(),
            max_running: (0..keys).map(|_| AtomicUsize::new(0)).collect(),
        })
    }
    fn new_task(&self, key: usize, kind: Kind) -> (usize, Arc<TaskInfo>) {
        let mut t = self.tasks.lock().unwrap();
        let info = Arc::new(TaskInfo { key, kind, started: AtomicUsize::new(0) });
        t.push(info.clone());
        (self.id_base + t.len() - 1, info)
    }
    fn info(&self, id: usize) -> Arc<TaskInfo> {
        self.tasks.lock().unwrap()[id - self.id_base].clone()
    }
    fn total_started(&self) -> usize {
        self.tasks.lock().unwrap().iter().map(|t| t.started.load(Ordering::SeqCst)).sum()
    }
}
fn key_name(k: usize) -> String {
    format!("key{k}")
}

async fn run_task(l: Arc<Ledger>, id: usize, wait: Wait, last: Option<oneshot::Sender<()>>) -> Result<usize, String> {
    let info = l.info(id);
    info.started.fetch_add(1, Ordering::SeqCst);
    let now = l.running[info.key].fetch_add(1, Ordering::SeqCst) + 1;
    l.max_running[info.key].fetch_max(now, Ordering::SeqCst);
    match wait {
        Wait::None => {},
        Wait::Gate(g) => match g.acquire().await {
            Ok(p) => p.forget(),
            Err(_) => {},
        },
        Wait::Yields(n) => {
            for _ in 0..n {
                tokio::task::yield_now().await;
            }
        },
        Wait::Sleep(ms) => tokio::time::sleep(Duration::from_millis(ms)).await,
    }
    l.running[info.key].fetch_sub(1, Ordering::SeqCst);
    if let Some(tx) = last {
        let _ = tx.send(());
    }
    match info.kind {
        Kind::Ok => Ok(1000 + id),
        Kind::Err => Err(format!("boom-{id}")),
        Kind::Panic => panic!("task {id} panics (intended)"),
    }
}

struct Caller {
    name: String,
    key: usize,
    task: usize,
    /// this call was made strictly after every earlier call of its key had returned
    must_own: bool,
    handle: JoinHandle<(Res, bool)>,
}
struct Done {
    name: String,
    key: usize,
    task: usize,
    must_own: bool,
    res: Res,
    is_owner: bool,
}

fn spawn_caller(g: &G, l: &Arc<Ledger>, name: &str, key: usize, kind: Kind, wait: Wait, last: Option<oneshot::Sender<()>>) -> Caller {
    let (id, _) = l.new_task(key, kind);
    let (g, l2) = (g.clone(), l.clone());
    let handle = tokio::spawn(async move { g.work(&key_name(key), run_task(l2, id, wait, last)).await });
    Caller { name: name.to_string(), key, task: id, must_own: false, handle }
}

async fn collect(ctx: &str, callers: Vec<Caller>) -> Result<Vec<Done>, String> {
    let mut out = Vec::new();
    for c in callers {
        match timeout(CALLER_TIMEOUT, c.handle).await {
            Err(_) => {
                return Err(format!(
                    "{ctx}: caller {} of {:?} (supplied task {}) is still waiting after 10 s",
                    c.name,
                    key_name(c.key),
                    c.task
                ))
            },
            Ok(Err(e)) => return Err(format!("{ctx}: the call of caller {} of {:?} itself panicked / was cancelled: {e}", c.name, key_name(c.key))),
            Ok(Ok((res, is_owner))) => out.push(Done { name: c.name, key: c.key, task: c.task, must_own: c.must_own, res, is_owner }),
        }
    }
    Ok(out)
}

fn show(d: &Done) -> String {
    format!("{}=({:?}, owner: {})", d.name, d.res, d.is_owner)
}

/// the oracle of the header; `orphans` = tasks whose owner call was cancelled by the scenario (no record for them)
fn check(ctx: &str, l: &Ledger, done: &[Done], orphans: &[usize]) -> W {
    let all = || done.iter().map(show).collect::<Vec<_>>().join(", ");
    let tasks = l.tasks.lock().unwrap().clone();
    for (k, m) in l.max_running.iter().enumerate() {
        let m = m.load(Ordering::SeqCst);
        if m > 1 {
            let started: Vec<usize> = tasks.iter().enumerate().filter(|(_, t)| t.key == k && t.started.load(Ordering::SeqCst) > 0).map(|(i, _)| l.id_base + i).collect();
            return Err(format!("{ctx}: {m} tasks of {:?} were executing at the same time (tasks started for that key: {started:?}); callers: {}", key_name(k), all()));
        }
    }
    for (i, t) in tasks.iter().enumerate() {
        let n = t.started.load(Ordering::SeqCst);
        if n > 1 {
            return Err(format!("{ctx}: task {} was executed {n} times; callers: {}", l.id_base + i, all()));
        }
    }
    for d in done {
        if let Err(SingleflightError::CallMissing | SingleflightError::NoResult | SingleflightError::NoNotifierCreated) = &d.res {
            return Err(format!("{ctx}: caller {} got the internal error {:?} instead of the outcome of a task; callers: {}", d.name, d.res, all()));
        }
        let own = &tasks[d.task - l.id_base];
        let own_started = own.started.load(Ordering::SeqCst);
        if d.must_own && !d.is_owner {
            return Err(format!(
                "{ctx}: caller {} called {:?} after every earlier call of that key had returned, but did not start a new flight (its task {} ran {own_started} times): {}; callers: {}",
                d.name,
                key_name(d.key),
                d.task,
                show(d),
                all()
            ));
        }
        if d.is_owner {
            if own_started != 1 {
                return Err(format!("{ctx}: caller {} is reported as owner but its task {} was executed {own_started} times; callers: {}", d.name, d.task, all()));
            }
            let fine = match (own.kind, &d.res) {
                (Kind::Ok, Ok(v)) => *v == 1000 + d.task,
                (Kind::Err, Err(SingleflightError::InternalError(e))) => *e == format!("boom-{}", d.task),
                // HEAD hands the owner the cloned form too (the doc comment of `work` promises InternalError; the property
                // text only demands "that task's error", which the copy carries)
                (Kind::Err, Err(SingleflightError::WaiterInternalError(s))) => s.contains(&format!("boom-{}", d.task)),
                (Kind::Panic, Err(SingleflightError::JoinError(_) | SingleflightError::OwnerPanicked)) => true,
                _ => false,
            };
            if !fine {
                return Err(format!(
                    "{ctx}: owner {} ran its task {} ({:?}: value {}, error boom-{}) but received {:?}; callers: {}",
                    d.name,
                    d.task,
                    own.kind,
                    1000 + d.task,
                    d.task,
                    d.res,
                    all()
                ));
            }
        } else {
            if own_started != 0 {
                return Err(format!("{ctx}: caller {} is reported as non-owner but its own task {} was executed; callers: {}", d.name, d.task, all()));
            }
            let ran = |kind: Kind| tasks.iter().enumerate().filter(move |(_, t)| t.key == d.key && t.kind == kind && t.started.load(Ordering::SeqCst) > 0).map(|(i, _)| l.id_base + i);
            let fine = match &d.res {
                Ok(v) => ran(Kind::Ok).any(|t| 1000 + t == *v),
                Err(SingleflightError::WaiterInternalError(s)) => ran(Kind::Err).any(|t| s.contains(&format!("boom-{t}"))),
                Err(SingleflightError::InternalError(s)) => ran(Kind::Err).any(|t| *s == format!("boom-{t}")),
                Err(SingleflightError::OwnerPanicked | SingleflightError::JoinError(_)) => ran(Kind::Panic).next().is_some(),
                Err(_) => false,
            };
            if !fine {
                let started: Vec<usize> = tasks.iter().enumerate().filter(|(_, t)| t.key == d.key && t.started.load(Ordering::SeqCst) > 0).map(|(i, _)| l.id_base + i).collect();
                return Err(format!(
                    "{ctx}: waiter {} of {:?} received {:?}, which is not the outcome of any task executed for that key here (executed: {started:?}, value = 1000+id, error = boom-<id>); callers: {}",
                    d.name,
                    key_name(d.key),
                    d.res,
                    all()
                ));
            }
        }
    }
    // every executed task has an owner record (or was orphaned by the scenario)
    for (i, t) in tasks.iter().enumerate() {
        let id = l.id_base + i;
        if t.started.load(Ordering::SeqCst) > 0 && !orphans.contains(&id) && !done.iter().any(|d| d.task == id && d.is_owner) {
            return Err(format!("{ctx}: task {id} was executed but its caller is not reported as owner; callers: {}", all()));
        }
    }
    Ok(())
}

#[derive(Clone, Copy, PartialEq)]
enum Flavor {
    Current,
    Multi,
}
impl Flavor {
    fn name(self) -> &'static str {
        match self {
            Flavor::Current => "current_thread runtime",
            Flavor::Multi => "multi_thread runtime (4 workers)",
        }
    }
}
async fn settle(f: Flavor) {
    for _ in 0..60 {
        tokio::task::yield_now().await;
    }
    if f == Flavor::Multi {
        tokio::time::sleep(Duration::from_millis(25)).await;
        for _ in 0..10 {
            tokio::task::yield_now().await;
        }
    }
}
async fn wait_started(ctx: &str, l: &Ledger, n: usize) -> W {
    let t = Instant::now();
    while l.total_started() < n {
        if t.elapsed() > CALLER_TIMEOUT {
            return Err(format!("{ctx}: only {} of the expected {n} task(s) started after 10 s; the callers are still waiting after 10 s", l.total_started()));
        }
        tokio::task::yield_now().await;
        if t.elapsed() > Duration::from_millis(50) {
            tokio::time::sleep(Duration::from_millis(1)).await;
        }
    }
    Ok(())
}

/// runs one scenario on its own OS thread and runtime under the watchdog
fn run_on<F, Fut>(ctx: &str, flavor: Flavor, f: F) -> W
where
    F: FnOnce() -> Fut + Send + 'static,
    Fut: Future<Output = W> + Send + 'static,
{
    run_on_impl(ctx, flavor, true, f)
}
/// `on_workers == false`: the scenario body runs in `block_on` on the scenario thread itself (not on a runtime worker), so that
/// its wake-ups do not depend on a worker thread that the scenario blocks on purpose (scenario W)
fn run_on_impl<F, Fut>(ctx: &str, flavor: Flavor, on_workers: bool, f: F) -> W
where
    F: FnOnce() -> Fut + Send + 'static,
    Fut: Future<Output = W> + Send + 'static,
{
    let (tx, rx) = mpsc::channel();
    let spawned = std::thread::Builder::new().name("scenario".into()).spawn(move || {
        let rt = match flavor {
            Flavor::Current => tokio::runtime::Builder::new_current_thread().enable_all().build(),
            Flavor::Multi => tokio::runtime::Builder::new_multi_thread().worker_threads(4).enable_all().build(),
        };
        let rt = match rt {
            Ok(rt) => rt,
            Err(e) => infra(format!("runtime: {e}")),
        };
        let r = if on_workers { rt.block_on(async move { tokio::spawn(f()).await }).map_err(|e| e.to_string()) } else { Ok(rt.block_on(f())) };
        let _ = tx.send(r);
        rt.shutdown_background();
    });
    if let Err(e) = spawned {
        infra(format!("thread spawn: {e}"));
    }
    match rx.recv_timeout(WATCHDOG) {
        Ok(Ok(w)) => w,
        Ok(Err(e)) => infra(format!("{ctx}: the scenario code itself failed: {e}")),
        Err(_) => Err(format!(
            "{ctx}: the runtime is wedged - the scenario did not come back within 12 s, i.e. callers of the flight are still waiting after 10 s (their own 10 s timers could not even fire: a runtime thread is blocked)"
        )),
    }
}

// ---------------------------------------------------------------- J: N callers join one gated flight
async fn s_joiners(ctx: String, flavor: Flavor, n: usize, kind: Kind) -> W {
    let g: G = Arc::new(Group::new());
    let l = Ledger::new(1, 0);
    let gate = Arc::new(Semaphore::new(0));
    let mut callers = Vec::new();
    for i in 0..n {
        callers.push(spawn_caller(&g, &l, &format!("#{i}"), 0, kind, Wait::Gate(gate.clone()), None));
    }
    wait_started(&ctx, &l, 1).await?;
    settle(flavor).await;
    let started_before_release = l.total_started();
    gate.add_permits(n + 4);
    let done = collect(&ctx, callers).await?;
    check(&ctx, &l, &done, &[])?;
    if flavor == Flavor::Current {
        let owners = done.iter().filter(|d| d.is_owner).count();
        if started_before_release != 1 || l.total_started() != 1 || owners != 1 {
            return Err(format!(
                "{ctx}: all {n} callers were parked before the gate of the task opened, yet {} tasks were executed ({started_before_release} before the gate opened) and {owners} callers are reported as owner: {}",
                l.total_started(),
                done.iter().map(show).collect::<Vec<_>>().join(", ")
            ));
        }
    }
    // a later call of the same key: new flight, own outcome
    let ctx2 = format!("{ctx}; then, after all of them returned, one more call of the same key");
    let mut later = spawn_caller(&g, &l, "later", 0, Kind::Ok, Wait::None, None);
    later.must_own = true;
    let mut done2 = collect(&ctx2, vec![later]).await?;
    done2.extend(done);
    check(&ctx2, &l, &done2, &[])
}

// ---------------------------------------------------------------- L: late joiner between completion and removal
async fn s_late_joiner(ctx: String, flavor: Flavor) -> W {
    let g: G = Arc::new(Group::new());
    let l = Ledger::new(1, 0);
    let gate = Arc::new(Semaphore::new(0));
    let (wake_b, b_woken) = oneshot::channel::<()>();
    let (start_a, a_started) = oneshot::channel::<()>();
    // B parks on its channel, then calls work
    let (b_id, _) = l.new_task(0, Kind::Ok);
    let b = {
        let (g, l2, gate) = (g.clone(), l.clone(), gate.clone());
        let handle = tokio::spawn(async move {
            let _ = b_woken.await;
            g.work(&key_name(0), run_task(l2, b_id, Wait::Gate(gate), None)).await
        });
        Caller { name: "B(woken by A's task as its last step)".into(), key: 0, task: b_id, must_own: false, handle }
    };
    settle(flavor).await;
    let (a_id, _) = l.new_task(0, Kind::Ok);
    let a = {
        let (g, l2) = (g.clone(), l.clone());
        let handle = tokio::spawn(async move {
            let _ = a_started.await;
            g.work(&key_name(0), run_task(l2, a_id, Wait::Yields(1), Some(wake_b))).await
        });
        Caller { name: "A(first owner)".into(), key: 0, task: a_id, must_own: true, handle }
    };
    let _ = start_a.send(());
    let mut done = collect(&ctx, vec![a]).await?;
    settle(flavor).await;
    let c = spawn_caller(&g, &l, "C(after A returned)", 0, Kind::Ok, Wait::Gate(gate.clone()), None);
    settle(flavor).await;
    let mut rest = vec![b, c];
    for i in 0..2 {
        rest.push(spawn_caller(&g, &l, &format!("late{i}"), 0, Kind::Ok, Wait::Gate(gate.clone()), None));
        settle(flavor).await;
    }
    for _ in 0..8 {
        gate.add_permits(1);
        settle(flavor).await;
    }
    done.extend(collect(&ctx, rest).await?);
    check(&ctx, &l, &done, &[])
}

// ---------------------------------------------------------------- Q: sequential flights
async fn s_sequential(ctx: String, _flavor: Flavor) -> W {
    let g: G = Arc::new(Group::new());
    let l = Ledger::new(2, 0);
    let mut done = Vec::new();
    let kinds = [Kind::Ok, Kind::Err, Kind::Panic, Kind::Ok, Kind::Panic, Kind::Err, Kind::Ok];
    for (i, kind) in kinds.iter().enumerate() {
        for key in [0usize, 1] {
            if key == 1 && i % 2 == 1 {
                continue;
            }
            let step = format!("{ctx}: sequential calls, each awaited before the next; call {i} ({kind:?} task) on {:?}", key_name(key));
            let mut c = spawn_caller(&g, &l, &format!("seq{i}/{}", key_name(key)), key, if key == 0 { *kind } else { Kind::Ok }, Wait::Yields(2), None);
            c.must_own = true;
            done.extend(collect(&step, vec![c]).await?);
            check(&step, &l, &done, &[])?;
        }
    }
    Ok(())
}

// ---------------------------------------------------------------- A: the owner caller is aborted mid-flight
async fn s_owner_aborted(ctx: String, flavor: Flavor) -> W {
    let g: G = Arc::new(Group::new());
    let l = Ledger::new(1, 0);
    let gate = Arc::new(Semaphore::new(0));
    let owner = spawn_caller(&g, &l, "owner(aborted)", 0, Kind::Ok, Wait::Gate(gate.clone()), None);
    wait_started(&ctx, &l, 1).await?;
    let mut waiters = Vec::new();
    for i in 0..3 {
        waiters.push(spawn_caller(&g, &l, &format!("waiter{i}"), 0, Kind::Ok, Wait::Gate(gate.clone()), None));
    }
    settle(flavor).await;
    owner.handle.abort();
    let _ = timeout(CALLER_TIMEOUT, owner.handle).await;
    settle(flavor).await;
    gate.add_permits(8);
    let done = collect(&format!("{ctx}; gate opened after the abort"), waiters).await?;
    // what the property does say: the waiters of that flight get the outcome of the one task started for it; nothing runs twice
    // or concurrently.  A waiter that was promoted to run its own task would also be acceptable, so the general oracle is used
    // with the aborted owner's task as an orphan.
    check(&ctx, &l, &done, &[owner.task])?;
    // later callers: must come back; what they get is not judged (see header)
    let later = spawn_caller(&g, &l, "later", 0, Kind::Ok, Wait::None, None);
    let done2 = collect(&format!("{ctx}; a later call of the same key"), vec![later]).await?;
    eprintln!("note [{ctx}]: waiters: {}; later call: {}", done.iter().map(show).collect::<Vec<_>>().join(", "), show(&done2[0]));
    if l.max_running[0].load(Ordering::SeqCst) > 1 {
        return Err(format!("{ctx}: two tasks of the key were executing at the same time after the later call"));
    }
    Ok(())
}

// ---------------------------------------------------------------- K: many keys
async fn s_many_keys(ctx: String, _flavor: Flavor, seed: u64) -> W {
    const KEYS: usize = 12;
    const CALLERS: usize = 5;
    let g: G = Arc::new(Group::new());
    let mut rng = Rng(splitmix(seed ^ 0x4B));
    for wave in 0..3 {
        let l = Ledger::new(KEYS, 10_000 * (wave + 1));
        let mut callers = Vec::new();
        for c in 0..CALLERS {
            for k in 0..KEYS {
                let wait = match rng.below(4) {
                    0 => Wait::None,
                    1 => Wait::Yields(rng.below(5) as u32),
                    _ => Wait::Sleep(1 + rng.below(4)),
                };
                let kind = match rng.below(8) {
                    0 => Kind::Err,
                    1 => Kind::Panic,
                    _ => Kind::Ok,
                };
                callers.push(spawn_caller(&g, &l, &format!("w{wave}c{c}/{}", key_name(k)), k, kind, wait, None));
            }
            if rng.below(2) == 0 {
                tokio::task::yield_now().await;
            }
        }
        let step = format!("{ctx}: {KEYS} keys x {CALLERS} callers, wave {wave} (all earlier waves returned)");
        let done = collect(&step, callers).await?;
        check(&step, &l, &done, &[])?;
    }
    Ok(())
}

// ---------------------------------------------------------------- S: random arrivals around the completion instant
async fn s_stress(ctx: String, flavor: Flavor, seed: u64, budget: Duration) -> W {
    let g: G = Arc::new(Group::new());
    let mut rng = Rng(splitmix(seed ^ 0x57));
    let t = Instant::now();
    let mut round = 0usize;
    while t.elapsed() < budget {
        let l = Ledger::new(1, 100 * (round + 1));
        let task_yields = rng.below(6) as u32;
        let n = 2 + rng.below(5) as usize;
        let mut callers = Vec::new();
        let mut plan = Vec::new();
        for i in 0..n {
            let delay = rng.below(10) as u32;
            plan.push(delay);
            let (id, _) = l.new_task(0, Kind::Ok);
            let (g2, l2) = (g.clone(), l.clone());
            let handle = tokio::spawn(async move {
                for _ in 0..delay {
                    tokio::task::yield_now().await;
                }
                g2.work(&key_name(0), run_task(l2, id, Wait::Yields(task_yields), None)).await
            });
            callers.push(Caller { name: format!("r{round}#{i}"), key: 0, task: id, must_own: false, handle });
        }
        let step = format!(
            "{ctx}: round {round} on one Group (all callers of earlier rounds returned): {n} callers of one key arriving after {plan:?} yields, every task takes {task_yields} yields"
        );
        let done = collect(&step, callers).await?;
        check(&step, &l, &done, &[])?;
        round += 1;
        if flavor == Flavor::Current && round >= 4000 {
            break;
        }
    }
    eprintln!("S [{ctx}]: {round} rounds");
    Ok(())
}

// ---------------------------------------------------------------- N: remaining entry points, key shapes, nesting
async fn s_entry_points(ctx: String, flavor: Flavor) -> W {
    let g: G = Arc::new(Group::default());
    let t = |what: &str| format!("{ctx}: {what}");
    // work_dump_caller_info: value, error, panic; empty and very long keys
    let long_key = "k".repeat(2000);
    for key in ["", "a", long_key.as_str()] {
        let shown = if key.len() > 10 { format!("<{} characters>", key.len()) } else { format!("{key:?}") };
        match timeout(CALLER_TIMEOUT, g.work_dump_caller_info(key, async { Ok::<usize, String>(7) })).await {
            Ok(Ok(7)) => {},
            Ok(other) => return Err(t(&format!("work_dump_caller_info(key {shown}, task returning 7) returned {other:?}"))),
            Err(_) => return Err(t(&format!("work_dump_caller_info(key {shown}) is still waiting after 10 s"))),
        }
        match timeout(CALLER_TIMEOUT, g.work_dump_caller_info(key, async { Err::<usize, String>("boom-x".into()) })).await {
            Ok(Err(SingleflightError::InternalError(e))) if e == "boom-x" => {},
            Ok(Err(SingleflightError::WaiterInternalError(e))) if e.contains("boom-x") => {},
            Ok(other) => return Err(t(&format!("work_dump_caller_info(key {shown}, task failing with boom-x) returned {other:?}"))),
            Err(_) => return Err(t(&format!("work_dump_caller_info(key {shown}, failing task) is still waiting after 10 s"))),
        }
        match timeout(CALLER_TIMEOUT, g.work_dump_caller_info(key, async { if true { panic!("task panics (intended)") } else { Ok::<usize, String>(0) } })).await {
            Ok(Err(SingleflightError::JoinError(_) | SingleflightError::OwnerPanicked)) => {},
            Ok(other) => return Err(t(&format!("work_dump_caller_info(key {shown}, panicking task) returned {other:?}"))),
            Err(_) => return Err(t(&format!("work_dump_caller_info(key {shown}, panicking task) is still waiting after 10 s"))),
        }
        match timeout(CALLER_TIMEOUT, g.work(key, async { Ok::<usize, String>(8) })).await {
            Ok((Ok(8), true)) => {},
            Ok(other) => return Err(t(&format!("after three finished flights on key {shown}, a further work(task returning 8) returned {other:?} (expected its own value as owner)"))),
            Err(_) => return Err(t(&format!("work(key {shown}) after three finished flights is still waiting after 10 s"))),
        }
    }
    // keys that are prefixes of each other, in flight together
    let gate = Arc::new(Semaphore::new(0));
    let started = Arc::new(AtomicUsize::new(0));
    let mut handles = Vec::new();
    for (i, key) in ["", "a", "ab", "ab ", "AB"].into_iter().enumerate() {
        for c in 0..3usize {
            let (g, gate, started) = (g.clone(), gate.clone(), started.clone());
            handles.push((key, i, tokio::spawn(async move {
                g.work(key, async move {
                    started.fetch_add(1, Ordering::SeqCst);
                    if let Ok(p) = gate.acquire().await { p.forget(); }
                    Ok::<usize, String>(100 * i + c)
                }).await
            })));
        }
    }
    let t0 = Instant::now();
    while started.load(Ordering::SeqCst) < 5 && t0.elapsed() < CALLER_TIMEOUT {
        tokio::task::yield_now().await;
        if t0.elapsed() > Duration::from_millis(50) { tokio::time::sleep(Duration::from_millis(1)).await; }
    }
    settle(flavor).await;
    let started_before = started.load(Ordering::SeqCst);
    gate.add_permits(64);
    let mut owners = [0usize; 5];
    for (key, i, h) in handles {
        match timeout(CALLER_TIMEOUT, h).await {
            Err(_) => return Err(t(&format!("keys \"\", \"a\", \"ab\", \"ab \", \"AB\" in flight together, 3 callers each: a caller of key {key:?} is still waiting after 10 s"))),
            Ok(Err(e)) => return Err(t(&format!("a caller of key {key:?} panicked: {e}"))),
            Ok(Ok((Ok(v), owner))) if v / 100 == i => owners[i] += owner as usize,
            Ok(Ok(other)) => return Err(t(&format!("keys \"\", \"a\", \"ab\", \"ab \", \"AB\" in flight together (tasks of key #i return 100*i + caller): a caller of key #{i} {key:?} received {other:?}"))),
        }
    }
    if flavor == Flavor::Current && (started_before != 5 || owners != [1; 5]) {
        return Err(t(&format!("five distinct keys with 3 parked callers each: {started_before} tasks were started before the gate opened, owners per key {owners:?} (expected one each)")));
    }
    // a WAITER (not the owner) is cancelled mid-flight: the owner and the other waiter are unaffected, the key is free afterwards
    {
        let gate = Arc::new(Semaphore::new(0));
        let runs = Arc::new(AtomicUsize::new(0));
        let mk = |val: usize| {
            let (g, gate, runs) = (g.clone(), gate.clone(), runs.clone());
            tokio::spawn(async move {
                g.work("cancel", async move {
                    runs.fetch_add(1, Ordering::SeqCst);
                    if let Ok(p) = gate.acquire().await { p.forget(); }
                    Ok::<usize, String>(val)
                }).await
            })
        };
        let owner = mk(600);
        let t0 = Instant::now();
        while runs.load(Ordering::SeqCst) < 1 && t0.elapsed() < CALLER_TIMEOUT {
            tokio::task::yield_now().await;
            if t0.elapsed() > Duration::from_millis(50) { tokio::time::sleep(Duration::from_millis(1)).await; }
        }
        let (w1, w2) = (mk(601), mk(602));
        settle(flavor).await;
        w1.abort();
        let _ = timeout(CALLER_TIMEOUT, w1).await;
        settle(flavor).await;
        gate.add_permits(8);
        let what = "owner + two waiters parked on a gated task of key \"cancel\", one WAITER call is aborted, the gate opens";
        for (name, h) in [("the owner", owner), ("the remaining waiter", w2)] {
            match timeout(CALLER_TIMEOUT, h).await {
                Err(_) => return Err(t(&format!("{what}: {name} is still waiting after 10 s"))),
                Ok(Err(e)) => return Err(t(&format!("{what}: {name} panicked: {e}"))),
                Ok(Ok((Ok(v), _))) if (flavor == Flavor::Multi && (600..=602).contains(&v)) || v == 600 => {},
                Ok(Ok(other)) => return Err(t(&format!("{what}: {name} received {other:?} (the owner's task returns 600)"))),
            }
        }
        match timeout(CALLER_TIMEOUT, g.work("cancel", async { Ok::<usize, String>(603) })).await {
            Ok((Ok(603), true)) => {},
            Ok(other) => return Err(t(&format!("{what}; everybody returned; a later call of the key received {other:?} instead of its own value as owner"))),
            Err(_) => return Err(t(&format!("{what}; a later call of the key is still waiting after 10 s"))),
        }
    }
    // nesting on the same group
    let inner_runs = Arc::new(AtomicUsize::new(0));
    let mk_outer = |val: usize| {
        let (g2, inner_runs) = (g.clone(), inner_runs.clone());
        async move {
            tokio::task::yield_now().await;
            let (r, _) = g2.work("inner", async move {
                inner_runs.fetch_add(1, Ordering::SeqCst);
                tokio::task::yield_now().await;
                Ok::<usize, String>(40)
            }).await;
            r.map(|v| v + val).map_err(|e| format!("{e:?}"))
        }
    };
    let a = { let (g, f) = (g.clone(), mk_outer(1)); tokio::spawn(async move { g.work("outer", f).await }) };
    let b = { let (g, f) = (g.clone(), mk_outer(2)); tokio::spawn(async move { g.work("outer", f).await }) };
    let c = { let g = g.clone(); tokio::spawn(async move { g.work("inner", async { Ok::<usize, String>(50) }).await }) };
    let mut got = Vec::new();
    for (name, h) in [("outer caller 1", a), ("outer caller 2", b), ("direct inner caller", c)] {
        match timeout(CALLER_TIMEOUT, h).await {
            Err(_) => return Err(t(&format!("the task of key \"outer\" calls work(\"inner\") on the same group while a second caller joins \"outer\" and a third calls \"inner\" directly: {name} is still waiting after 10 s"))),
            Ok(Err(e)) => return Err(t(&format!("nesting: {name} panicked: {e}"))),
            Ok(Ok(r)) => got.push((name, r)),
        }
    }
    for (name, (r, _owner)) in &got {
        let fine = match (name, r) {
            (&"direct inner caller", Ok(v)) => *v == 40 || *v == 50,
            (_, Ok(v)) => [41usize, 42, 51, 52].contains(v),
            _ => false,
        };
        if !fine {
            return Err(t(&format!("nesting (outer = inner + 1 or + 2, inner = 40 or 50): {name} received {r:?}; all: {got:?}")));
        }
    }
    if got[0].1 .0.as_ref().ok() != got[1].1 .0.as_ref().ok() && !(got[0].1 .1 && got[1].1 .1) {
        return Err(t(&format!("nesting: the two callers of \"outer\" received different values although they are not both owners: {got:?}")));
    }
    Ok(())
}

// ---------------------------------------------------------------- W: forced window between the empty-slot check and the registration
async fn s_forced_window(ctx: String) -> W {
    let st = hook();
    let (tx, in_window) = oneshot::channel();
    *st.in_window.lock().unwrap() = Some(tx);
    *st.completed.lock().unwrap() = false;
    st.completed_inside_window.store(false, Ordering::SeqCst);
    let g: G = Arc::new(Group::new());
    let l = Ledger::new(1, 0);
    let gate = Arc::new(Semaphore::new(0));
    let owner = spawn_caller(&g, &l, "owner", 0, Kind::Ok, Wait::Gate(gate.clone()), None);
    wait_started(&ctx, &l, 1).await?;
    settle(Flavor::Multi).await;
    st.armed.store(true, Ordering::SeqCst);
    let waiter = spawn_caller(&g, &l, "waiter(paused inside get_future by the log event 'Adding to Call's Notify')", 0, Kind::Ok, Wait::None, None);
    if timeout(Duration::from_secs(2), in_window).await.is_err() {
        st.armed.store(false, Ordering::SeqCst);
        eprintln!("note [{ctx}]: the event 'Adding to Call's Notify' was not emitted; scenario W degenerates to a plain join");
    }
    gate.add_permits(4);
    let done = collect(&ctx, vec![waiter, owner]).await?;
    eprintln!(
        "note [{ctx}]: owner completed while the waiter sat between check and registration: {}",
        st.completed_inside_window.load(Ordering::SeqCst)
    );
    check(&ctx, &l, &done, &[])
}

fn run(seed: u64) -> W {
    let only = std::env::var("VERIF_C20_ONLY").unwrap_or_default();
    let on = |name: &str| only.is_empty() || only.split(',').any(|s| s.trim() == name);
    let t0 = Instant::now();
    // seed-dependent order of the two logging configurations; both always run
    let configs = if seed % 2 == 0 { [false, true] } else { [true, false] };
    for debug in configs {
        hook().debug_on.store(debug, Ordering::SeqCst);
        let log = if debug { "DEBUG-level tracing subscriber enabled" } else { "no tracing level enabled" };
        for flavor in [Flavor::Current, Flavor::Multi] {
            let base = format!("{}, {log}", flavor.name());
            if on("J") {
                for kind in [Kind::Ok, Kind::Err, Kind::Panic] {
                    for n in [1usize, 2, 8, 40 + (seed % 7) as usize] {
                        if kind != Kind::Ok && n > 8 {
                            continue;
                        }
                        let ctx = format!("J [{base}]: {n} callers of one key started while the task ({kind:?}) waits at a gate");
                        let c2 = ctx.clone();
                        run_on(&ctx, flavor, move || s_joiners(c2, flavor, n, kind))?;
                    }
                }
            }
            if on("L") {
                let ctx = format!(
                    "L [{base}]: A owns flight 1; A's task wakes B as its last step (B calls work after the task completed, before A is re-polled); A returns; C calls; two more callers; gated tasks released one by one"
                );
                let c2 = ctx.clone();
                run_on(&ctx, flavor, move || s_late_joiner(c2, flavor))?;
            }
            if on("Q") {
                let ctx = format!("Q [{base}]");
                let c2 = ctx.clone();
                run_on(&ctx, flavor, move || s_sequential(c2, flavor))?;
            }
            if on("A") {
                let ctx = format!("A [{base}]: owner call + 3 waiters parked on a gated task, the owner CALL is aborted");
                let c2 = ctx.clone();
                run_on(&ctx, flavor, move || s_owner_aborted(c2, flavor))?;
            }
            if on("K") {
                let ctx = format!("K [{base}]");
                let c2 = ctx.clone();
                run_on(&ctx, flavor, move || s_many_keys(c2, flavor, seed))?;
            }
            if on("N") {
                let ctx = format!("N [{base}]");
                let c2 = ctx.clone();
                run_on(&ctx, flavor, move || s_entry_points(c2, flavor))?;
            }
            if on("S") {
                let ctx = format!("S [{base}], seed {seed}");
                let c2 = ctx.clone();
                run_on(&ctx, flavor, move || s_stress(c2, flavor, seed, Duration::from_millis(600)))?;
            }
        }
        eprintln!("configuration '{log}' done at {:?}", t0.elapsed());
    }
    if on("W") {
        hook().debug_on.store(true, Ordering::SeqCst);
        for rep in 0..2 {
            let ctx = format!(
                "W [multi_thread runtime (4 workers), DEBUG-level tracing subscriber enabled, repetition {rep}]: owner's task gated; a waiter is held for up to 400 ms between seeing the empty result slot and registering with the notifier while the task is released"
            );
            let c2 = ctx.clone();
            run_on_impl(&ctx, Flavor::Multi, false, move || s_forced_window(c2))?;
        }
        hook().debug_on.store(false, Ordering::SeqCst);
    }
    eprintln!("all done at {:?}", t0.elapsed());
    Ok(())
}

fn main() {
    let seed: u64 = std::env::var("VERIF_SEED").ok().and_then(|s| s.parse().ok()).unwrap_or(0);
    // the intended task panics are not interesting on stderr
    std::panic::set_hook(Box::new(|info| {
        let s = info.to_string();
        if !s.contains("(intended)") {
            eprintln!("panic: {s}");
        }
    }));
    if tracing::subscriber::set_global_default(Hook).is_err() {
        infra("could not install the tracing subscriber".into());
    }
    match run(seed) {
        Ok(()) => println!("no violation found"),
        Err(w) => {
            println!("WITNESS {}", w.replace('\n', " "));
            std::process::exit(1);
        },
    }
}
