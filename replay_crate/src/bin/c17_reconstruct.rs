//! Witness search for C17: the REAL cas_client::RemoteClient::{reconstruct_file_to_writer, reconstruct_file_to_writer_parallel}
//! against the oracle "output == slice [first-term offset, +length) of the concatenated term data, reported length == bytes
//! written == requested length", on generated reconstruction plans served by an in-process blob store (a tiny HTTP/1.1 server that
//! answers `Range: bytes=a-b` requests from in-memory xorbs, with an optional per-xorb response delay to force completion orders).
//!   * plans of 1..40 terms over 1..6 xorbs, repeated xorbs, chunks of 1..3000 position-dependent bytes (stored raw or LZ4), fetch
//!     ranges equal to / larger than the terms (term trimmed inside the fetched range), several fetch ranges per xorb (distinct urls,
//!     and one url with different url_ranges), non-adjacent ranges of one xorb requested concurrently;
//!   * requests: whole file, single bytes, ranges starting / ending mid-term and at term borders, with the term list cut to the
//!     range (first-term offset) or left longer than the range;
//!   * both writers; chunk cache off, cold (fills the cache) and warm (second run must equal the first); a slow first term so that
//!     later terms complete first; output file fresh or pre-filled with LONGER stale content (pinned behaviour of HEAD: the expected
//!     bytes followed by the untouched stale tail - the writers never truncate);
//!   * big plans served warm from the real on-disk chunk cache into /dev/null: just below 2^32 bytes, exactly 2^32, above 2^32, and a
//!     ranged request of more than 2^32 bytes starting mid-term; reported length for both writers, and for one plan the bytes around
//!     the 4 GiB mark in a real (temporary) output file.
//! Prints `WITNESS ...` and exits 1 on the first violation.
use std::collections::HashMap;
use std::io::{BufRead, BufReader, Read, Seek, SeekFrom, Write};
use std::net::{TcpListener, TcpStream};
use std::path::PathBuf;
use std::sync::{Arc, Mutex};
use std::time::Duration;

use cas_client::remote_client::PREFIX_DEFAULT;
use cas_client::{CacheConfig, FileProvider, OutputProvider, RemoteClient};
use cas_object::{serialize_chunk, CompressionScheme};
use cas_client::ReconstructionClient;
use cas_types::{CASReconstructionFetchInfo, CASReconstructionTerm, ChunkRange, FileRange, HexMerkleHash, HttpRange, Key, QueryReconstructionResponse};
use merklehash::{compute_data_hash, MerkleHash};
use rand::rngs::StdRng;
use rand::{Rng, SeedableRng};
use xet_threadpool::ThreadPool;

fn witness(msg: String) -> ! {
    println!("WITNESS {msg}");
    std::process::exit(1);
}

// ---------------------------------------------------------------------------------------------------------------------------------
// blob store
// ---------------------------------------------------------------------------------------------------------------------------------

#[derive(Default)]
struct Store {
    blobs: HashMap<String, Arc<Vec<u8>>>, // path -> serialized chunk section of a xorb
    delay_ms: HashMap<String, u64>,
    hits: usize,
    /// CAS reconstruction endpoint: file hash (hex) -> the file's terms (with their lengths) and fetch info
    files: HashMap<String, (Vec<CASReconstructionTerm>, HashMap<HexMerkleHash, Vec<CASReconstructionFetchInfo>>)>,
    /// misbehaviour of the blob store for a path
    faults: HashMap<String, StoreFault>,
    /// the batch reconstruction endpoint leaves this file (hex) out of its answer
    batch_omits: Option<String>,
}

#[derive(Clone, Copy, Debug, PartialEq)]
enum StoreFault {
    /// the start of the range is ignored: bytes 0..=b are served (Content-Length says so)
    IgnoresRangeStart,
    /// the answer stops `n` bytes early (Content-Length says so)
    Short(usize),
    /// the right bytes, but chunked transfer encoding (no Content-Length)
    NoContentLength,
}

/// What a CAS server answers for a (ranged) reconstruction query: the terms overlapping [start, end) and the offset of `start` in
/// the first of them.
fn reconstruction_json(terms: &[CASReconstructionTerm], fetch: &HashMap<HexMerkleHash, Vec<CASReconstructionFetchInfo>>, range: Option<(u64, u64)>) -> Option<String> {
    let total: u64 = terms.iter().map(|t| t.unpacked_length as u64).sum();
    let (start, end) = range.map(|(a, b)| (a, (b + 1).min(total))).unwrap_or((0, total));
    if start >= end && total > 0 {
        return None;
    }
    let mut listed = vec![];
    let mut offset = 0;
    let mut pos = 0u64;
    for t in terms {
        let t_end = pos + t.unpacked_length as u64;
        if t_end > start && pos < end {
            if listed.is_empty() {
                offset = start - pos;
            }
            listed.push(t.clone());
        }
        pos = t_end;
    }
    let used: std::collections::HashSet<HexMerkleHash> = listed.iter().map(|t| t.hash).collect();
    let response = QueryReconstructionResponse { offset_into_first_range: offset, terms: listed, fetch_info: fetch.iter().filter(|(h, _)| used.contains(h)).map(|(h, v)| (*h, v.clone())).collect() };
    serde_json::to_string(&response).ok()
}

fn serve(mut stream: TcpStream, store: Arc<Mutex<Store>>) {
    let _ = stream.set_nodelay(true);
    let mut reader = BufReader::new(stream.try_clone().unwrap());
    loop {
        let mut request_line = String::new();
        if reader.read_line(&mut request_line).unwrap_or(0) == 0 {
            return;
        }
        let mut range: Option<(usize, usize)> = None;
        loop {
            let mut line = String::new();
            if reader.read_line(&mut line).unwrap_or(0) == 0 {
                return;
            }
            let l = line.trim();
            if l.is_empty() {
                break;
            }
            let lower = l.to_ascii_lowercase();
            if let Some(v) = lower.strip_prefix("range:") {
                // blob store requests say "bytes=a-b", the reconstruction endpoint is asked with a bare "a-b"
                let v = v.trim();
                if let Some((a, b)) = v.strip_prefix("bytes=").unwrap_or(v).split_once('-') {
                    if let (Ok(a), Ok(b)) = (a.parse(), b.parse()) {
                        range = Some((a, b));
                    }
                }
            }
        }
        let target = request_line.split_whitespace().nth(1).unwrap_or("/").to_string();
        let path = target.split('?').next().unwrap_or("/").to_string();
        if path == "/reconstructions" {
            // batch query: /reconstructions?file_id=<hex>&file_id=<hex>...
            let ids: Vec<String> = target.split('?').nth(1).unwrap_or("").split('&').filter_map(|kv| kv.strip_prefix("file_id=")).map(|v| v.to_string()).collect();
            let json = {
                let s = store.lock().unwrap();
                let mut files = HashMap::new();
                let mut fetch_info: HashMap<HexMerkleHash, Vec<CASReconstructionFetchInfo>> = HashMap::new();
                let mut known = true;
                for id in &ids {
                    if s.batch_omits.as_deref() == Some(id.as_str()) {
                        continue;
                    }
                    match (s.files.get(id), MerkleHash::from_hex(id)) {
                        (Some((terms, fetch)), Ok(h)) => {
                            files.insert(HexMerkleHash::from(h), terms.clone());
                            for (k, v) in fetch { fetch_info.entry(*k).or_default().extend(v.iter().cloned()); }
                        },
                        _ => known = false,
                    }
                }
                if known { serde_json::to_string(&cas_types::BatchQueryReconstructionResponse { files, fetch_info }).ok() } else { None }
            };
            let (status, body) = match json { Some(j) => ("200 OK", j), None => ("404 Not Found", "{}".to_string()) };
            let response = format!("HTTP/1.1 {status}\r\nContent-Length: {}\r\nContent-Type: application/json\r\n\r\n{body}", body.len());
            if stream.write_all(response.as_bytes()).is_err() {
                return;
            }
            continue;
        }
        if let Some(file) = path.strip_prefix("/reconstruction/") {
            let json = {
                let s = store.lock().unwrap();
                s.files.get(file).and_then(|(terms, fetch)| reconstruction_json(terms, fetch, range.map(|(a, b)| (a as u64, b as u64))))
            };
            let (status, body) = match json { Some(j) => ("200 OK", j), None => ("404 Not Found", "{}".to_string()) };
            let response = format!("HTTP/1.1 {status}\r\nContent-Length: {}\r\nContent-Type: application/json\r\n\r\n{body}", body.len());
            if stream.write_all(response.as_bytes()).is_err() {
                return;
            }
            continue;
        }
        let (blob, delay, fault) = {
            let mut s = store.lock().unwrap();
            s.hits += 1;
            (s.blobs.get(&path).cloned(), s.delay_ms.get(&path).copied().unwrap_or(0), s.faults.get(&path).copied())
        };
        if let (Some(b), Some((a, e)), Some(f)) = (&blob, range, fault) {
            if a <= e && e < b.len() {
                let response = match f {
                    StoreFault::IgnoresRangeStart => { let body = &b[0..=e]; let mut r = format!("HTTP/1.1 206 Partial Content\r\nContent-Length: {}\r\n\r\n", body.len()).into_bytes(); r.extend_from_slice(body); r },
                    StoreFault::Short(n) => { let body = &b[a..=e.saturating_sub(n).max(a)]; let mut r = format!("HTTP/1.1 206 Partial Content\r\nContent-Length: {}\r\n\r\n", body.len()).into_bytes(); r.extend_from_slice(body); r },
                    StoreFault::NoContentLength => { let body = &b[a..=e]; let mut r = format!("HTTP/1.1 206 Partial Content\r\nTransfer-Encoding: chunked\r\n\r\n{:x}\r\n", body.len()).into_bytes(); r.extend_from_slice(body); r.extend_from_slice(b"\r\n0\r\n\r\n"); r },
                };
                if stream.write_all(&response).is_err() {
                    return;
                }
                continue;
            }
        }
        if delay > 0 {
            std::thread::sleep(Duration::from_millis(delay));
        }
        let (status, body): (&str, Vec<u8>) = match (blob, range) {
            (Some(b), Some((a, e))) if a <= e && e < b.len() => ("206 Partial Content", b[a..=e].to_vec()),
            (Some(b), None) => ("200 OK", b.to_vec()),
            (Some(_), Some(_)) => ("416 Range Not Satisfiable", vec![]),
            (None, _) => ("404 Not Found", vec![]),
        };
        let head = format!("HTTP/1.1 {status}\r\nContent-Length: {}\r\nContent-Type: application/octet-stream\r\n\r\n", body.len());
        let mut response = head.into_bytes();
        response.extend_from_slice(&body);
        if stream.write_all(&response).is_err() {
            return;
        }
    }
}

fn start_store() -> (String, Arc<Mutex<Store>>) {
    let listener = TcpListener::bind("127.0.0.1:0").unwrap();
    let base = format!("http://{}", listener.local_addr().unwrap());
    let store = Arc::new(Mutex::new(Store::default()));
    let s2 = store.clone();
    std::thread::spawn(move || {
        for conn in listener.incoming().flatten() {
            let s = s2.clone();
            std::thread::spawn(move || serve(conn, s));
        }
    });
    (base, store)
}

// ---------------------------------------------------------------------------------------------------------------------------------
// plans
// ---------------------------------------------------------------------------------------------------------------------------------

struct Xorb {
    hash: MerkleHash,
    path: String,
    chunks: Vec<Vec<u8>>,
    stored_end: Vec<usize>, // end offset of every chunk in the serialized chunk section
}

struct Plan {
    name: String,
    xorbs: Vec<Xorb>,
    terms: Vec<(usize, u32, u32)>, // (xorb, chunk start, chunk end)
    fetch: HashMap<HexMerkleHash, Vec<CASReconstructionFetchInfo>>,
}

fn chunk_bytes(plan_id: u64, x: usize, i: usize, len: usize) -> Vec<u8> {
    // position-dependent, different for every (plan, xorb, chunk)
    let mut s = (plan_id << 32) ^ ((x as u64) << 20) ^ (i as u64) ^ 0x9E37_79B9_7F4A_7C15;
    (0..len).map(|_| { s ^= s << 13; s ^= s >> 7; s ^= s << 17; (s >> 32) as u8 }).collect()
}

impl Plan {
    fn term_data(&self, t: usize) -> Vec<u8> {
        let (x, a, b) = self.terms[t];
        self.xorbs[x].chunks[a as usize..b as usize].concat()
    }
    fn api_terms(&self, from: usize, to: usize) -> Vec<CASReconstructionTerm> {
        (from..to)
            .map(|t| {
                let (x, a, b) = self.terms[t];
                CASReconstructionTerm { hash: self.xorbs[x].hash.into(), unpacked_length: self.term_data(t).len() as u32, range: ChunkRange { start: a, end: b } }
            })
            .collect()
    }
    fn describe(&self) -> String {
        let t: Vec<String> = self.terms.iter().take(12).map(|(x, a, b)| format!("x{x}[{a},{b})")).collect();
        let lens: Vec<usize> = (0..self.terms.len().min(12)).map(|t| self.term_data(t).len()).collect();
        format!("plan '{}': {} terms {}{} of {:?}.. bytes over {} xorbs", self.name, self.terms.len(), t.join(" "), if self.terms.len() > 12 { " .." } else { "" }, lens, self.xorbs.len())
    }
}

#[derive(Clone, Copy, PartialEq, Debug)]
enum FetchStyle {
    WholeXorb,
    ExactDistinctUrls,
    ExactSameUrl,
    Widened,
}

fn make_plan(rng: &mut StdRng, base: &str, store: &Arc<Mutex<Store>>, plan_id: u64, name: &str, n_xorbs: usize, n_terms: usize, style: FetchStyle, equal_chunks: bool) -> Plan {
    let mut xorbs = vec![];
    for x in 0..n_xorbs {
        let n_chunks = rng.random_range(4..24usize);
        let mut chunks = vec![];
        let mut blob = vec![];
        let mut stored_end = vec![];
        for i in 0..n_chunks {
            let len = if equal_chunks { 512 } else { match rng.random_range(0..6) { 0 => 1, 1 => rng.random_range(2..20), _ => rng.random_range(100..3000) } };
            let mut c = chunk_bytes(plan_id, x, i, len);
            let scheme = if i % 3 == 1 { for b in c.iter_mut().skip(8) { *b &= 0x03; } CompressionScheme::LZ4 } else { CompressionScheme::None };
            serialize_chunk(&c, &mut blob, Some(scheme)).unwrap();
            stored_end.push(blob.len());
            chunks.push(c);
        }
        let hash = compute_data_hash(format!("plan {plan_id} xorb {x}").as_bytes());
        let path = format!("/xorbs/p{plan_id}x{x}");
        store.lock().unwrap().blobs.insert(path.clone(), Arc::new(blob));
        xorbs.push(Xorb { hash, path, chunks, stored_end });
    }
    let mut terms: Vec<(usize, u32, u32)> = vec![];
    for t in 0..n_terms {
        let x = if t > 0 && rng.random_range(0..4) == 0 { terms[t - 1].0 } else { rng.random_range(0..n_xorbs) };
        let n = xorbs[x].chunks.len() as u32;
        let a = rng.random_range(0..n);
        let b = if rng.random_range(0..4) == 0 { a + 1 } else { rng.random_range(a + 1..=n) };
        terms.push((x, a, b));
    }
    let mut plan = Plan { name: name.into(), xorbs, terms, fetch: HashMap::new() };
    plan.fetch = make_fetch(rng, base, &plan, style);
    plan
}

fn fetch_entry(base: &str, x: &Xorb, a: u32, b: u32, url_suffix: &str) -> CASReconstructionFetchInfo {
    let start = if a == 0 { 0 } else { x.stored_end[a as usize - 1] };
    let end = x.stored_end[b as usize - 1] - 1;
    CASReconstructionFetchInfo { range: ChunkRange { start: a, end: b }, url: format!("{base}{}{url_suffix}", x.path), url_range: HttpRange { start: start as u32, end: end as u32 } }
}

fn make_fetch(rng: &mut StdRng, base: &str, plan: &Plan, style: FetchStyle) -> HashMap<HexMerkleHash, Vec<CASReconstructionFetchInfo>> {
    let mut out: HashMap<HexMerkleHash, Vec<CASReconstructionFetchInfo>> = HashMap::new();
    for (xi, x) in plan.xorbs.iter().enumerate() {
        let n = x.chunks.len() as u32;
        let mut entries: Vec<CASReconstructionFetchInfo> = vec![];
        let mine: Vec<(u32, u32)> = plan.terms.iter().filter(|t| t.0 == xi).map(|t| (t.1, t.2)).collect();
        match style {
            FetchStyle::WholeXorb => entries.push(fetch_entry(base, x, 0, n, "")),
            FetchStyle::ExactDistinctUrls | FetchStyle::ExactSameUrl => {
                for (k, (a, b)) in mine.iter().enumerate() {
                    if !entries.iter().any(|e| e.range.start == *a && e.range.end == *b) {
                        let suffix = if style == FetchStyle::ExactDistinctUrls { format!("?sig={k}") } else { String::new() };
                        entries.push(fetch_entry(base, x, *a, *b, &suffix));
                    }
                }
            },
            FetchStyle::Widened => {
                for (k, (a, b)) in mine.iter().enumerate() {
                    if entries.iter().any(|e| e.range.start <= *a && e.range.end >= *b) {
                        continue;
                    }
                    let a2 = a.saturating_sub(rng.random_range(0..3));
                    let b2 = (b + rng.random_range(0..3)).min(n);
                    entries.push(fetch_entry(base, x, a2, b2, if k % 2 == 0 { "" } else { "?alt=1" }));
                }
            },
        }
        out.insert(x.hash.into(), entries);
    }
    out
}

// ---------------------------------------------------------------------------------------------------------------------------------
// driving the real code
// ---------------------------------------------------------------------------------------------------------------------------------

struct Env {
    tp: Arc<ThreadPool>,
    scratch: tempfile::TempDir,
    /// client without chunk cache, shared by all plans (building the http clients is the expensive part of a client)
    plain: Mutex<Option<Arc<RemoteClient>>>,
}

fn new_client(env: &Env, cache: Option<&CacheConfig>) -> Arc<RemoteClient> {
    Arc::new(RemoteClient::new(env.tp.clone(), "http://127.0.0.1:9", None, &None, &cache.cloned(), PathBuf::new(), false))
}

/// progress updater that adds up the increments: after a successful call their sum must be the reported length
#[derive(Debug, Default)]
struct Progress(std::sync::atomic::AtomicU64);
impl utils::progress::ProgressUpdater for Progress {
    fn update(&self, increment: u64) {
        self.0.fetch_add(increment, std::sync::atomic::Ordering::SeqCst);
    }
}
/// Finding F4 (README.md; repaired in /repo by 6341c53): under CONCURRENT term fetches `DiskCache::put` now and then fails with an IO
/// "No such file or directory" (item files are written and deleted outside the cache's state lock); before the repair get_one_term
/// propagated the error.  Such a run is a WITNESS; with C17_TOLERATE_CACHE_RACE=1 it is skipped (counted on stderr).
const KNOWN_F4: &str = "ChunkCache Error: IO: No such file or directory";
static F4_SKIPS: std::sync::atomic::AtomicUsize = std::sync::atomic::AtomicUsize::new(0);
fn known_f4(e: &str) -> bool {
    // judged by default since the repair (6341c53); C17_TOLERATE_CACHE_RACE=1 restores the old skip for debugging older trees
    if e.contains(KNOWN_F4) && *cas_client::remote_client::NUM_CONCURRENT_RANGE_GETS > 1 && std::env::var("C17_TOLERATE_CACHE_RACE").is_ok() {
        let n = F4_SKIPS.fetch_add(1, std::sync::atomic::Ordering::Relaxed) + 1;
        eprintln!("known finding F4 hit ({n} so far): {e}");
        true
    } else {
        false
    }
}

fn progress_check(n: u64, p: &Progress) -> Result<u64, String> {
    let sum = p.0.load(std::sync::atomic::Ordering::SeqCst);
    if sum == n { Ok(n) } else { Err(format!("returns Ok({n}) but the progress updater was told about {sum} bytes in total")) }
}

#[allow(clippy::too_many_arguments)]
fn reconstruct(env: &Env, client: &Arc<RemoteClient>, parallel: bool, terms: Vec<CASReconstructionTerm>, fetch: Arc<HashMap<HexMerkleHash, Vec<CASReconstructionFetchInfo>>>, offset: u64, range: Option<FileRange>, out: PathBuf) -> Result<u64, String> {
    let client = client.clone();
    let progress = Arc::new(Progress::default());
    let p2 = progress.clone();
    let r = env.tp.external_run_async_task(async move {
        let output = OutputProvider::File(FileProvider::new(out));
        if parallel {
            client.reconstruct_file_to_writer_parallel(terms, fetch, offset, range, &output, Some(p2)).await
        } else {
            client.reconstruct_file_to_writer(terms, fetch, offset, range, &output, Some(p2)).await
        }
    });
    match r {
        Ok(Ok(n)) => progress_check(n, &progress),
        Ok(Err(e)) => Err(format!("returns the error: {e}")),
        Err(e) => Err(format!("panics / is aborted: {e}")),
    }
}

/// One request against one plan: terms [from, to), first-term offset, requested length (None = no byte range).
struct Request {
    what: String,
    from: usize,
    to: usize,
    offset: u64,
    range: Option<FileRange>,
}

fn requests(rng: &mut StdRng, plan: &Plan) -> Vec<Request> {
    let lens: Vec<u64> = (0..plan.terms.len()).map(|t| plan.term_data(t).len() as u64).collect();
    let total: u64 = lens.iter().sum();
    let mut starts = vec![0u64];
    for l in &lens {
        starts.push(starts.last().unwrap() + l);
    }
    let n = plan.terms.len();
    let mut out = vec![Request { what: "the whole file (no byte range)".into(), from: 0, to: n, offset: 0, range: None }];
    let ranged = |a: u64, b: u64, keep_tail: bool, label: &str| {
        // the terms a server would return for [a, b): from the term holding a to the term holding b-1
        let first = (0..n).find(|t| starts[t + 1] > a).unwrap();
        let last = (0..n).find(|t| starts[t + 1] >= b).unwrap();
        Request {
            what: format!("byte range [{a}, {b}) of the {total}-byte file ({label}; terms {first}..={} passed{}, first-term offset {})", if keep_tail { n - 1 } else { last }, if keep_tail { ", i.e. more than the range needs" } else { "" }, a - starts[first]),
            from: first,
            to: if keep_tail { n } else { last + 1 },
            offset: a - starts[first],
            range: Some(FileRange { start: a, end: b }),
        }
    };
    out.push(ranged(0, total, false, "whole file as a range"));
    out.push(ranged(0, 1, false, "first byte"));
    out.push(ranged(total - 1, total, false, "last byte"));
    let mid = rng.random_range(0..total);
    out.push(ranged(mid, mid + 1, false, "a single byte"));
    for k in 0..6 {
        let a = rng.random_range(0..total);
        let b = rng.random_range(a + 1..=total);
        out.push(ranged(a, b, k % 3 == 2, "random"));
    }
    if n >= 3 {
        // start and end exactly at term borders, and one byte off them
        out.push(ranged(starts[1], starts[n - 1], false, "from the second term's first byte to the last term's start"));
        out.push(ranged(starts[1] - 1, starts[n - 1] + 1, false, "one byte before a term border to one byte after another"));
        if lens[1] > 1 {
            out.push(ranged(starts[1] + 1, starts[2], true, "second byte of the second term to its end"));
        }
    }
    out
}

fn expected_of(plan: &Plan, rq: &Request) -> Vec<u8> {
    let cat: Vec<u8> = (rq.from..rq.to).flat_map(|t| plan.term_data(t)).collect();
    let len = rq.range.map(|r| (r.end - r.start) as usize).unwrap_or(cat.len());
    cat[rq.offset as usize..rq.offset as usize + len].to_vec()
}

fn check_output(ctx: &str, reported: Result<u64, String>, out: &PathBuf, expected: &[u8], stale: Option<&[u8]>) {
    let n = match reported {
        Ok(n) => n,
        Err(e) if known_f4(&e) => return,
        Err(e) => witness(format!("{ctx}: the call {e}")),
    };
    let got = std::fs::read(out).unwrap_or_default();
    let mut want = expected.to_vec();
    if let Some(s) = stale {
        if s.len() > want.len() {
            want.extend_from_slice(&s[expected.len()..]);
        }
    }
    if n != expected.len() as u64 {
        witness(format!("{ctx}: reports {n} bytes written, the request describes {} bytes (output file has {} bytes)", expected.len(), got.len()));
    }
    if got != want {
        let i = got.iter().zip(want.iter()).position(|(a, b)| a != b).unwrap_or(got.len().min(want.len()));
        let stale_note = if stale.is_some() { format!(" (the output file was pre-filled with {} stale bytes; the writers do not truncate, so the expected bytes are followed by the stale tail)", stale.unwrap().len()) } else { String::new() };
        witness(format!("{ctx}: reports {n} bytes, but the output file has {} bytes and differs from the expected {} bytes first at offset {i}{stale_note}", got.len(), want.len()));
    }
}

static SMALL_CACHE_CLASS: std::sync::atomic::AtomicBool = std::sync::atomic::AtomicBool::new(false);

fn run_plan(env: &Env, rng: &mut StdRng, plan: &Plan, note: &str, stale_every: usize, max_reqs: usize) {
    let fetch = Arc::new(plan.fetch.clone());
    let cache_dir = tempfile::tempdir().unwrap();
    let cache_cfg = CacheConfig { cache_directory: cache_dir.path().to_path_buf(), cache_size: 1 << 30 };
    let mut reqs = requests(rng, plan);
    reqs.truncate(max_reqs);
    let plain = env.plain.lock().unwrap().get_or_insert_with(|| new_client(env, None)).clone();
    let cached = new_client(env, Some(&cache_cfg)); // one cache directory per plan: cold for a fetch range at its first use
    for (ri, rq) in reqs.iter().enumerate() {
        let expected = expected_of(plan, rq);
        for parallel in [false, true] {
            let writer = if parallel { "reconstruct_file_to_writer_parallel" } else { "reconstruct_file_to_writer" };
            // cache off (fresh client: nothing coalesced with earlier runs), then cold and warm with the chunk cache
            for mode in ["no chunk cache", "chunk cache, first (cold) run", "chunk cache, second (warm) run"] {
                if mode != "no chunk cache" && ri > 3 && ri % 3 != 0 {
                    continue;
                }
                let client = if mode == "no chunk cache" { &plain } else { &cached };
                let out = env.scratch.path().join(format!("out-{ri}-{parallel}.bin"));
                let _ = std::fs::remove_file(&out);
                let stale: Option<Vec<u8>> = if (ri + parallel as usize) % stale_every == 0 {
                    let s: Vec<u8> = (0..expected.len() + 777).map(|i| (i * 7 + 3) as u8 | 0x80).collect();
                    std::fs::write(&out, &s).unwrap();
                    Some(s)
                } else {
                    None
                };
                let ctx = format!("{}{note}; {writer}, {mode}, request = {}{}", plan.describe(), rq.what, if stale.is_some() { ", output file pre-filled with longer stale content" } else { "" });
                let r = reconstruct(env, client, parallel, plan.api_terms(rq.from, rq.to), fetch.clone(), rq.offset, rq.range, out.clone());
                check_output(&ctx, r, &out, &expected, stale.as_deref());
            }
        }
    }
    // chunk caches that are (much) smaller than one fetched range, and barely larger than the largest one: a cache that cannot
    // hold what was fetched must not make the download fail or differ from the cache-less one (cold, then again).
    // (Before 6341c53 this class failed now and then under concurrent term fetches - finding F4 in README.md: a failing cache put
    // was propagated by get_one_term.)
    if !SMALL_CACHE_CLASS.load(std::sync::atomic::Ordering::Relaxed) || max_reqs != usize::MAX {
        return; // (not for the plans with delayed answers)
    }
    // the serialized child (NUM_CONCURRENT_RANGE_GETS = 1) takes every plan, the concurrent processes every second one
    static PLAN_NO: std::sync::atomic::AtomicUsize = std::sync::atomic::AtomicUsize::new(0);
    if PLAN_NO.fetch_add(1, std::sync::atomic::Ordering::Relaxed) % 2 == 1 && *cas_client::remote_client::NUM_CONCURRENT_RANGE_GETS > 1 {
        return;
    }
    let largest_fetch: u64 = plan.fetch.values().flatten().map(|f| {
        let x = plan.xorbs.iter().find(|x| f.url.contains(&x.path)).unwrap();
        x.chunks[f.range.start as usize..f.range.end as usize].iter().map(|c| c.len() as u64).sum::<u64>() + 4 * (f.range.end - f.range.start + 2) as u64
    }).max().unwrap_or(0);
    for (what, size) in [("of 8000 bytes", 8000u64), ("one byte smaller than the largest fetched range", largest_fetch.saturating_sub(1).max(1)), ("64 bytes larger than the largest fetched range", largest_fetch + 64)] {
        let dir = tempfile::tempdir().unwrap();
        let small = new_client(env, Some(&CacheConfig { cache_directory: dir.path().to_path_buf(), cache_size: size }));
        for (ri, rq) in reqs.iter().enumerate().take(1) {
            let expected = expected_of(plan, rq);
            for parallel in [false, true] {
                for run in ["first run", "second run"] {
                    let out = env.scratch.path().join(format!("small-cache-{ri}-{parallel}.bin"));
                    let _ = std::fs::remove_file(&out);
                    let ctx = format!("{}{note}; {}, chunk cache with a capacity {what} ({size} bytes; the largest fetched range takes {largest_fetch} bytes in the cache), {run}, request = {}", plan.describe(), if parallel { "reconstruct_file_to_writer_parallel" } else { "reconstruct_file_to_writer" }, rq.what);
                    let r = reconstruct(env, &small, parallel, plan.api_terms(rq.from, rq.to), fetch.clone(), rq.offset, rq.range, out.clone());
                    check_output(&ctx, r, &out, &expected, None);
                }
            }
        }
    }
}

// ---------------------------------------------------------------------------------------------------------------------------------
// get_file: the reconstruction query answered by the in-process CAS endpoint, then the writer chosen by
// HF_XET_RECONSTRUCT_WRITE_SEQUENTIALLY (the program runs this section a second time in a child process with that variable set)
// ---------------------------------------------------------------------------------------------------------------------------------

fn get_file_run(env: &Env, client: &Arc<RemoteClient>, hash: MerkleHash, range: Option<FileRange>, out: PathBuf) -> Result<u64, String> {
    let client = client.clone();
    let progress = Arc::new(Progress::default());
    let p2 = progress.clone();
    let r = env.tp.external_run_async_task(async move {
        let output = OutputProvider::File(FileProvider::new(out));
        client.get_file(&hash, range, &output, Some(p2)).await
    });
    match r {
        Ok(Ok(n)) => progress_check(n, &progress),
        Ok(Err(e)) => Err(format!("returns the error: {e}")),
        Err(e) => Err(format!("panics / is aborted: {e}")),
    }
}

fn get_file_section(env: &Env, rng: &mut StdRng, base: &str, store: &Arc<Mutex<Store>>, plans: &[Plan]) {
    let writer = if std::env::var("HF_XET_RECONSTRUCT_WRITE_SEQUENTIALLY").is_ok() { "sequential writer (HF_XET_RECONSTRUCT_WRITE_SEQUENTIALLY=true)" } else { "parallel writer (default)" };
    let plain = Arc::new(RemoteClient::new(env.tp.clone(), base, None, &None, &None, PathBuf::new(), false));
    for plan in plans {
        let hash = compute_data_hash(format!("file of plan {}", plan.name).as_bytes());
        store.lock().unwrap().files.insert(hash.hex(), (plan.api_terms(0, plan.terms.len()), plan.fetch.clone()));
        let file: Vec<u8> = (0..plan.terms.len()).flat_map(|t| plan.term_data(t)).collect();
        let mut starts = vec![0u64];
        for t in 0..plan.terms.len() {
            starts.push(starts.last().unwrap() + plan.term_data(t).len() as u64);
        }
        let n = plan.terms.len();
        let total = file.len() as u64;
        let mut ranges: Vec<(Option<(u64, u64)>, String)> = vec![(None, "the whole file".into()), (Some((0, total)), "the whole file as a range".into()), (Some((total - 1, total)), "the last byte".into())];
        for (t, label) in [(0usize, "first"), (n / 2, "a middle"), (n - 1, "the last")] {
            let (a0, a1) = (starts[t], starts[t + 1]);
            let a = a0 + rng.random_range(0..(a1 - a0));
            ranges.push((Some((a, a + 1)), format!("a single byte inside {label} term (#{t})")));
            ranges.push((Some((a, a1)), format!("from inside {label} term (#{t}) to its end")));
            ranges.push((Some((a, total.min(a1 + 1))), format!("from inside {label} term (#{t}) one byte across its border")));
            ranges.push((Some((a, rng.random_range(a + 1..=total))), format!("from inside {label} term (#{t}) to a random later offset")));
            ranges.push((Some((a0, rng.random_range(a0 + 1..=total))), format!("from the first byte of {label} term (#{t}) to a random later offset")));
        }
        let cache_dir = tempfile::tempdir().unwrap();
        let cached = new_client_at(env, base, Some(&CacheConfig { cache_directory: cache_dir.path().to_path_buf(), cache_size: 1 << 30 }));
        for (ri, (r, label)) in ranges.iter().enumerate() {
            let expected = match r { Some((a, b)) => &file[*a as usize..*b as usize], None => &file[..] };
            for mode in ["no chunk cache", "chunk cache, first run", "chunk cache, second run"] {
                if mode != "no chunk cache" && ri % 2 == 1 {
                    continue;
                }
                let out = env.scratch.path().join(format!("getfile-{ri}.bin"));
                let _ = std::fs::remove_file(&out);
                let ctx = format!("{}; RemoteClient::get_file ({writer}, {mode}) against a CAS endpoint that lists the terms overlapping the range and the offset into the first of them; request = {}{}", plan.describe(), label, r.map(|(a, b)| format!(": bytes [{a}, {b}) of {total}")).unwrap_or_default());
                let res = get_file_run(env, if mode == "no chunk cache" { &plain } else { &cached }, hash, r.map(|(a, b)| FileRange { start: a, end: b }), out.clone());
                check_output(&ctx, res, &out, expected, None);
            }
        }
    }
}

fn new_client_at(env: &Env, endpoint: &str, cache: Option<&CacheConfig>) -> Arc<RemoteClient> {
    Arc::new(RemoteClient::new(env.tp.clone(), endpoint, None, &None, &cache.cloned(), PathBuf::new(), false))
}

// ---------------------------------------------------------------------------------------------------------------------------------
// a misbehaving blob store: the client must fail or deliver the right bytes, never Ok with wrong bytes
// ---------------------------------------------------------------------------------------------------------------------------------

fn faulty_store_section(env: &Env, rng: &mut StdRng, base: &str, store: &Arc<Mutex<Store>>, plan_id: u64) {
    // one xorb of equal-sized (512-byte) chunks, at least 9 of them; terms strictly inside ONE fetch range that does not begin at chunk 0
    let mut p = loop {
        let p = make_plan(rng, base, store, plan_id, "equal-sized chunks, terms inside a wider fetch range", 1, 2, FetchStyle::WholeXorb, true);
        if p.xorbs[0].chunks.len() >= 9 {
            break p;
        }
    };
    p.terms = vec![(0, 3, 5), (0, 5, 7), (0, 4, 6)];
    let x = &p.xorbs[0];
    p.fetch = HashMap::from([(x.hash.into(), vec![fetch_entry(base, x, 2, 8, "")])]);
    let fetch = Arc::new(p.fetch.clone());
    let expected: Vec<u8> = (0..p.terms.len()).flat_map(|t| p.term_data(t)).collect();
    let last_stored = x.stored_end[7] - x.stored_end[6];
    for fault in [StoreFault::IgnoresRangeStart, StoreFault::Short(1), StoreFault::Short(last_stored), StoreFault::Short(last_stored + 3), StoreFault::NoContentLength] {
        store.lock().unwrap().faults.insert(x.path.clone(), fault);
        for parallel in [false, true] {
            for with_cache in [false, true] {
                let cache_dir = tempfile::tempdir().unwrap();
                let cfg = CacheConfig { cache_directory: cache_dir.path().to_path_buf(), cache_size: 1 << 30 };
                let client = new_client(env, if with_cache { Some(&cfg) } else { None });
                let out = env.scratch.path().join("faulty.bin");
                let _ = std::fs::remove_file(&out);
                let what = match fault {
                    StoreFault::IgnoresRangeStart => "ignores the start of the requested byte range and answers with bytes 0..=b of the object (Content-Length says so; the answer begins at a chunk boundary)".to_string(),
                    StoreFault::Short(n) => format!("answers {n} bytes short of the requested range (Content-Length says so)"),
                    StoreFault::NoContentLength => "answers the right bytes with chunked transfer encoding (no Content-Length)".to_string(),
                };
                let ctx = format!("{} (fetch range = chunks [2, 8) of the xorb, every chunk 512 bytes); blob store that {what}; {}, {}", p.describe(), if parallel { "reconstruct_file_to_writer_parallel" } else { "reconstruct_file_to_writer" }, if with_cache { "empty chunk cache" } else { "no chunk cache" });
                match reconstruct(env, &client, parallel, p.api_terms(0, p.terms.len()), fetch.clone(), 0, None, out.clone()) {
                    Err(e) => {
                        if fault == StoreFault::NoContentLength {
                            witness(format!("{ctx}: the call {e}"));
                        }
                    },
                    Ok(n) => {
                        let got = std::fs::read(&out).unwrap_or_default();
                        if got != expected || n != expected.len() as u64 {
                            let i = got.iter().zip(expected.iter()).position(|(a, b)| a != b).unwrap_or(got.len().min(expected.len()));
                            witness(format!("{ctx}: the call returns Ok({n}) but the output ({} bytes) differs from the term data ({} bytes) first at offset {i}", got.len(), expected.len()));
                        }
                    },
                }
            }
        }
        store.lock().unwrap().faults.remove(&x.path);
    }
}

// ---------------------------------------------------------------------------------------------------------------------------------
// invalid plans and a failing store at the first / a middle / the last term: the call must return an error (or the right bytes),
// never Ok with a wrong output, and the same client (and chunk cache) must deliver the right bytes once the fault is gone
// ---------------------------------------------------------------------------------------------------------------------------------

static RETRY_FILES: std::sync::atomic::AtomicUsize = std::sync::atomic::AtomicUsize::new(0);

fn error_path_section(env: &Env, rng: &mut StdRng, base: &str, store: &Arc<Mutex<Store>>, plan_id: u64) {
    let mut p = make_plan(rng, base, store, plan_id, "error paths", 3, 7, FetchStyle::WholeXorb, false);
    // terms 0, 3 and 6 are the victims: each the only term of its xorb, chunks [1, 3)
    for (t, x) in [(0usize, 0usize), (3, 1), (6, 2)] {
        p.terms[t] = (x, 1, 3);
    }
    for t in [1usize, 2, 4, 5] {
        let x = t % 3;
        let n = p.xorbs[x].chunks.len() as u32;
        p.terms[t] = (x, 0, n.min(2 + t as u32));
    }
    // (terms 1,2,4,5 reuse the victims' xorbs; every fault below is applied to a dedicated 4th..6th xorb instead, so that only the
    // victim term is affected)
    let extra = make_plan(rng, base, store, plan_id + 1, "error paths (victim xorbs)", 3, 1, FetchStyle::WholeXorb, false);
    let base_x = p.xorbs.len();
    p.xorbs.extend(extra.xorbs);
    for (k, t) in [0usize, 3, 6].into_iter().enumerate() {
        p.terms[t] = (base_x + k, 1, 3);
    }
    p.fetch = make_fetch(rng, base, &p, FetchStyle::WholeXorb);
    let expected: Vec<u8> = (0..p.terms.len()).flat_map(|t| p.term_data(t)).collect();
    let faults = ["the term's xorb is missing from fetch_info", "no fetch range of the xorb contains the term", "the term's chunk range has end < start", "the term's unpacked_length is one too large", "the term's unpacked_length is one too small", "the blob store answers 404 for the term's xorb", "the stored xorb has a chunk header with version byte 7 inside the term's range", "the fetch url is not a url"];
    for fault in faults {
        for (pos, victim) in [("first", 0usize), ("a middle", 3), ("the last", 6)] {
            let x = &p.xorbs[p.terms[victim].0];
            let hx: HexMerkleHash = x.hash.into();
            for parallel in [false, true] {
                for with_cache in [false, true] {
                    let cache_dir = tempfile::tempdir().unwrap();
                    let cfg = CacheConfig { cache_directory: cache_dir.path().to_path_buf(), cache_size: 1 << 30 };
                    let client = if with_cache { new_client(env, Some(&cfg)) } else { env.plain.lock().unwrap().get_or_insert_with(|| new_client(env, None)).clone() };
                    let mut terms = p.api_terms(0, p.terms.len());
                    let mut fetch = p.fetch.clone();
                    let good_blob = store.lock().unwrap().blobs.get(&x.path).cloned().unwrap();
                    match fault {
                        "the term's xorb is missing from fetch_info" => { fetch.remove(&hx); },
                        "no fetch range of the xorb contains the term" => { fetch.insert(hx, vec![fetch_entry(base, x, 0, 2, ""), fetch_entry(base, x, 2, x.chunks.len() as u32, "")]); },
                        "the term's chunk range has end < start" => terms[victim].range = ChunkRange { start: 3, end: 1 },
                        "the term's unpacked_length is one too large" => terms[victim].unpacked_length += 1,
                        "the term's unpacked_length is one too small" => terms[victim].unpacked_length -= 1,
                        "the blob store answers 404 for the term's xorb" => { store.lock().unwrap().blobs.remove(&x.path); },
                        "the stored xorb has a chunk header with version byte 7 inside the term's range" => { let mut b = (*good_blob).clone(); b[x.stored_end[0]] = 7; store.lock().unwrap().blobs.insert(x.path.clone(), Arc::new(b)); },
                        _ => { fetch.insert(hx, vec![CASReconstructionFetchInfo { url: "this is not a url".into(), ..fetch_entry(base, x, 0, x.chunks.len() as u32, "") }]); },
                    }
                    let writer = if parallel { "reconstruct_file_to_writer_parallel" } else { "reconstruct_file_to_writer" };
                    let ctx = format!("{}; {fault} - for {pos} term (#{victim}); {writer}, {}", p.describe(), if with_cache { "empty chunk cache" } else { "no chunk cache" });
                    let out = env.scratch.path().join(format!("errpath-{}.bin", RETRY_FILES.fetch_add(1, std::sync::atomic::Ordering::Relaxed)));
                    match reconstruct(env, &client, parallel, terms, Arc::new(fetch), 0, None, out.clone()) {
                        Ok(n) => {
                            let got = std::fs::read(&out).unwrap_or_default();
                            if got != expected || n != expected.len() as u64 {
                                witness(format!("{ctx}: the call returns Ok({n}) although the plan / the store is broken, and the output ({} bytes) is not the term data ({} bytes)", got.len(), expected.len()));
                            }
                        },
                        Err(e) if e.starts_with("panics") => witness(format!("{ctx}: the call {e} (an error return is expected)")),
                        Err(_) => {},
                    }
                    // the fault is gone: the same client (and cache) must now deliver the file
                    // (into ANOTHER output file: when the parallel writer returns an error its remaining term tasks are neither
                    // cancelled nor awaited and may still write into the first file - observed on HEAD, outside the property)
                    store.lock().unwrap().blobs.insert(x.path.clone(), good_blob);
                    let out = env.scratch.path().join(format!("errpath-retry-{}.bin", RETRY_FILES.fetch_add(1, std::sync::atomic::Ordering::Relaxed)));
                    let r = reconstruct(env, &client, parallel, p.api_terms(0, p.terms.len()), Arc::new(p.fetch.clone()), 0, None, out.clone());
                    check_output(&format!("{ctx}; then the SAME client is given the intact plan and store"), r, &out, &expected, None);
                    let _ = std::fs::remove_file(&out);
                }
            }
        }
    }
    // an empty plan: nothing to write, 0 reported (the sequential writer creates an empty output file, the parallel writer none: pinned)
    for parallel in [false, true] {
        let out = env.scratch.path().join("empty-plan.bin");
        let _ = std::fs::remove_file(&out);
        let client = new_client(env, None);
        match reconstruct(env, &client, parallel, vec![], Arc::new(HashMap::new()), 0, None, out.clone()) {
            Ok(0) if std::fs::read(&out).map(|d| d.is_empty()).unwrap_or(true) => {},
            other => witness(format!("plan without terms, no byte range, {}: result {other:?}, output file {:?} bytes (expected Ok(0) and no / an empty file)", if parallel { "reconstruct_file_to_writer_parallel" } else { "reconstruct_file_to_writer" }, std::fs::read(&out).map(|d| d.len()).ok())),
        }
    }
}

/// batch_get_file: several files in one call, answered by the batch reconstruction endpoint
fn batch_section(env: &Env, base: &str, store: &Arc<Mutex<Store>>, plans: &[Plan]) {
    let client = Arc::new(RemoteClient::new(env.tp.clone(), base, None, &None, &None, PathBuf::new(), false));
    let files: Vec<(MerkleHash, Vec<u8>)> = plans.iter().map(|plan| {
        let hash = compute_data_hash(format!("file of plan {}", plan.name).as_bytes());
        store.lock().unwrap().files.insert(hash.hex(), (plan.api_terms(0, plan.terms.len()), plan.fetch.clone()));
        (hash, (0..plan.terms.len()).flat_map(|t| plan.term_data(t)).collect())
    }).collect();
    for omit in [None, Some(files[1].0.hex())] {
        store.lock().unwrap().batch_omits = omit.clone();
        let outs: Vec<PathBuf> = (0..files.len()).map(|i| env.scratch.path().join(format!("batch-{i}.bin"))).collect();
        for o in &outs { let _ = std::fs::remove_file(o); }
        let (c2, hashes, outs2) = (client.clone(), files.iter().map(|f| f.0).collect::<Vec<_>>(), outs.clone());
        let r = env.tp.external_run_async_task(async move {
            let providers: Vec<OutputProvider> = outs2.into_iter().map(|o| OutputProvider::File(FileProvider::new(o))).collect();
            let map: HashMap<MerkleHash, &OutputProvider> = hashes.iter().cloned().zip(providers.iter()).collect();
            c2.batch_get_file(map).await
        });
        let ctx = format!("RemoteClient::batch_get_file for {} files of {:?} bytes{}", files.len(), files.iter().map(|f| f.1.len()).collect::<Vec<_>>(), if omit.is_some() { ", the CAS answer leaves the second file out" } else { "" });
        match (r, &omit) {
            (Ok(Ok(n)), None) => {
                let total: usize = files.iter().map(|f| f.1.len()).sum();
                if n != total as u64 { witness(format!("{ctx}: reports {n} bytes, the files have {total}")); }
                for (i, (_, want)) in files.iter().enumerate() {
                    if std::fs::read(&outs[i]).unwrap_or_default() != *want { witness(format!("{ctx}: the output of file #{i} differs from its term data")); }
                }
            },
            (Ok(Ok(n)), Some(_)) => witness(format!("{ctx}: returns Ok({n}) although one requested file is missing from the answer")),
            (Ok(Err(e)), None) => witness(format!("{ctx}: fails: {e}")),
            (Err(e), _) => witness(format!("{ctx}: panics / is aborted: {e}")),
            (Ok(Err(_)), Some(_)) => {},
        }
    }
    store.lock().unwrap().batch_omits = None;
    // a file the CAS does not know
    let out = env.scratch.path().join("unknown.bin");
    if let Ok(n) = get_file_run(env, &client, compute_data_hash(b"no such file"), None, out) {
        witness(format!("RemoteClient::get_file for a file hash the CAS answers 404 for returns Ok({n})"));
    }
}

// ---------------------------------------------------------------------------------------------------------------------------------
// big plans (>= 4 GiB) served from the real disk cache
// ---------------------------------------------------------------------------------------------------------------------------------

fn big_plans(env: &Env) {
    const MIB: usize = 1 << 20;
    let (n_chunks, chunk_len) = (4u32, 4 * MIB);
    let term_len = n_chunks as usize * chunk_len; // 16 MiB
    let data = chunk_bytes(999, 0, 0, term_len);
    let small = chunk_bytes(999, 1, 0, 5 * MIB + 12_345); // a second, shorter term (one chunk)
    let cache_dir = tempfile::tempdir().unwrap();
    let cfg = CacheConfig { cache_directory: cache_dir.path().to_path_buf(), cache_size: 1 << 30 };
    let (h_big, h_small) = (compute_data_hash(b"big term xorb"), compute_data_hash(b"small term xorb"));
    {
        let cache = chunk_cache::get_cache(&cfg).unwrap();
        let idx: Vec<u32> = (0..=n_chunks).map(|i| i * chunk_len as u32).collect();
        cache.put(&Key { prefix: PREFIX_DEFAULT.to_string(), hash: h_big }, &ChunkRange { start: 0, end: n_chunks }, &idx, &data).unwrap();
        cache.put(&Key { prefix: PREFIX_DEFAULT.to_string(), hash: h_small }, &ChunkRange { start: 0, end: 1 }, &[0, small.len() as u32], &small).unwrap();
        let client = new_client(env, Some(&cfg));
        let big = CASReconstructionTerm { hash: h_big.into(), unpacked_length: term_len as u32, range: ChunkRange { start: 0, end: n_chunks } };
        let sm = CASReconstructionTerm { hash: h_small.into(), unpacked_length: small.len() as u32, range: ChunkRange { start: 0, end: 1 } };
        let byte_at = |terms: &[CASReconstructionTerm], pos: u64| -> u8 {
            let mut p = pos;
            for t in terms {
                if p < t.unpacked_length as u64 {
                    return if t.unpacked_length as usize == term_len { data[p as usize] } else { small[p as usize] };
                }
                p -= t.unpacked_length as u64;
            }
            unreachable!()
        };
        let two32 = 1u64 << 32;
        // (description, terms, first-term offset, range, writers, real file?)
        let mut cases: Vec<(String, Vec<CASReconstructionTerm>, u64, Option<FileRange>, Vec<bool>, bool)> = vec![];
        let mut below = vec![big.clone(); 255];
        below.push(sm.clone()); // 255 * 16 MiB + 5 MiB + 12345 < 2^32
        cases.push(("255 terms of 16 MiB and one of 5 MiB + 12345 bytes (just below 2^32 bytes), whole file".into(), below, 0, None, vec![true], false));
        cases.push(("256 terms of 16 MiB (exactly 2^32 bytes), whole file".into(), vec![big.clone(); 256], 0, None, vec![true], false));
        let mut above = vec![sm.clone()];
        above.extend(vec![big.clone(); 256]);
        above.push(sm.clone());
        cases.push(("a 5 MiB + 12345 byte term, 256 terms of 16 MiB, the short term again (2^32 + 10510554 bytes), whole file".into(), above.clone(), 0, None, vec![true, false], false));
        let (a, len) = (1_000_003u64, two32 + 1_234_567);
        cases.push((format!("the same plan, byte range [{a}, {}) of {len} bytes starting inside the first term", a + len), above, a, Some(FileRange { start: a, end: a + len }), vec![true], true));
        for (what, terms, offset, range, writers, real_file) in cases {
            let total: u64 = terms.iter().map(|t| t.unpacked_length as u64).sum();
            let want = range.map(|r| r.end - r.start).unwrap_or(total);
            for parallel in writers {
                let writer = if parallel { "reconstruct_file_to_writer_parallel" } else { "reconstruct_file_to_writer" };
                // a real output file only where memory-backed storage is available (4 GiB are really written)
                let shm = std::path::Path::new("/dev/shm");
                let real_file = real_file && shm.is_dir() && std::env::var("C17_NO_REAL_FILE").is_err();
                let out = if real_file { shm.join(format!("c17_reconstruct_big_{}.bin", std::process::id())) } else { PathBuf::from("/dev/null") };
                let ctx = format!("big plan served warm from the on-disk chunk cache: {what}; {writer} into {}", if real_file { "a temporary file" } else { "/dev/null" });
                let t = std::time::Instant::now();
                let r = reconstruct(env, &client, parallel, terms.clone(), Arc::new(HashMap::new()), offset, range, out.clone());
                eprintln!("big case [{what}] parallel={parallel}: {:?}", t.elapsed());
                let fail = |msg: String| -> ! {
                    if real_file {
                        let _ = std::fs::remove_file(&out);
                    }
                    witness(msg)
                };
                match r {
                    Ok(n) if n == want => {},
                    Ok(n) => fail(format!("{ctx}: reports {n} bytes written, the request describes {want} bytes")),
                    Err(e) => fail(format!("{ctx}: the call {e}")),
                }
                if real_file {
                    let mut f = std::fs::File::open(&out).unwrap();
                    let flen = f.metadata().unwrap().len();
                    if flen != want {
                        fail(format!("{ctx}: reports {want} bytes but the output file has {flen} bytes"));
                    }
                    for pos in [0u64, 4_242_880, two32 - 4096 - 13, two32 - 7, two32 + 5, want - 4096] {
                        let mut buf = vec![0u8; 4096.min((want - pos) as usize)];
                        f.seek(SeekFrom::Start(pos)).unwrap();
                        f.read_exact(&mut buf).unwrap();
                        if let Some(i) = (0..buf.len()).find(|i| buf[*i] != byte_at(&terms, offset + pos + *i as u64)) {
                            fail(format!("{ctx}: the output file differs from the term data at file offset {}", pos + i as u64));
                        }
                    }
                    drop(f);
                    let _ = std::fs::remove_file(&out);
                }
            }
        }
    }
}

fn main() {
    let seed = std::env::var("VERIF_SEED").ok().and_then(|s| s.parse().ok()).unwrap_or(0u64);
    let mut rng = StdRng::seed_from_u64(seed);
    let (base, store) = start_store();
    let env = Env { tp: Arc::new(ThreadPool::new().expect("runtime")), scratch: tempfile::tempdir().unwrap(), plain: Mutex::new(None) };
    let mut plan_id = 0u64;
    let t0 = std::time::Instant::now();
    let mut next = |rng: &mut StdRng, name: &str, nx: usize, nt: usize, style: FetchStyle, eq: bool| {
        plan_id += 1;
        make_plan(rng, &base, &store, plan_id, name, nx, nt, style, eq)
    };
    use FetchStyle::*;
    // 0. switches that are read once per process get their own child process:
    //    seq   = HF_XET_RECONSTRUCT_WRITE_SEQUENTIALLY=true (get_file / batch_get_file through the sequential writer)
    //    gets1 = HF_XET_NUM_CONCURRENT_RANGE_GETS=1, gets64 = ...=64 (default 16): sections get_file, 1, 2 and the larger plans of 3
    let mode = std::env::args().find_map(|a| a.strip_prefix("--mode=").map(|m| m.to_string())).unwrap_or_default();
    let want_gets: usize = match mode.as_str() { "gets1" => 1, "gets64" => 64, _ => 16 };
    // every process runs the small-cache class (C17_NO_SMALL_CACHE=1 switches it off; before 6341c53 it was quiet only without concurrency)
    SMALL_CACHE_CLASS.store(std::env::var("C17_NO_SMALL_CACHE").is_err(), std::sync::atomic::Ordering::Relaxed);
    if *cas_client::remote_client::NUM_CONCURRENT_RANGE_GETS != want_gets {
        println!("infrastructure: HF_XET_NUM_CONCURRENT_RANGE_GETS={want_gets} was not picked up (value {})", *cas_client::remote_client::NUM_CONCURRENT_RANGE_GETS);
        std::process::exit(2);
    }
    let children: Vec<(&str, std::process::Child)> = if !mode.is_empty() { vec![] } else {
        [("seq", "HF_XET_RECONSTRUCT_WRITE_SEQUENTIALLY", "true"), ("gets1", "HF_XET_NUM_CONCURRENT_RANGE_GETS", "1"), ("gets64", "HF_XET_NUM_CONCURRENT_RANGE_GETS", "64")].into_iter().map(|(m, k, v)| {
            let mut cmd = std::process::Command::new(std::env::current_exe().unwrap());
            cmd.arg(format!("--mode={m}")).env_remove("HF_XET_RECONSTRUCT_WRITE_SEQUENTIALLY").env_remove("HF_XET_NUM_CONCURRENT_RANGE_GETS").env(k, v).stdout(std::process::Stdio::piped()).stderr(std::process::Stdio::null());
            (m, cmd.spawn().expect("spawn child"))
        }).collect()
    };
    {
        let shapes: [(usize, usize, FetchStyle); 7] = [(1, 1, WholeXorb), (1, 2, ExactSameUrl), (2, 3, Widened), (3, 7, ExactDistinctUrls), (3, 12, Widened), (6, 17, ExactSameUrl), (4, 25, Widened)];
        let plans: Vec<Plan> = shapes.iter().enumerate().map(|(k, (nx, nt, style))| next(&mut rng, &format!("get_file #{k} ({style:?})"), *nx, *nt, *style, false)).collect();
        get_file_section(&env, &mut rng, &base, &store, &plans);
        batch_section(&env, &base, &store, &plans[1..5]);
    }
    if mode == "seq" {
        println!("no violation found");
        return;
    }
    eprintln!("get_file section done at {:?}", t0.elapsed());
    if mode.is_empty() {
        faulty_store_section(&env, &mut rng, &base, &store, 1_000_000);
        eprintln!("faulty store section done at {:?}", t0.elapsed());
        error_path_section(&env, &mut rng, &base, &store, 2_000_000);
        eprintln!("error path section done at {:?}", t0.elapsed());
    }
    // 1. hand-made: two non-adjacent chunk ranges of ONE xorb (two fetch entries), equal-sized chunks, slow responses so that both
    //    downloads are in flight together
    for style in [ExactDistinctUrls, ExactSameUrl] {
        let mut p = next(&mut rng, "two non-adjacent ranges of one xorb", 1, 2, style, true);
        let n = p.xorbs[0].chunks.len() as u32;
        p.terms = vec![(0, 0, 3), (0, n - 3, n)];
        p.fetch = make_fetch(&mut rng, &base, &p, style);
        store.lock().unwrap().delay_ms.insert(p.xorbs[0].path.clone(), 60);
        run_plan(&env, &mut rng, &p, &format!(" (fetch entries: {style:?}, every response delayed 60 ms)"), 3, 6);
    }
    // 1b. ONE blob url holding two xorbs back to back: two terms with DIFFERENT xorb hashes, both over chunk range [0, k), fetched
    //     from the same url with different url_ranges, equal-sized chunks, both downloads in flight together
    {
        let mut p = next(&mut rng, "two xorbs stored back to back under one url, same chunk-index range", 2, 2, WholeXorb, true);
        let k = p.xorbs[0].chunks.len().min(p.xorbs[1].chunks.len()) as u32;
        p.terms = vec![(0, 0, k), (1, 0, k)];
        let shared_path = format!("/blobs/shared-{}", p.xorbs[0].path.trim_start_matches('/').replace('/', "-"));
        let (b0, b1) = { let s = store.lock().unwrap(); (s.blobs[&p.xorbs[0].path].clone(), s.blobs[&p.xorbs[1].path].clone()) };
        let mut shared = (*b0).clone();
        shared.extend_from_slice(&b1);
        store.lock().unwrap().blobs.insert(shared_path.clone(), Arc::new(shared));
        store.lock().unwrap().delay_ms.insert(shared_path.clone(), 60);
        let url = format!("{base}{shared_path}");
        let end0 = p.xorbs[0].stored_end[k as usize - 1];
        let end1 = p.xorbs[1].stored_end[k as usize - 1];
        p.fetch = HashMap::from([
            (p.xorbs[0].hash.into(), vec![CASReconstructionFetchInfo { range: ChunkRange { start: 0, end: k }, url: url.clone(), url_range: HttpRange { start: 0, end: end0 as u32 - 1 } }]),
            (p.xorbs[1].hash.into(), vec![CASReconstructionFetchInfo { range: ChunkRange { start: 0, end: k }, url: url.clone(), url_range: HttpRange { start: b0.len() as u32, end: (b0.len() + end1) as u32 - 1 } }]),
        ]);
        run_plan(&env, &mut rng, &p, &format!(" (both fetch entries: chunk range [0, {k}) of url {shared_path}, byte ranges [0, {}] and [{}, {}]; every response delayed 60 ms)", end0 - 1, b0.len(), b0.len() + end1 - 1), 3, 6);
    }
    eprintln!("section 1 done at {:?}", t0.elapsed());
    // 2. a slow FIRST term (its xorb answers after 80 ms), later terms from other xorbs complete first
    for (k, style) in [WholeXorb, Widened].into_iter().enumerate() {
        let mut p = next(&mut rng, "slow first term", 3, 5 + k, style, false);
        p.terms[0].0 = 0;
        p.terms[0].1 = 0;
        p.terms[0].2 = 2.min(p.xorbs[0].chunks.len() as u32);
        for t in 1..p.terms.len() {
            if p.terms[t].0 == 0 {
                p.terms[t].0 = 1 + t % 2;
                let n = p.xorbs[p.terms[t].0].chunks.len() as u32;
                p.terms[t].1 = p.terms[t].1.min(n - 1);
                p.terms[t].2 = p.terms[t].2.clamp(p.terms[t].1 + 1, n);
            }
        }
        p.fetch = make_fetch(&mut rng, &base, &p, style);
        store.lock().unwrap().delay_ms.insert(p.xorbs[0].path.clone(), 80);
        run_plan(&env, &mut rng, &p, " (the first term's xorb answers after 80 ms)", 2, 6);
    }
    eprintln!("section 2 done at {:?}", t0.elapsed());
    // 3. generated plans
    let shapes: [(usize, usize); 9] = [(1, 1), (1, 2), (2, 3), (1, 7), (3, 12), (6, 17), (4, 25), (2, 40), (6, 40)];
    for (k, (nx, nt)) in shapes.into_iter().enumerate() {
        if !mode.is_empty() && k < 5 {
            continue;
        }
        for style in [WholeXorb, ExactDistinctUrls, ExactSameUrl, Widened] {
            if k % 2 == 1 && matches!(style, WholeXorb | ExactDistinctUrls) {
                continue;
            }
            let p = next(&mut rng, &format!("generated #{k}"), nx, nt, style, false);
            run_plan(&env, &mut rng, &p, &format!(" (fetch entries: {style:?}, VERIF_SEED={seed})"), 4, usize::MAX);
        }
    }
    eprintln!("section 3 done at {:?}", t0.elapsed());
    if !mode.is_empty() {
        println!("no violation found");
        return;
    }
    // 4. plans of 2^32 bytes and more
    big_plans(&env);
    eprintln!("section 4 done at {:?}", t0.elapsed());
    for (m, c) in children {
        let out = c.wait_with_output().expect("child output");
        let stdout = String::from_utf8_lossy(&out.stdout);
        if let Some(l) = stdout.lines().find(|l| l.starts_with("WITNESS")) {
            println!("{} [child process {m}]", l);
            std::process::exit(1);
        }
        if out.status.code() == Some(2) {
            eprintln!("{stdout}");
            std::process::exit(2);
        }
        if out.status.code() != Some(0) {
            witness(format!("the child process '{m}' (seq = sequential writer switch, gets1 / gets64 = NUM_CONCURRENT_RANGE_GETS 1 / 64) died: {:?}", out.status));
        }
    }
    println!("no violation found");
}
