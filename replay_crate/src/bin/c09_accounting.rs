//! Witness search for C09 ("its size and byte totals equal the in-memory accounting"): the REAL MDBInMemoryShard size counter
//! (`shard_file_size()`, maintained incrementally by add_cas_block / add_file_reconstruction_info and recomputed by
//! recalculate_shard_size in union / difference) against the number of bytes the REAL `MDBShardInfo::serialize_from` writes, for
//! shards with repeated file hashes, repeated xorbs and xorbs sharing chunk hashes.  Prints `WITNESS ...` and exits 1 on a mismatch.
//!
//! S5 (byte totals beyond 32 bits; entries only, no data): synthetic shards holding one file of 63 / 64 / 80 segments of 64 MiB
//! (3.94 GiB - just below 2^32 -, exactly 4 GiB, 5 GiB), each segment a whole xorb of 16 chunks of 4 MiB, plus a few small files; and
//! one shard holding all three big files (the xorb section then stores 12.9 GiB).  The byte totals `materialized_bytes`,
//! `stored_bytes`, `stored_bytes_on_disk` must equal independent u64 sums over the records - in the in-memory shard, in the footer
//! that `MDBShardInfo::serialize_from` writes (as returned and as read back), in what `MDBMinimalShard::serialize`,
//! `export_as_keyed_shard`, `shard_set_union` with a small shard (both operand orders), `shard_set_difference` and
//! `MDBInMemoryShard::union` / `difference` recompute; the size counter is compared as in S1-S4.  A panic of the code under test
//! (e.g. an arithmetic overflow in a debug build) is reported as WITNESS as well.
use mdb_shard::cas_structs::{CASChunkSequenceEntry, CASChunkSequenceHeader, MDBCASInfo};
use mdb_shard::file_structs::{FileDataSequenceEntry, FileDataSequenceHeader, MDBFileInfo};
use mdb_shard::shard_format::MDBShardInfo;
use mdb_shard::shard_in_memory::MDBInMemoryShard;
use mdb_shard::set_operations::{shard_set_difference, shard_set_union};
use mdb_shard::streaming_shard::MDBMinimalShard;
use merklehash::MerkleHash;
use std::io::Cursor;
use std::panic::{catch_unwind, AssertUnwindSafe};

fn h(x: u64) -> MerkleHash { MerkleHash::from([x, x + 1, x + 2, x + 3]) }
fn xorb(id: u64, chunk_ids: &[u64]) -> MDBCASInfo {
    let chunks: Vec<CASChunkSequenceEntry> =
        chunk_ids.iter().enumerate().map(|(i, c)| CASChunkSequenceEntry::new(h(*c), 100, (i * 100) as u32)).collect();
    MDBCASInfo { metadata: CASChunkSequenceHeader::new(h(id), chunks.len(), 100 * chunks.len() as u32), chunks }
}
fn file(id: u64) -> MDBFileInfo {
    MDBFileInfo {
        metadata: FileDataSequenceHeader::new(h(id), 1, false, false),
        segments: vec![FileDataSequenceEntry::new(h(1000), 100, 0, 1)],
        verification: vec![],
        metadata_ext: None,
    }
}
fn written(s: &MDBInMemoryShard) -> u64 {
    let mut buf = Vec::<u8>::new();
    MDBShardInfo::serialize_from(&mut buf, s).unwrap();
    buf.len() as u64
}
// ---------------------------------------------------------------- S5: byte totals beyond 32 bits
const MIB: u32 = 1 << 20;
fn witness(msg: String) -> ! {
    println!("WITNESS {}", msg.replace('\n', " "));
    std::process::exit(1);
}
fn guarded<T>(what: &str, f: impl FnOnce() -> T) -> T {
    match catch_unwind(AssertUnwindSafe(f)) {
        Ok(v) => v,
        Err(e) => {
            let msg = e.downcast_ref::<String>().cloned().or_else(|| e.downcast_ref::<&str>().map(|s| s.to_string())).unwrap_or_default();
            witness(format!("{what}: the code under test panicked: {msg}"))
        },
    }
}
/// the records of a synthetic shard, kept outside the code under test
#[derive(Default, Clone)]
struct Records {
    files: Vec<MDBFileInfo>,
    xorbs: Vec<MDBCASInfo>,
}
impl Records {
    /// (materialized, stored, stored on disk) as u64 sums over the records
    fn totals(&self) -> (u64, u64, u64) {
        let mut mat = 0u64;
        for f in &self.files { for s in &f.segments { mat += s.unpacked_segment_bytes as u64; } }
        let (mut st, mut od) = (0u64, 0u64);
        for x in &self.xorbs { st += x.metadata.num_bytes_in_cas as u64; od += x.metadata.num_bytes_on_disk as u64; }
        (mat, st, od)
    }
    fn to_mem(&self, ctx: &str) -> MDBInMemoryShard {
        let mut s = MDBInMemoryShard::default();
        for x in &self.xorbs { guarded(ctx, || s.add_cas_block(x.clone())).unwrap_or_else(|e| witness(format!("{ctx}: add_cas_block failed: {e:?}"))); }
        for f in &self.files { guarded(ctx, || s.add_file_reconstruction_info(f.clone())).unwrap_or_else(|e| witness(format!("{ctx}: add_file_reconstruction_info failed: {e:?}"))); }
        s
    }
    fn describe(&self) -> String {
        let (m, s, d) = self.totals();
        format!("{} files with {:?} segments, {} xorbs; record sums: materialized {m}, stored {s}, on disk {d}", self.files.len(), self.files.iter().map(|f| f.segments.len()).collect::<Vec<_>>(), self.xorbs.len())
    }
}
/// one file of `n_seg` segments of 64 MiB, each segment one whole xorb of 16 chunks of 4 MiB (xorb ids from `base`)
fn big_file(r: &mut Records, base: u64, n_seg: u64) {
    let mut segments = vec![];
    for i in 0..n_seg {
        let xid = base + 100 * (i + 1);
        let chunks: Vec<CASChunkSequenceEntry> = (0..16u32).map(|j| CASChunkSequenceEntry::new(h(xid * 1000 + j as u64), 4 * MIB, j * 4 * MIB)).collect();
        let mut header = CASChunkSequenceHeader::new(h(xid), 16u32, 64 * MIB);
        header.num_bytes_on_disk = 64 * MIB - 4096 + i as u32; // "compressed" a little
        r.xorbs.push(MDBCASInfo { metadata: header, chunks });
        segments.push(FileDataSequenceEntry::new(h(xid), 64 * MIB, 0, 16));
    }
    r.files.push(MDBFileInfo { metadata: FileDataSequenceHeader::new(h(base + 7), n_seg as u32, false, false), segments, verification: vec![], metadata_ext: None });
}
fn small_files(r: &mut Records, base: u64, n: u64) {
    let xid = base + 50;
    let chunks: Vec<CASChunkSequenceEntry> = (0..n as u32).map(|j| CASChunkSequenceEntry::new(h(xid * 1000 + j as u64), 1000 + j, j * 2000)).collect();
    let total: u32 = chunks.iter().map(|c| c.unpacked_segment_bytes).sum();
    let mut header = CASChunkSequenceHeader::new(h(xid), n as u32, total);
    header.num_bytes_on_disk = total / 2;
    r.xorbs.push(MDBCASInfo { metadata: header, chunks });
    for j in 0..n {
        r.files.push(MDBFileInfo {
            metadata: FileDataSequenceHeader::new(h(base + 60 + j), 1, false, false),
            segments: vec![FileDataSequenceEntry::new(h(xid), 1000 + j as u32, j as u32, j as u32 + 1)],
            verification: vec![],
            metadata_ext: None,
        });
    }
}
fn footer_totals(i: &MDBShardInfo) -> (u64, u64, u64) {
    (i.materialized_bytes(), i.stored_bytes(), i.stored_bytes_on_disk())
}
fn expect_totals(ctx: &str, what: &str, got: (u64, u64, u64), want: (u64, u64, u64)) {
    if got != want {
        let names = ["materialized_bytes", "stored_bytes", "stored_bytes_on_disk"];
        let g = [got.0, got.1, got.2];
        let w = [want.0, want.1, want.2];
        let diffs: Vec<String> = (0..3).filter(|&i| g[i] != w[i]).map(|i| format!("{} = {} but the records sum to {} (difference {} = {} * 2^32 + {})", names[i], g[i], w[i], w[i].wrapping_sub(g[i]), w[i].wrapping_sub(g[i]) >> 32, w[i].wrapping_sub(g[i]) & 0xffff_ffff)).collect();
        witness(format!("{ctx}: {what}: {}", diffs.join("; ")));
    }
}
fn check_big(name: &str, r: &Records, other: &Records) {
    let ctx = format!("S5 '{name}' ({})", r.describe());
    let want = r.totals();
    let mem = r.to_mem(&ctx);
    let got = guarded(&format!("{ctx}: MDBInMemoryShard::materialized_bytes / stored_bytes / stored_bytes_on_disk"), || (mem.materialized_bytes(), mem.stored_bytes(), mem.stored_bytes_on_disk()));
    expect_totals(&ctx, "the in-memory shard's accounting", got, want);
    let mut bytes = Vec::<u8>::new();
    let info = guarded(&format!("{ctx}: MDBShardInfo::serialize_from"), || MDBShardInfo::serialize_from(&mut bytes, &mem)).unwrap_or_else(|e| witness(format!("{ctx}: serialize_from failed: {e:?}")));
    expect_totals(&ctx, "the footer returned by serialize_from", footer_totals(&info), want);
    let loaded = guarded(&ctx, || MDBShardInfo::load_from_reader(&mut Cursor::new(&bytes[..]))).unwrap_or_else(|e| witness(format!("{ctx}: the serialized shard does not load: {e:?}")));
    expect_totals(&ctx, "the footer of the serialized shard read back", footer_totals(&loaded), want);
    if mem.shard_file_size() != bytes.len() as u64 || loaded.num_bytes() != bytes.len() as u64 {
        witness(format!("{ctx}: shard_file_size()={} footer-derived size={} bytes written={}", mem.shard_file_size(), loaded.num_bytes(), bytes.len()));
    }
    // MDBMinimalShard::serialize recomputes the totals from the records
    let min = guarded(&ctx, || MDBMinimalShard::from_reader(&mut &bytes[..], true, true)).unwrap_or_else(|e| witness(format!("{ctx}: MDBMinimalShard::from_reader fails: {e:?}")));
    let mut out = Vec::<u8>::new();
    guarded(&format!("{ctx}: MDBMinimalShard::serialize"), || min.serialize(&mut out)).unwrap_or_else(|e| witness(format!("{ctx}: MDBMinimalShard::serialize fails: {e:?}")));
    let i2 = guarded(&ctx, || MDBShardInfo::load_from_reader(&mut Cursor::new(&out[..]))).unwrap_or_else(|e| witness(format!("{ctx}: the output of MDBMinimalShard::serialize does not load: {e:?}")));
    expect_totals(&ctx, "the footer written by MDBMinimalShard::serialize", footer_totals(&i2), want);
    // keyed export
    let mut out = Vec::<u8>::new();
    guarded(&format!("{ctx}: export_as_keyed_shard"), || loaded.export_as_keyed_shard(&mut Cursor::new(&bytes[..]), &mut out, h(0xABCDEF), std::time::Duration::from_secs(3600), true, true, true))
        .unwrap_or_else(|e| witness(format!("{ctx}: export_as_keyed_shard fails: {e:?}")));
    let i3 = guarded(&ctx, || MDBShardInfo::load_from_reader(&mut Cursor::new(&out[..]))).unwrap_or_else(|e| witness(format!("{ctx}: the keyed export does not load: {e:?}")));
    expect_totals(&ctx, "the footer written by export_as_keyed_shard (everything included)", footer_totals(&i3), want);
    // set operations with a small disjoint shard
    let omem = other.to_mem(&ctx);
    let mut obytes = Vec::<u8>::new();
    let oinfo = guarded(&ctx, || MDBShardInfo::serialize_from(&mut obytes, &omem)).unwrap_or_else(|e| witness(format!("{ctx}: serialize_from of the small shard failed: {e:?}")));
    let (ow, w) = (other.totals(), want);
    let both = (w.0 + ow.0, w.1 + ow.1, w.2 + ow.2);
    for swapped in [false, true] {
        let mut out = Vec::<u8>::new();
        let what = if swapped { "shard_set_union(small shard, this shard)" } else { "shard_set_union(this shard, small shard)" };
        let u = guarded(&format!("{ctx}: {what}"), || {
            if swapped { shard_set_union(&oinfo, &mut Cursor::new(&obytes[..]), &loaded, &mut Cursor::new(&bytes[..]), &mut out) } else { shard_set_union(&loaded, &mut Cursor::new(&bytes[..]), &oinfo, &mut Cursor::new(&obytes[..]), &mut out) }
        })
        .unwrap_or_else(|e| witness(format!("{ctx}: {what} fails: {e:?}")));
        expect_totals(&ctx, &format!("the footer returned by {what}"), footer_totals(&u), both);
        let ul = guarded(&ctx, || MDBShardInfo::load_from_reader(&mut Cursor::new(&out[..]))).unwrap_or_else(|e| witness(format!("{ctx}: the output of {what} does not load: {e:?}")));
        expect_totals(&ctx, &format!("the footer written by {what}"), footer_totals(&ul), both);
    }
    // difference(s1, s2) keeps the records of s2 that are not in s1
    let mut out = Vec::<u8>::new();
    let d = guarded(&format!("{ctx}: shard_set_difference(small shard, this shard)"), || shard_set_difference(&oinfo, &mut Cursor::new(&obytes[..]), &loaded, &mut Cursor::new(&bytes[..]), &mut out));
    match d {
        Ok(d) => {
            // either convention (s1 \ s2 or s2 \ s1) yields one of the two operands here, the shards being disjoint
            let t = footer_totals(&d);
            if t != want && t != ow {
                expect_totals(&ctx, "the footer returned by shard_set_difference of the two disjoint shards (must equal one operand's totals)", t, want);
            }
        },
        Err(e) => witness(format!("{ctx}: shard_set_difference fails: {e:?}")),
    }
    let um = guarded(&format!("{ctx}: MDBInMemoryShard::union"), || mem.union(&omem)).unwrap_or_else(|e| witness(format!("{ctx}: union fails: {e:?}")));
    let got = guarded(&format!("{ctx}: accounting of the in-memory union"), || (um.materialized_bytes(), um.stored_bytes(), um.stored_bytes_on_disk()));
    expect_totals(&ctx, "the in-memory union with the small shard", got, both);
    let mut ub = Vec::<u8>::new();
    let ui = guarded(&format!("{ctx}: serialize_from(in-memory union)"), || MDBShardInfo::serialize_from(&mut ub, &um)).unwrap_or_else(|e| witness(format!("{ctx}: serialize_from of the union failed: {e:?}")));
    expect_totals(&ctx, "the footer of the serialized in-memory union", footer_totals(&ui), both);
    if um.shard_file_size() != ub.len() as u64 {
        witness(format!("{ctx}: in-memory union: shard_file_size()={} bytes written={}", um.shard_file_size(), ub.len()));
    }
    let dm = guarded(&format!("{ctx}: MDBInMemoryShard::difference"), || omem.difference(&um)).unwrap_or_else(|e| witness(format!("{ctx}: difference fails: {e:?}")));
    let got = guarded(&format!("{ctx}: accounting of the in-memory difference"), || (dm.materialized_bytes(), dm.stored_bytes(), dm.stored_bytes_on_disk()));
    expect_totals(&ctx, "small.difference(union) = the records of the union that are not in the small shard = this shard", got, want);
    println!("{ctx}: ok");
}
fn s5_large_totals() {
    let mut other = Records::default();
    small_files(&mut other, 9_000_000, 5);
    let mut all = Records::default();
    for (k, n_seg) in [63u64, 64, 80].into_iter().enumerate() {
        let mut r = Records::default();
        big_file(&mut r, 1_000_000 * (k as u64 + 1), n_seg);
        small_files(&mut r, 1_000_000 * (k as u64 + 1) + 500_000, 3);
        check_big(&format!("one file of {n_seg} segments of 64 MiB ({} bytes{}) and three small files", n_seg * 64 * MIB as u64, if n_seg == 64 { " = 2^32" } else { "" }), &r, &other);
        big_file(&mut all, 1_000_000 * (k as u64 + 1), n_seg);
    }
    small_files(&mut all, 7_500_000, 4);
    check_big("files of 63, 64 and 80 segments of 64 MiB in one shard, and four small files", &all, &other);
}

fn main() {
    let mut bad = false;
    // S1: the same file hash added twice
    let mut s = MDBInMemoryShard::default();
    s.add_file_reconstruction_info(file(10)).unwrap();
    s.add_file_reconstruction_info(file(10)).unwrap();
    let (a, b) = (s.shard_file_size(), written(&s));
    println!("S1 same file hash added twice: shard_file_size()={} bytes written={}", a, b);
    if a != b { bad = true; }
    // S2: the same xorb added twice
    let mut s = MDBInMemoryShard::default();
    s.add_cas_block(xorb(20, &[1, 2, 3])).unwrap();
    s.add_cas_block(xorb(20, &[1, 2, 3])).unwrap();
    let (a, b) = (s.shard_file_size(), written(&s));
    println!("S2 same xorb added twice: shard_file_size()={} bytes written={}", a, b);
    if a != b { bad = true; }
    // S3: two xorbs sharing one chunk hash, then union with an empty shard (recalculate_shard_size)
    let mut s = MDBInMemoryShard::default();
    s.add_cas_block(xorb(30, &[1, 2])).unwrap();
    s.add_cas_block(xorb(40, &[2, 3])).unwrap();
    let (a, b) = (s.shard_file_size(), written(&s));
    println!("S3a two xorbs sharing chunk 2, incremental: shard_file_size()={} bytes written={}", a, b);
    if a != b { bad = true; }
    let u = s.union(&MDBInMemoryShard::default()).unwrap();
    let (a, b) = (u.shard_file_size(), written(&u));
    println!("S3b same content after union() (recalculate_shard_size): shard_file_size()={} bytes written={}", a, b);
    if a != b { bad = true; }
    // S4: difference: self = {xorb 30}, other = {xorb 30, xorb 40 sharing a chunk with 30}
    let mut a_ = MDBInMemoryShard::default();
    a_.add_cas_block(xorb(30, &[1, 2])).unwrap();
    let d = a_.difference(&s).unwrap();
    let (a, b) = (d.shard_file_size(), written(&d));
    println!("S4 difference keeping a xorb whose chunk hash is also in the removed xorb: shard_file_size()={} bytes written={}", a, b);
    if a != b { bad = true; }
    if bad { println!("WITNESS the in-memory size counter differs from the serialized size (see the S-lines above)"); std::process::exit(1); }
    std::panic::set_hook(Box::new(|_| {}));
    s5_large_totals();
    println!("no violation found");
}
