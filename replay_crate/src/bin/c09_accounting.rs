//! Witness search for C09 ("its size and byte totals equal the in-memory accounting"): the REAL MDBInMemoryShard size counter
//! (`shard_file_size()`, maintained incrementally by add_cas_block / add_file_reconstruction_info and recomputed by
//! recalculate_shard_size in union / difference) against the number of bytes the REAL `MDBShardInfo::serialize_from` writes, for
//! shards with repeated file hashes, repeated xorbs and xorbs sharing chunk hashes.  Prints `WITNESS ...` and exits 1 on a mismatch.
use mdb_shard::cas_structs::{CASChunkSequenceEntry, CASChunkSequenceHeader, MDBCASInfo};
use mdb_shard::file_structs::{FileDataSequenceEntry, FileDataSequenceHeader, MDBFileInfo};
use mdb_shard::shard_format::MDBShardInfo;
use mdb_shard::shard_in_memory::MDBInMemoryShard;
use merklehash::MerkleHash;

fn h(x: u64) -> MerkleHash { MerkleHash::from([x, x + 1, x + 2, x + 3]) }
fn xorb(id: u64, chunk_ids: &[u64]) -> MDBCASInfo {
    let chunks: Vec<CASChunkSequenceEntry> =
        chunk_ids.iter().enumerate().map(|(i, c)| CASChunkSequenceEntry::new(h(*c), 100, (i * 100) as u32)).collect();
    MDBCASInfo { metadata: CASChunkSequenceHeader::new(h(id), chunks.len(), 100 * chunks.len() as u32), chunks }
}
fn file(id: u64) -> MDBFileInfo {
    MDBFileInfo {
        metadata: FileDataSequenceHeader::new(h(id), 1, false, false),
        segments: vec![FileDataSequenceEntry::new(h(1000), 100, 0, 1)],
        verification: vec![],
        metadata_ext: None,
    }
}
fn written(s: &MDBInMemoryShard) -> u64 {
    let mut buf = Vec::<u8>::new();
    MDBShardInfo::serialize_from(&mut buf, s).unwrap();
    buf.len() as u64
}
fn main() {
    let mut bad = false;
    // S1: the same file hash added twice
    let mut s = MDBInMemoryShard::default();
    s.add_file_reconstruction_info(file(10)).unwrap();
    s.add_file_reconstruction_info(file(10)).unwrap();
    let (a, b) = (s.shard_file_size(), written(&s));
    println!("S1 same file hash added twice: shard_file_size()={} bytes written={}", a, b);
    if a != b { bad = true; }
    // S2: the same xorb added twice
    let mut s = MDBInMemoryShard::default();
    s.add_cas_block(xorb(20, &[1, 2, 3])).unwrap();
    s.add_cas_block(xorb(20, &[1, 2, 3])).unwrap();
    let (a, b) = (s.shard_file_size(), written(&s));
    println!("S2 same xorb added twice: shard_file_size()={} bytes written={}", a, b);
    if a != b { bad = true; }
    // S3: two xorbs sharing one chunk hash, then union with an empty shard (recalculate_shard_size)
    let mut s = MDBInMemoryShard::default();
    s.add_cas_block(xorb(30, &[1, 2])).unwrap();
    s.add_cas_block(xorb(40, &[2, 3])).unwrap();
    let (a, b) = (s.shard_file_size(), written(&s));
    println!("S3a two xorbs sharing chunk 2, incremental: shard_file_size()={} bytes written={}", a, b);
    if a != b { bad = true; }
    let u = s.union(&MDBInMemoryShard::default()).unwrap();
    let (a, b) = (u.shard_file_size(), written(&u));
    println!("S3b same content after union() (recalculate_shard_size): shard_file_size()={} bytes written={}", a, b);
    if a != b { bad = true; }
    // S4: difference: self = {xorb 30}, other = {xorb 30, xorb 40 sharing a chunk with 30}
    let mut a_ = MDBInMemoryShard::default();
    a_.add_cas_block(xorb(30, &[1, 2])).unwrap();
    let d = a_.difference(&s).unwrap();
    let (a, b) = (d.shard_file_size(), written(&d));
    println!("S4 difference keeping a xorb whose chunk hash is also in the removed xorb: shard_file_size()={} bytes written={}", a, b);
    if a != b { bad = true; }
    if bad { println!("WITNESS the in-memory size counter differs from the serialized size (see the S-lines above)"); std::process::exit(1); }
    println!("no violation found");
}
