#!/bin/bash
# run.sh <bin> — build the replay crate against the crates of $VX_REPO (default /repo) and run one witness search.
# Prints `WITNESS <description>` and exits 1 when it finds a concrete input on which the REAL code violates the property.
# Concurrency-safe: the manifest is generated into a per-repository directory under the target dir; the sources are shared.
HERE="$(cd "$(dirname "$0")" && pwd)"
REPO=${VX_REPO:-/repo}
export CARGO_TARGET_DIR=${VX_REPLAY_TARGET:-/verif/build/replay_target}
if [ -z "$VX_REPLAY_TARGET" ] && [ "$(realpath "$REPO")" != "/repo" ]; then
  # a scratch tree (seeded change, replay of a violation): its own target directory, seeded with hard links to the dependency
  # artifacts already built for /repo, and removed by the driver at the end of the check (1-2 GB of workspace-crate artifacts per tree
  # would otherwise pile up in the shared directory)
  MAIN=$CARGO_TARGET_DIR
  export CARGO_TARGET_DIR=/verif/build/replay_target_other/$(echo -n "$(realpath "$REPO")" | md5sum | cut -c1-10)
  if [ ! -d "$CARGO_TARGET_DIR/debug" ] && [ -d "$MAIN/debug" ]; then
    mkdir -p "$CARGO_TARGET_DIR" && cp -al "$MAIN/debug" "$CARGO_TARGET_DIR/debug" 2>/dev/null
    rm -rf "$CARGO_TARGET_DIR/debug/incremental"
  fi
fi
export CARGO_NET_OFFLINE=true
W="$CARGO_TARGET_DIR/manifest-$(echo -n "$REPO" | md5sum | cut -c1-10)"
mkdir -p "$W/.cargo"
sed "s#@REPO@#$REPO#g" "$HERE/Cargo.toml.in" > "$W/Cargo.toml.new"
cmp -s "$W/Cargo.toml.new" "$W/Cargo.toml" || mv "$W/Cargo.toml.new" "$W/Cargo.toml"
rm -f "$W/Cargo.toml.new"
cp "$REPO/Cargo.lock" "$W/Cargo.lock" 2>/dev/null
printf '[net]\noffline = true\n' > "$W/.cargo/config.toml"
ln -sfn "$HERE/src" "$W/src"
LOG=$(mktemp /tmp/replay_build.XXXXXX)
(cd "$W" && cargo run -q --offline --bin "$1" 2>"$LOG")
rc=$?
if [ $rc -ne 0 ] && [ $rc -ne 1 ]; then tail -20 "$LOG"; fi
rm -f "$LOG"
exit $rc
