#!/bin/bash
# run.sh <bin> — build the replay crate against the crates of $VX_REPO (default /repo) and run one witness search.
# Prints `WITNESS <description>` and exits 1 when it finds a concrete input on which the REAL code violates the property.
cd "$(dirname "$0")"
REPO=${VX_REPO:-/repo}
sed "s#@REPO@#$REPO#g" Cargo.toml.in > Cargo.toml
cp "$REPO/Cargo.lock" Cargo.lock 2>/dev/null
export CARGO_TARGET_DIR=${VX_REPLAY_TARGET:-/verif/build/replay_target}
export CARGO_NET_OFFLINE=true
cargo run -q --offline --bin "$1" 2>/tmp/replay_build_$$.log
rc=$?
if [ $rc -ne 0 ] && [ $rc -ne 1 ]; then tail -20 /tmp/replay_build_$$.log; fi
rm -f /tmp/replay_build_$$.log
exit $rc
