#!/bin/bash
# seedstore.sh <ID> <name> "<what I ran and saw>" "<check outcome>"  — keep a confirmed seeded change under /verif/seeded/<name>/
ID=$1; NAME=$2; RAN=$3; OUT=$4
SRC=${SEEDDIR:-/tmp/seed/$ID-out}
D=/verif/seeded/$NAME
mkdir -p $D && cp $SRC/patch.diff $D/ && cp -r $SRC/demo $D/ && python3 - "$SRC/meta.json" "$D/meta.json" "$RAN" "$OUT" <<'PY'
import json,sys
m=json.load(open(sys.argv[1]))
m["confirmed_by_framework_author"]={"what_i_ran": sys.argv[3], "our_check": sys.argv[4]}
json.dump(m,open(sys.argv[2],"w"),indent=1)
PY
echo stored $D
