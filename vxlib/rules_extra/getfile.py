"""Extra catalogue rule for U-GETFILE (general, syntactic; no change to conditions, arithmetic, indices or call order).

R7o  Option::map_or with a closure literal, unfolded to its core definition:
         RECV.map_or(DEFAULT, |x| BODY)   ->   (match RECV { Some(x) => BODY, None => DEFAULT })
     beta-reduction with the same binder; rustc rejects the result if RECV is not an Option.  `map_or` evaluates DEFAULT eagerly, the
     `match` only in the `None` arm, so the rule fires only when DEFAULT is a literal, an identifier, a path or a field access
     (no call, no operator: nothing with an effect, nothing that can panic).  Left alone unless: single identifier parameter, no
     `move`, BODY has no return/?/break/continue, RECV is a postfix chain.  Verus has no specification for `Option::map_or` and gives an
     unannotated closure no postcondition, so without the rule the value would be unknown to the verifier (undecided at best).
     Same shape as R7m of recon.py / setops.py (`Option::map`); the receiver scan is recon.py's.
"""
from ..lexer import lex, sig
from ..extract import match_close
from ..rewrite import find_seq, split_args
from .recon import _recv_start


def _pure_default(toks):
    """a literal, identifier, path or field access: `0`, `None`, `DEFAULT_LEN`, `u64::MAX`, `cfg.start`"""
    if not toks:
        return False
    for k, t in enumerate(toks):
        if t.kind in ("num", "str", "char"):
            continue
        if t.kind == "ident" and t.text not in ("return", "break", "continue", "move", "unsafe", "await", "loop", "while", "for", "if", "match"):
            continue
        if t.kind == "punct" and t.text in (".", ":"):
            continue
        return False
    return True


def r7o_option_map_or(text, log):
    while True:
        st = sig(lex(text))
        done = True
        for i in find_seq(st, [".", "map_or", "("]):
            o = i + 2
            c = match_close(st, o)
            # first top-level comma: end of DEFAULT; then `| x |` BODY
            j = o + 1
            comma = None
            while j < c:
                t = st[j]
                if t.kind == "punct" and t.text in "([{":
                    j = match_close(st, j) + 1
                    continue
                if t.kind == "punct" and t.text == ",":
                    comma = j
                    break
                j += 1
            if comma is None or comma + 4 >= c:
                continue
            if st[comma + 1].text != "|" or st[comma + 2].kind != "ident" or st[comma + 3].text != "|":
                continue
            x = st[comma + 2].text
            if x in ("mut", "ref", "_", "move"):
                continue
            dflt = st[o + 1:comma]
            if not _pure_default(dflt):
                continue
            body_toks = st[comma + 4:c]
            # a trailing comma after the closure belongs to the argument list, not to BODY
            if body_toks and body_toks[-1].text == ",":
                body_toks = body_toks[:-1]
            if not body_toks or any(t.kind == "ident" and t.text in ("return", "break", "continue") for t in body_toks) \
                    or any(t.kind == "punct" and t.text == "?" for t in body_toks):
                continue
            if body_toks[0].text == "-" and len(body_toks) > 1 and body_toks[1].text == ">":
                continue  # closure with return type annotation
            r0 = _recv_start(st, i)
            if r0 is None:
                continue
            recv = text[st[r0].start:st[i - 1].end]
            body = text[body_toks[0].start:body_toks[-1].end]
            dtext = text[dflt[0].start:dflt[-1].end]
            new = "(match %s { Some(%s) => %s, None => %s })" % (recv, x, body, dtext)
            text = text[:st[r0].start] + new + text[st[c].end:]
            log["R7o Option::map_or unfold"] = log.get("R7o Option::map_or unfold", 0) + 1
            done = False
            break
        if done:
            return text


RULES = {"R7o": r7o_option_map_or}
