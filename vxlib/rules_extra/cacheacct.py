"""Extra catalogue rule used by U-CACHEACCT / U-CACHESLICE (general and syntactic; selected per item with `//@ rules`).

R18  `for PAT in EXPR { B }`  ->  `for PAT in vx_it<k>: EXPR { B }`      (k = ordinal of the `for` in the item, 1-based)
     Verus' for-loop syntax lets the ghost view of the iterator be *named* so that a loop invariant can speak about the
     position (`vx_it1.index@`) and the items still to come (`vx_it1.seq()`).  The label introduces a ghost name only:
     the iterated expression, the pattern and the body are untouched and the executable loop is the same loop (same
     argument as R13, which names the return value).  Loops that already carry a label are left alone.
"""
from ..lexer import lex, sig
from ..extract import match_close
from ..rewrite import RewriteError, apply_edits


def r18_name_for_iter(text, log):
    st = sig(lex(text))
    edits = []
    k = 0
    for i, t in enumerate(st):
        if not (t.kind == "ident" and t.text == "for"):
            continue
        # `for<'a>` higher-ranked bound: not a loop
        if i + 1 < len(st) and st[i + 1].text == "<":
            continue
        # find the `in` of this loop header (patterns may contain parentheses / brackets)
        j = i + 1
        in_idx = None
        while j < len(st):
            x = st[j]
            if x.kind == "punct" and x.text in "([":
                j = match_close(st, j) + 1
                continue
            if x.text == "{" or x.text == ";":
                break
            if x.kind == "ident" and x.text == "in":
                in_idx = j
                break
            j += 1
        if in_idx is None:
            continue
        k += 1
        # already labelled: `in name : expr`
        if in_idx + 2 < len(st) and st[in_idx + 1].kind == "ident" and st[in_idx + 2].text == ":" and \
                not (in_idx + 3 < len(st) and st[in_idx + 3].text == ":"):
            continue
        edits.append((st[in_idx].end, st[in_idx].end, " vx_it%d:" % k))
    if edits:
        log["R18 name-for-iterator"] = log.get("R18 name-for-iterator", 0) + len(edits)
    return apply_edits(text, edits)


RULES = {"R18": r18_name_for_iter}
