"""Extra catalogue rule used by U-CACHEACCT / U-CACHESLICE (general and syntactic; selected per item with `//@ rules`).

R18  `for PAT in EXPR { B }`  ->  `for PAT in vx_it<k>: EXPR { B }`      (k = ordinal of the `for` in the item, 1-based)
     Verus' for-loop syntax lets the ghost view of the iterator be *named* so that a loop invariant can speak about the
     position (`vx_it1.index@`) and the items still to come (`vx_it1.seq()`).  The label introduces a ghost name only:
     the iterated expression, the pattern and the body are untouched and the executable loop is the same loop (same
     argument as R13, which names the return value).  Loops that already carry a label are left alone.
"""
from ..lexer import lex, sig
from ..extract import match_close
from ..rewrite import RewriteError, apply_edits


def r18_name_for_iter(text, log):
    st = sig(lex(text))
    edits = []
    k = 0
    for i, t in enumerate(st):
        if not (t.kind == "ident" and t.text == "for"):
            continue
        # `for<'a>` higher-ranked bound: not a loop
        if i + 1 < len(st) and st[i + 1].text == "<":
            continue
        # find the `in` of this loop header (patterns may contain parentheses / brackets)
        j = i + 1
        in_idx = None
        while j < len(st):
            x = st[j]
            if x.kind == "punct" and x.text in "([":
                j = match_close(st, j) + 1
                continue
            if x.text == "{" or x.text == ";":
                break
            if x.kind == "ident" and x.text == "in":
                in_idx = j
                break
            j += 1
        if in_idx is None:
            continue
        k += 1
        # already labelled: `in name : expr`
        if in_idx + 2 < len(st) and st[in_idx + 1].kind == "ident" and st[in_idx + 2].text == ":" and \
                not (in_idx + 3 < len(st) and st[in_idx + 3].text == ":"):
            continue
        edits.append((st[in_idx].end, st[in_idx].end, " vx_it%d:" % k))
    if edits:
        log["R18 name-for-iterator"] = log.get("R18 name-for-iterator", 0) + len(edits)
    return apply_edits(text, edits)




def r4v_windows_any(text, log):
    """R4v  `E.windows(K).any(|w| B)`  ->  `{ let mut vx_any = false; let mut vx_wi: usize = 0;
              while vx_wi < E.len() && E.len() - vx_wi >= K { let w = &E[vx_wi..vx_wi + K]; if B { vx_any = true; break; } vx_wi += 1; } vx_any }`
    Definitional for slices / Vec: `windows(K)` yields `&E[0..K], &E[1..K+1], …` while they fit, `Iterator::any` applies the closure
    in that order and stops at the first `true`.  E must be a plain path (identifier / field path), K a literal, the closure a single
    identifier parameter and an expression body without `return`."""
    while True:
        st = sig(lex(text))
        done = True
        for i, t in enumerate(st):
            if not (t.text == "." and i + 2 < len(st) and st[i + 1].text == "windows" and st[i + 2].text == "("):
                continue
            c = match_close(st, i + 2)
            if c != i + 4 or st[i + 3].kind != "num":
                continue
            if not (st[c + 1].text == "." and st[c + 2].text == "any" and st[c + 3].text == "("):
                continue
            c2 = match_close(st, c + 3)
            if not (st[c + 4].text == "|" and st[c + 5].kind == "ident" and st[c + 6].text == "|"):
                raise RewriteError("R4v: unsupported closure parameter")
            body = text[st[c + 7].start:st[c2 - 1].end]
            if "return" in [x.text for x in st[c + 7:c2]]:
                raise RewriteError("R4v: closure with return")
            # receiver path: ident (. ident)* ending right before st[i]
            j = i - 1
            if st[j].kind != "ident":
                raise RewriteError("R4v: receiver is not a plain path")
            while j - 2 >= 0 and st[j - 1].text == "." and st[j - 2].kind == "ident":
                j -= 2
            e = text[st[j].start:st[i - 1].end]
            k = st[i + 3].text
            w = st[c + 5].text
            new = ("{ let mut vx_any = false; let mut vx_wi: usize = 0; while vx_wi < %s.len() && %s.len() - vx_wi >= %s { let %s = &%s[vx_wi..vx_wi + %s]; "
                   "if %s { vx_any = true; break; } vx_wi += 1; } vx_any }") % (e, e, k, w, e, k, body)
            text = text[:st[j].start] + new + text[st[c2].end:]
            log["R4v windows-any -> while loop"] = log.get("R4v windows-any -> while loop", 0) + 1
            done = False
            break
        if done:
            return text


def r4i_for_next(text, log):
    """R4i  `for PAT in EXPR { B }` (unlabelled, not a range)  ->  `{ let mut vx_itK = (EXPR).into_iter(); loop { let PAT = match
    vx_itK.next() { Some(vx_x) => vx_x, None => break, }; B } }`   — the desugaring of `for` in the Rust reference, for iterators
    that have no Verus specification (e.g. `std::fs::ReadDir`).  `continue`/`break` in B keep their meaning (same loop)."""
    k = 0
    while True:
        st = sig(lex(text))
        done = True
        for i, t in enumerate(st):
            if not (t.kind == "ident" and t.text == "for"):
                continue
            if i + 1 < len(st) and st[i + 1].text == "<":
                continue
            if i > 0 and st[i - 1].text == ":" and i > 1 and st[i - 2].kind == "lifetime":
                raise RewriteError("R4i: labelled for loop")
            j = i + 1
            in_idx = None
            while j < len(st):
                x = st[j]
                if x.kind == "punct" and x.text in "([":
                    j = match_close(st, j) + 1
                    continue
                if x.kind == "ident" and x.text == "in":
                    in_idx = j
                    break
                j += 1
            b = in_idx + 1
            while st[b].text != "{":
                if st[b].kind == "punct" and st[b].text in "([":
                    b = match_close(st, b) + 1
                    continue
                b += 1
            expr_toks = [x.text for x in st[in_idx + 1:b]]
            if "." in expr_toks and expr_toks.count(".") >= 2 and ".." in "".join(expr_toks):
                continue  # a range: leave to Verus / R4c
            c = match_close(st, b)
            k += 1
            pat = text[st[i + 1].start:st[in_idx - 1].end]
            expr = text[st[in_idx + 1].start:st[b - 1].end]
            body = text[st[b].end:st[c].start]
            new = "{ let mut vx_it%d = (%s).into_iter(); loop { let %s = match vx_it%d.next() { Some(vx_x) => vx_x, None => break, }; %s } }" % (k, expr, pat, k, body)
            text = text[:t.start] + new + text[st[c].end:]
            log["R4i for -> loop + next"] = log.get("R4i for -> loop + next", 0) + 1
            done = False
            break
        if done:
            return text


def r8c_continue_outer(text, log):
    """R8c  (lifted regions only)  `continue 'L` where the label 'L is not declared inside the region  ->  `return <epilogue>`.
    Leaving the region to continue an ENCLOSING loop is leaving the lifted function by its normal exit with the current values of
    the live variables — which is what R8's epilogue packs.  The epilogue is the last line of the lifted function."""
    st = sig(lex(text))
    lines = text.rstrip().split("\n")
    if len(lines) < 3 or lines[-1].strip() != "}":
        return text
    epilogue = lines[-2].strip()
    declared = set()
    for i, t in enumerate(st):
        if t.kind == "lifetime" and i + 1 < len(st) and st[i + 1].text == ":" and i + 2 < len(st) and st[i + 2].text in ("for", "while", "loop"):
            declared.add(t.text)
    edits = []
    for i, t in enumerate(st):
        if t.kind == "ident" and t.text == "continue" and i + 1 < len(st) and st[i + 1].kind == "lifetime" and st[i + 1].text not in declared:
            if not epilogue:
                raise RewriteError("R8c: region has no epilogue")
            edits.append((t.start, st[i + 1].end, "return %s" % epilogue))
    if edits:
        log["R8c continue-outer -> region exit"] = log.get("R8c continue-outer -> region exit", 0) + len(edits)
    return apply_edits(text, edits)


RULES = {"R18": r18_name_for_iter, "R4v": r4v_windows_any, "R4i": r4i_for_next, "R8c": r8c_continue_outer}
