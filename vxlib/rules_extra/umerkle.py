"""Extra catalogue rules used by U-MERKLE (general, syntactic; DESIGN.md section 2.2, R4 loop desugarings).

R4d  `let [mut] X[: T] = E.iter().map(|P| F).collect();`
        -> `let [mut] X[: T] = { let mut vx_v[: T] = Vec::new();
                                  for vx_i in 0..E.len() { let P = &E[vx_i]; vx_v.push(F); } vx_v };`
     definitional for slices / Vec: `iter()` yields `&E[0]`, `&E[1]`, ... in order, `map` applies the closure to each
     item once in that order, `collect::<Vec<_>>()` pushes the results in order.  `E` is borrowed immutably for the
     whole chain in the original, so indexing reads the same elements.  The closure body F is kept verbatim.
     Only fires when the statement is exactly of that shape (the `.map(..)` is directly followed by `.collect()`),
     and the closure has exactly one parameter pattern and no `return`.

R4g  `let [mut] X[: T] = E.iter().flat_map(|P| F).collect();`   with F a `Vec`
        -> `let [mut] X[: T] = { let mut vx_v[: T] = Vec::new();
                                  for vx_i in 0..E.len() { let P = &E[vx_i]; let mut vx_f = F; vx_v.append(&mut vx_f); } vx_v };`
     as R4d; `flat_map` yields the items of each F in order and `collect` appends them: `Vec::append` moves exactly those
     items, in order.  If F is not a `Vec` the rewritten text does not type-check.

R4f  `for I in A..=B { S }`   (no `continue`/`break` in S)
        -> `{ let mut I = A; let vx_last = B; let mut vx_more = I <= vx_last;
              while vx_more { S  if I < vx_last { I += 1; } else { vx_more = false; } } }`
     this is `RangeInclusive::next` written out (yield `start` while `start <= end`; stop after yielding `end`, without
     computing `end + 1`); A and B are evaluated once, in that order, as in the original.  S is kept verbatim.

R9o  `E.and_then(|X| F)`   (closure literal with one identifier parameter, no `return` / `?` in F)
        -> `(match E { Some(X) => F, None => None })`
     the definition of `Option::and_then` (core/src/option.rs) with the closure beta-reduced; E and F are kept verbatim and
     evaluated in the same order.  If E is not an `Option` (e.g. a `Result`) the rewritten text does not type-check, so a
     wrong guess cannot go unnoticed.
"""
from ..lexer import lex, sig
from ..extract import match_close
from ..rewrite import span_text, RewriteError, _stmt_for_header


def _top_level_find(st, lo, hi, pat):
    """first index j in [lo, hi) at bracket depth 0 where st[j:j+len(pat)] texts == pat"""
    j = lo
    n = len(pat)
    while j < hi:
        if [x.text for x in st[j:j + n]] == pat:
            return j
        t = st[j]
        if t.kind == "punct" and t.text in "([{":
            j = match_close(st, j) + 1
            continue
        j += 1
    return None


def r4f_range_inclusive(text, log):
    while True:
        st = sig(lex(text))
        done = True
        for i, t in enumerate(st):
            if not (t.kind == "ident" and t.text == "for"):
                continue
            in_idx, b = _stmt_for_header(st, i)
            if in_idx is None or in_idx != i + 2 or st[i + 1].kind != "ident":
                continue
            d = _top_level_find(st, in_idx + 1, b, [".", ".", "="])
            if d is None:
                continue
            # the three punctuation tokens must be adjacent in the source (`..=`)
            if not (st[d].end == st[d + 1].start and st[d + 1].end == st[d + 2].start):
                continue
            c = match_close(st, b)
            body_toks = [x.text for x in st[b + 1:c]]
            if "continue" in body_toks or "break" in body_toks:
                raise RewriteError("R4f: `continue`/`break` inside RangeInclusive loop")
            iv = st[i + 1].text
            a_txt = span_text(text, st, in_idx + 1, d)
            b_txt = span_text(text, st, d + 3, b)
            if not a_txt.strip() or not b_txt.strip():
                continue
            body = text[st[b].end:st[c].start]
            new = ("{ let mut %s = %s; let vx_last = %s; let mut vx_more = %s <= vx_last; while vx_more {%s "
                   "if %s < vx_last { %s += 1; } else { vx_more = false; } } }") % (iv, a_txt, b_txt, iv, body, iv, iv)
            text = text[:t.start] + new + text[st[c].end:]
            log["R4f RangeInclusive -> while"] = log.get("R4f RangeInclusive -> while", 0) + 1
            done = False
            break
        if done:
            return text


def _iter_adapter_collect(text, log, adapter, logname, emit):
    while True:
        st = sig(lex(text))
        done = True
        for i, t in enumerate(st):
            if not (t.kind == "ident" and t.text == "let"):
                continue
            # statement end: first `;` at depth 0
            j = i + 1
            semi = None
            while j < len(st):
                x = st[j]
                if x.kind == "punct" and x.text in "([{":
                    j = match_close(st, j) + 1
                    continue
                if x.kind == "punct" and x.text in ")]}":
                    break
                if x.text == ";":
                    semi = j
                    break
                j += 1
            if semi is None:
                continue
            if [x.text for x in st[semi - 4:semi]] != [".", "collect", "(", ")"]:
                continue
            # name / type / `=`
            k = i + 1
            is_mut = False
            if st[k].text == "mut":
                is_mut = True
                k += 1
            if st[k].kind != "ident":
                continue
            name = st[k].text
            eq = None
            m = k + 1
            while m < semi:
                x = st[m]
                if x.kind == "punct" and x.text in "([{":
                    m = match_close(st, m) + 1
                    continue
                if x.text == "=" and st[m + 1].text != "=":
                    eq = m
                    break
                m += 1
            if eq is None:
                continue
            ty = ""
            if st[k + 1].text == ":":
                ty = span_text(text, st, k + 2, eq)
            elif eq != k + 1:
                continue
            im = _top_level_find(st, eq + 1, semi, [".", "iter", "(", ")", ".", adapter, "("])
            if im is None or im == eq + 1:
                continue
            mo = im + 6
            mc = match_close(st, mo)
            if mc != semi - 5:
                continue
            # closure: | P | F
            if st[mo + 1].text != "|":
                continue
            p_end = None
            q = mo + 2
            while q < mc:
                x = st[q]
                if x.kind == "punct" and x.text in "([{":
                    q = match_close(st, q) + 1
                    continue
                if x.text == "|":
                    p_end = q
                    break
                if x.text == ",":
                    p_end = None
                    break
                q += 1
            if p_end is None:
                continue
            f_toks = [x.text for x in st[p_end + 1:mc]]
            if "return" in f_toks:
                raise RewriteError("R4d/R4g: `return` inside mapped closure")
            e_txt = span_text(text, st, eq + 1, im)
            p_txt = span_text(text, st, mo + 2, p_end)
            f_txt = span_text(text, st, p_end + 1, mc)
            tyann = (": " + ty) if ty else ""
            new = ("let %s%s%s = { let mut vx_v%s = Vec::new(); for vx_i in 0..%s.len() { let %s = &%s[vx_i]; "
                   "%s } vx_v };") % ("mut " if is_mut else "", name, tyann, tyann, e_txt, p_txt, e_txt, emit(f_txt))
            text = text[:t.start] + new + text[st[semi].end:]
            log[logname] = log.get(logname, 0) + 1
            done = False
            break
        if done:
            return text


def _receiver_start(st, dot):
    """st[dot] is the `.` before a method name; walk back over the postfix chain `a.b(c)[d].e` to its first token"""
    j = dot - 1
    while j >= 0:
        t = st[j]
        if t.kind == "punct" and t.text in ")]":
            # find matching open by scanning back
            depth = 0
            k = j
            while k >= 0:
                if st[k].kind == "punct" and st[k].text in ")]}":
                    depth += 1
                elif st[k].kind == "punct" and st[k].text in "([{":
                    depth -= 1
                    if depth == 0:
                        break
                k -= 1
            j = k - 1
            # a call/index is preceded by its callee (ident) handled by the loop below
            continue
        if t.kind in ("ident", "number", "literal"):
            if j - 1 >= 0 and st[j - 1].text == "." and not (j - 2 >= 0 and st[j - 2].text == "."):
                j -= 2
                continue
            if j - 2 >= 0 and st[j - 1].text == ":" and st[j - 2].text == ":":
                j -= 3
                continue
            return j
        break
    return j + 1


def r9o_option_and_then(text, log):
    while True:
        st = sig(lex(text))
        done = True
        for i, t in enumerate(st):
            if not (t.kind == "ident" and t.text == "and_then" and i > 0 and st[i - 1].text == "." and st[i + 1].text == "("):
                continue
            o = i + 1
            c = match_close(st, o)
            if not (st[o + 1].text == "|" and st[o + 2].kind == "ident" and st[o + 3].text == "|"):
                continue
            f_toks = [x.text for x in st[o + 4:c]]
            if "return" in f_toks or "?" in f_toks:
                raise RewriteError("R9o: `return`/`?` inside and_then closure")
            rs = _receiver_start(st, i - 1)
            e_txt = span_text(text, st, rs, i - 1)
            x = st[o + 2].text
            f_txt = span_text(text, st, o + 4, c)
            new = "(match %s { Some(%s) => %s, None => None })" % (e_txt, x, f_txt)
            text = text[:st[rs].start] + new + text[st[c].end:]
            log["R9o Option::and_then(closure) -> match"] = log.get("R9o Option::and_then(closure) -> match", 0) + 1
            done = False
            break
        if done:
            return text


def r4d_map_collect(text, log):
    return _iter_adapter_collect(text, log, "map", "R4d iter-map-collect -> push loop", lambda f: "vx_v.push(%s);" % f)


def r4g_flat_map_collect(text, log):
    return _iter_adapter_collect(text, log, "flat_map", "R4g iter-flat_map-collect -> append loop",
                                 lambda f: "let mut vx_f = %s; vx_v.append(&mut vx_f);" % f)


RULES = {"R4g": r4g_flat_map_collect, "R4d": r4d_map_collect, "R4f": r4f_range_inclusive, "R9o": r9o_option_and_then}
