"""Extra catalogue rule used by U-SHFLUSH: R19 guard-lifetime elaboration.

What Rust does implicitly and the rule writes down:  a lock guard bound by

        let [mut] g = <recv> . write() ;        (also `.lock()`; an optional `?` / `.unwrap()` / `.expect(..)` may follow;
                                                 `.await` has been erased by R1 before)

is RELEASED when `g` is dropped: at an explicit `drop(g)`, when control leaves the enclosing block through `return`, `?`,
`break`/`continue`, or at the closing brace of that block.  A guard that is a temporary (`*<recv>.write() = E;`,
`<recv>.write().m(..);`, `let p = <recv>.write().m(..);`) is released at the end of its statement.

The unit models the guard as `&mut T` whose value at the acquisition is arbitrary (whatever other tasks left there).  The rule
adds, and adds only, ghost code:

  * after the `let`:            let ghost vx_old_g_k = *g;  let ghost mut vx_held_g_k = true;
  * before `drop(g);`           proof { if vx_held_g_k { vx_release_write(vx_old_g_k, *g); }  vx_held_g_k = false; }
    (same for a same-block `let g = ..` that shadows the guard: the shadowed guard cannot be touched any more, so its value at
    the scope end is its value here)
  * at every exit of the block and before its closing brace (REL :=  proof { if vx_held_g_k { vx_release_write(vx_old_g_k, *g); } }):
        return E        ->  return ({ let vx_rN = E; REL vx_rN })          (E is evaluated first, as in Rust)
        return          ->  ({ REL return })
        E?              ->  ({ let vx_qN = E; proof { if vx_exits(vx_qN) && held { release } } vx_qN })?      (in place)
        break/continue that leave the block -> { REL break }
        ... tail }      ->  ... let vx_tN = tail; REL vx_tN }     (only if the tail mentions a guard / is an if/match;  else
                            ... REL tail } ;  no tail: ... REL })
  * temporaries are first given a name, preserving evaluation order (assignment: right operand before the place expression):
        *R.write() = E;          ->  { let vx_tvN = E; let mut vx_tgN = R.write(); *vx_tgN = vx_tvN; }
        HEAD R.write() rest;          ->  { let mut vx_tgN = R.write(); HEAD vx_tgN rest; }
        let P = HEAD R.write() rest;  ->  let P = { let mut vx_tgN = R.write(); HEAD vx_tgN rest };
            where HEAD consists only of path tokens, `(`, `&`, `mut`, `*` (e.g. `take(&mut *`), i.e. nothing is evaluated
            before the acquisition
    and then treated as above.  Any other position of a zero-argument `.write()` / `.lock()` is refused (RewriteError ->
    undecided), never silently skipped.

`vx_release_write` / `vx_release_lock` are provided by the unit: proof functions whose PRECONDITION is the lock invariant step
between the value found at the acquisition and the value left at the release.  `vx_exits(x)` is a spec function of the unit
(`Err`/`None`).  `.read()` guards carry no obligation and are left alone.

No arithmetic, condition, index, field update or call order is changed; the inserted `let vx_..= E;` bindings evaluate E exactly
where Rust evaluates it.  Not handled (refused or documented): guards moved into another function / returned, `return`/`?`
inside brace-less closures (`|x| f(x)?`; braced closure bodies and `async` blocks are recognised: exits inside them release only
guards acquired inside), ghost flags across loop back-edges (a `drop(g)` inside a loop that is inside the guard's scope needs a loop
invariant about `vx_held_g_k`), nested-block shadowing of a guard name.
"""
from ..lexer import lex, sig
from ..extract import match_close
from ..rewrite import apply_edits, RewriteError

METHODS = {"write": "vx_release_write", "lock": "vx_release_lock"}
KEY = "R19 guard-lifetime elaboration"
_BLOCKLIKE = {"if", "match", "for", "while", "loop", "unsafe", "{", "fn", "struct", "enum", "impl", "mod", "trait"}
_LOOPS = {"for", "while", "loop"}


def _open_of(st, i):
    """index of the `{` of the innermost brace block containing token i (None at top level)"""
    depth = 0
    j = i - 1
    while j >= 0:
        t = st[j]
        if t.kind == "punct":
            if t.text in ")]}":
                depth += 1
            elif t.text in "([{":
                if depth == 0:
                    if t.text == "{":
                        return j
                    # inside ( or [ : keep walking outwards
                else:
                    depth -= 1
        j -= 1
    return None


def _stmt_start(st, i):
    """index of the first token of the statement containing token i (same bracket level walk back to `;` `{` `}`)"""
    depth = 0
    j = i - 1
    while j >= 0:
        t = st[j]
        if t.kind == "punct":
            if t.text in ")]}":
                if t.text == "}" and depth == 0:
                    return j + 1
                depth += 1
            elif t.text in "([{":
                if depth == 0:
                    return j + 1 if t.text == "{" else None
                depth -= 1
            elif t.text == ";" and depth == 0:
                return j + 1
        j -= 1
    return 0


def _stmt_end(st, i, limit):
    """index of the `;` ending the statement that starts at i (None if the block closes first)"""
    j = i
    while j < limit:
        t = st[j]
        if t.kind == "punct" and t.text in "([{":
            j = match_close(st, j) + 1
            continue
        if t.kind == "punct" and t.text in ")]}":
            return None
        if t.text == ";":
            return j
        j += 1
    return None


def _acq_sites(st):
    """indices i with st[i:i+4] == `. write|lock ( )`"""
    out = []
    for i in range(len(st) - 3):
        if st[i].text == "." and st[i + 1].kind == "ident" and st[i + 1].text in METHODS \
                and st[i + 2].text == "(" and st[i + 3].text == ")":
            out.append(i)
    return out


def _let_form(st, i):
    """is the acquisition at i the END of the initialiser of `let [mut] IDENT [: T] = ... ;`?  -> (let_idx, name_idx, semi_idx)"""
    s = _stmt_start(st, i)
    if s is None or st[s].text != "let":
        return None
    n = s + 1
    if st[n].text == "mut":
        n += 1
    if st[n].kind != "ident":
        return None
    # find `=` at depth 0
    j = n + 1
    while j < i and st[j].text != "=":
        if st[j].kind == "punct" and st[j].text in "([{<":
            if st[j].text == "<":
                j += 1
                continue
            j = match_close(st, j) + 1
            continue
        j += 1
    if j >= i:
        return None
    e = i + 4
    if st[e].text == "?":
        e += 1
    elif st[e].text == "." and st[e + 1].text in ("unwrap", "expect") and st[e + 2].text == "(":
        e = match_close(st, e + 2) + 1
    if st[e].text != ";":
        return None
    return s, n, e


def _simple_recv(st, a, b):
    """tokens a..b (exclusive) form a plain place path: idents, `.`, `::`, tuple indices"""
    if a >= b:
        return False
    for t in st[a:b]:
        if t.kind in ("ident", "num"):
            continue
        if t.kind == "punct" and t.text in ".:":
            continue
        return False
    return True


def _name_temporaries(text, log):
    """give every temporary write/lock guard a name (see module doc); one at a time, re-lexing"""
    n = 0
    while True:
        st = sig(lex(text))
        todo = None
        for i in _acq_sites(st):
            if _let_form(st, i) is None:
                todo = i
                break
        if todo is None:
            return text
        i = todo
        n += 1
        s = _stmt_start(st, i)
        if s is None:
            # inside ( .. ) or [ .. ]: find the statement of the outermost bracket
            k = i
            while s is None:
                d = 0
                k -= 1
                while k >= 0:
                    x = st[k]
                    if x.kind == "punct" and x.text in ")]}":
                        d += 1
                    elif x.kind == "punct" and x.text in "([{":
                        if d == 0:
                            break
                        d -= 1
                    k -= 1
                if k < 0 or st[k].text == "{":
                    raise RewriteError("R19: unsupported position of a temporary lock guard")
                s = _stmt_start(st, k)
        blk = _open_of(st, s)
        limit = match_close(st, blk) if blk is not None else len(st)
        semi = _stmt_end(st, s, limit)
        if semi is None or semi < i:
            raise RewriteError("R19: temporary lock guard in a tail expression is not supported")
        acq = text[st[i].start:st[i + 3].end]                    # `.write()`
        g = "vx_tg%d" % n
        if st[s].text == "*" and _simple_recv(st, s + 1, i) and st[i + 4].text == "=" and st[i + 5].text != "=":
            recv = text[st[s + 1].start:st[i - 1].end]
            rhs = text[st[i + 5].start:st[semi - 1].end]
            rep = "{ let vx_tv%d = %s; let mut %s = %s%s; *%s = vx_tv%d; }" % (n, rhs, g, recv, acq, g, n)
            text = text[:st[s].start] + rep + text[st[semi].end:]
        else:
            # general form: nothing is evaluated before the acquisition in this statement (only path / `(` / `&` `mut` `*`
            # tokens precede the receiver), so naming the guard first keeps the evaluation order
            e0 = s
            is_let = st[s].text == "let"
            if is_let:
                j = s + 1
                while j < i and st[j].text != "=":
                    if st[j].kind == "punct" and st[j].text in "([{":
                        j = match_close(st, j) + 1
                        continue
                    j += 1
                if j >= i:
                    raise RewriteError("R19: unsupported position of a temporary lock guard")
                e0 = j + 1
            # receiver path: ident ((`.`|`::`) ident|num)*  ending at i - 1
            r0 = i - 1
            if st[r0].kind not in ("ident", "num"):
                raise RewriteError("R19: unsupported receiver of a temporary lock guard")
            while r0 - 2 >= e0:
                if st[r0 - 1].text == "." and st[r0 - 2].kind in ("ident", "num"):
                    r0 -= 2
                elif st[r0 - 1].text == ":" and st[r0 - 2].text == ":" and r0 - 3 >= e0 and st[r0 - 3].kind == "ident":
                    r0 -= 3
                else:
                    break
            for t in st[e0:r0]:
                if not (t.kind == "ident" or (t.kind == "punct" and t.text in ":(&*")):
                    raise RewriteError("R19: unsupported position of a temporary lock guard (something is evaluated before it)")
            if r0 > e0 and st[r0 - 1].kind == "ident" and st[r0 - 1].text not in ("mut",):
                raise RewriteError("R19: unsupported position of a temporary lock guard")
            recv = text[st[r0].start:st[i - 1].end]
            head = text[st[e0].start:st[r0].start]
            rest = text[st[i + 3].end:st[semi - 1].end] if semi - 1 > i + 3 else ""
            if is_let:
                rep = "{ let mut %s = %s%s; %s%s%s }" % (g, recv, acq, head, g, rest)
                text = text[:st[e0].start] + rep + text[st[semi].start:]
            else:
                rep = "{ let mut %s = %s%s; %s%s%s; }" % (g, recv, acq, head, g, rest)
                text = text[:st[s].start] + rep + text[st[semi].end:]
        log[KEY + ": temporary guard named"] = log.get(KEY + ": temporary guard named", 0) + 1


def _mentions(st, a, b, names):
    for j in range(a, b):
        t = st[j]
        if t.kind == "ident" and t.text in names and (j == 0 or st[j - 1].text != "." or st[j - 2].text == "."):
            return True
    return False


def _expr_end(st, a, limit):
    """first index >= a of a depth-0 `;` / `,` / closing bracket"""
    j = a
    while j < limit:
        t = st[j]
        if t.kind == "punct" and t.text in "([{":
            j = match_close(st, j) + 1
            continue
        if t.kind == "punct" and t.text in ")]};,":
            return j
        j += 1
    return limit


def _back_group(st, j, lo):
    """st[j] is a closing bracket: index of its opener"""
    depth = 0
    k = j
    while k >= lo:
        x = st[k]
        if x.kind == "punct" and x.text in ")]}":
            depth += 1
        elif x.kind == "punct" and x.text in "([{":
            depth -= 1
            if depth == 0:
                return k
        k -= 1
    raise RewriteError("R19: cannot delimit the operand of `?`")


_KW = {"return", "in", "if", "match", "while", "else", "break", "let", "mut", "move", "ref"}


def _q_operand_start(st, q, lo):
    """start index of the postfix chain (`a::b(..).c[..]?.d(..)`) whose value the `?` at q is applied to"""
    j = q - 1
    while True:
        if j < lo:
            raise RewriteError("R19: cannot delimit the operand of `?`")
        t = st[j]
        if t.kind == "punct" and t.text == "}":
            raise RewriteError("R19: `?` applied to a block-like expression is not supported")
        if t.kind == "punct" and t.text in ")]":
            k = _back_group(st, j, lo)
            p = st[k - 1] if k - 1 >= lo else None
            if p is None:
                return k
            if p.kind == "ident" and p.text not in _KW:
                j = k - 1          # call / index suffix of a name
                continue
            if p.kind == "punct" and p.text in ")]?":
                j = k - 1          # suffix of a suffix
                continue
            if p.text == "!" and k - 2 >= lo and st[k - 2].kind == "ident":
                j = k - 2          # macro call
                continue
            if p.text == ">":
                # turbofish `name::<T>(..)`
                d = 0
                m = k - 1
                while m >= lo:
                    if st[m].text == ">":
                        d += 1
                    elif st[m].text == "<":
                        d -= 1
                        if d == 0:
                            break
                    m -= 1
                if m - 3 < lo or st[m - 1].text != ":" or st[m - 2].text != ":":
                    raise RewriteError("R19: cannot delimit the operand of `?`")
                j = m - 3
                continue
            return k               # a parenthesised / tuple / array primary
        if t.kind == "punct" and t.text == "?":
            j -= 1
            continue
        if t.kind in ("ident", "num", "str", "char"):
            p = st[j - 1] if j - 1 >= lo else None
            if p is not None and p.text == "." and not (j - 2 >= lo and st[j - 2].text == "."):
                j -= 2
                continue
            if p is not None and p.text == ":" and j - 2 >= lo and st[j - 2].text == ":":
                j -= 3
                if j >= lo and st[j].text == ">":
                    raise RewriteError("R19: generic path as operand of `?` is not supported")
                continue
            return j
        raise RewriteError("R19: cannot delimit the operand of `?`")


class _Guard:
    def __init__(self, k, name, meth, let_semi, open_idx, close_idx):
        self.k = k
        self.name = name
        self.meth = meth
        self.let_semi = let_semi
        self.open = open_idx
        self.close = close_idx
        self.dead_from = None      # token index of a same-block `drop(g);` / shadowing `let g`: released for good there
        self.old = "vx_old_%s_%d" % (name, k)
        self.held = "vx_held_%s_%d" % (name, k)

    def rel(self, cond=None, unset=False):
        c = self.held if cond is None else "%s && %s" % (cond, self.held)
        s = "proof { if %s { %s(%s, *%s); }" % (c, METHODS[self.meth], self.old, self.name)
        if unset:
            s += " %s = false;" % self.held
        return s + " } "


def r19_guard_lifetime(text, log):
    text = _name_temporaries(text, log)
    st = sig(lex(text))
    guards = []
    for i in _acq_sites(st):
        lf = _let_form(st, i)
        s, n, semi = lf
        blk = _open_of(st, s)
        if blk is None:
            raise RewriteError("R19: guard outside a block")
        guards.append(_Guard(len(guards) + 1, st[n].text, st[i + 1].text, semi, blk, match_close(st, blk)))
    if not guards:
        return text
    log[KEY] = log.get(KEY, 0) + len(guards)

    # bodies that run as a different activation: `async [move] { .. }` blocks and closure bodies `|..| { .. }`.  A `return` /
    # `?` / `break` in there does not leave the function, so it releases only guards acquired inside that body.
    foreign = []
    for j, t in enumerate(st):
        if t.text == "{" and j > 0:
            p1 = st[j - 1]
            if (p1.kind == "ident" and p1.text == "async") or (p1.text == "move" and j > 1 and st[j - 2].text == "async") \
                    or (p1.kind == "punct" and p1.text == "|"):
                foreign.append((j, match_close(st, j)))

    def in_scope(j):
        """guards whose region contains token j, innermost/latest first (drop order)"""
        return [g for g in reversed(guards) if g.let_semi < j < g.close and (g.dead_from is None or j <= g.dead_from)
                and not any(g.let_semi < o and o < j < c for o, c in foreign)]

    edits = []      # plain insertions (pos, pos, text) and replacements (start, end, text)
    pairs = []      # wrappers (open_pos, open_text, close_pos, close_text); properly nested by construction
    uid = [0]

    def fresh(p):
        uid[0] += 1
        return "%s%d" % (p, uid[0])

    # 1. ghost capture after each guard's `let`
    for g in guards:
        edits.append((st[g.let_semi].end, st[g.let_semi].end,
                      " let ghost %s = *%s; let ghost mut %s = true;" % (g.old, g.name, g.held)))

    # loops: body block spans
    loops = []
    for j, t in enumerate(st):
        if t.kind == "ident" and t.text in _LOOPS and not (t.text == "for" and st[j + 1].text == "<"):
            m = j + 1
            while m < len(st):
                if st[m].kind == "punct" and st[m].text in "([":
                    m = match_close(st, m) + 1
                    continue
                if st[m].text == "{":
                    break
                m += 1
            if m < len(st):
                loops.append((m, match_close(st, m)))

    lo = 0
    hi = len(st)
    j = lo
    wrapped_q = []      # (start_idx, q_idx) of `?` operands, to detect nesting
    while j < hi:
        t = st[j]
        gs = in_scope(j)
        if not gs:
            j += 1
            continue
        names = {g.name for g in gs}
        if t.kind == "ident" and t.text == "return" and (j == 0 or st[j - 1].text != "."):
            e = _expr_end(st, j + 1, hi)
            rel = "".join(g.rel() for g in gs)
            if e == j + 1:
                edits.append((t.start, t.end, "({ %sreturn })" % rel))
            else:
                has_q = any(st[x].text == "?" for x in range(j + 1, e))
                prev = st[j - 1].text if j else "{"
                if not _mentions(st, j + 1, e, names) and not has_q and prev in "{;}":
                    edits.append((t.start, t.start, rel))
                else:
                    # E is evaluated first (a `?` inside E is wrapped by the `?` case), then the guards are released
                    v = fresh("vx_r")
                    pairs.append((st[j + 1].start, "({ let %s = " % v, st[e - 1].end, "; %s%s })" % (rel, v)))
        elif t.kind == "punct" and t.text == "?" and j > 0 and st[j - 1].text not in ("<", ":", "+", "(", ","):
            a = _q_operand_start(st, j, 0)
            v = fresh("vx_q")
            rel = "".join(g.rel(cond="vx_exits(%s)" % v) for g in gs)
            pairs.append((st[a].start, "({ let %s = " % v, st[j - 1].end, "; %s%s })" % (rel, v)))
        elif t.kind == "ident" and t.text in ("break", "continue") and (j == 0 or st[j - 1].text != "."):
            labelled = st[j + 1].kind == "lifetime"
            inner = [lp for lp in loops if lp[0] < j < lp[1]]
            leaving = []
            for g in gs:
                # the break leaves g's block iff no loop body containing the break lies inside g's region
                if labelled or not any(g.let_semi < lp[0] and lp[1] < g.close for lp in inner):
                    leaving.append(g)
            if leaving:
                e = _expr_end(st, j + 1, hi)
                if e != j + 1 and not labelled or (labelled and e != j + 2):
                    raise RewriteError("R19: `break` with a value under a lock guard is not supported")
                rel = "".join(g.rel() for g in leaving)
                edits.append((t.start, st[e - 1].end, "({ %s%s })" % (rel, text[t.start:st[e - 1].end])))
        elif t.kind == "ident" and t.text == "drop" and st[j + 1].text == "(" and st[j + 2].kind == "ident" \
                and st[j + 2].text in names and st[j + 3].text == ")" and (j == 0 or st[j - 1].text != "."):
            g = [x for x in gs if x.name == st[j + 2].text][0]
            a = j
            while a >= 2 and st[a - 1].text == ":" and st[a - 2].text == ":":      # std::mem::drop
                a -= 3
            edits.append((st[a].start, st[a].start, g.rel(unset=True)))
            if _open_of(st, j) == g.open and st[j + 4].text == ";" and (a == 0 or st[a - 1].text in "{;}"):
                g.dead_from = j
        elif t.kind == "ident" and t.text == "let" and (j == 0 or st[j - 1].text in "{;}"):
            n = j + 1
            if st[n].text == "mut":
                n += 1
            if st[n].kind == "ident" and st[n].text in names:
                g = [x for x in gs if x.name == st[n].text][0]
                if _open_of(st, j) != g.open:
                    raise RewriteError("R19: guard `%s` shadowed in a nested block" % g.name)
                edits.append((t.start, t.start, g.rel(unset=True)))
                g.dead_from = j
        j += 1

    # scope ends: group guards by block
    by_block = {}
    for g in guards:
        by_block.setdefault((g.open, g.close), []).append(g)
    for (o, c), gl in by_block.items():
        gl = [g for g in reversed(gl) if g.dead_from is None]
        if not gl:
            continue
        rel = "".join(g.rel() for g in gl)
        names = {g.name for g in gl}
        # split the block into statements to find the tail expression
        j = o + 1
        last_end = o          # index of the token that ended the last complete statement
        while j < c:
            s = j
            first = st[s].text
            # labelled loop: 'a: loop
            if st[s].kind == "lifetime" and st[s + 1].text == ":":
                first = st[s + 2].text
            k = s
            ended = None
            while k < c:
                x = st[k]
                if x.kind == "punct" and x.text in "([":
                    k = match_close(st, k) + 1
                    continue
                if x.text == "{":
                    k2 = match_close(st, k)
                    if first in _BLOCKLIKE and not (first == "let"):
                        nxt = st[k2 + 1].text if k2 + 1 < c else None
                        if nxt == "else":
                            k = k2 + 1
                            continue
                        if nxt == ";":
                            ended = k2 + 1
                        else:
                            ended = k2
                        break
                    k = k2 + 1
                    continue
                if x.text == ";":
                    ended = k
                    break
                k += 1
            if ended is None:
                break
            # a trailing block-like `if`/`match` without `;` directly before the closing brace is the block's value
            if ended == c - 1 and st[ended].text == "}" and first in ("if", "match", "unsafe", "{"):
                break
            last_end = ended
            j = ended + 1
        if last_end + 1 >= c:
            edits.append((st[c].start, st[c].start, rel))
        else:
            a, b = last_end + 1, c
            first = st[a].text
            if first == "return":
                continue       # handled as a return
            if _mentions(st, a, b, names) or first in ("if", "match", "unsafe", "{") or any(st[x].text == "?" for x in range(a, b)):
                v = fresh("vx_t")
                pairs.append((st[a].start, "let %s = " % v, st[b - 1].end, "; %s%s " % (rel, v)))
            else:
                edits.append((st[a].start, st[a].start, rel))
    return _apply_nested(text, edits, pairs)


def _apply_nested(text, edits, pairs):
    """apply plain insertions, replacements and wrapper pairs.  Several insertions may share an offset: closers come first
    (innermost = latest opener first), then plain insertions in creation order, then openers (outermost = latest closer first)."""
    items = []     # (pos, rank, key, text)
    reps = []
    for k, (s, e, r) in enumerate(edits):
        if s == e:
            items.append((s, 1, k, r))
        else:
            reps.append((s, e, r))
    for (op, ot, cp, ct) in pairs:
        items.append((op, 2, -cp, ot))
        items.append((cp, 0, -op, ct))
    for (s, e, r) in reps:
        for it in items:
            if s < it[0] < e:
                raise RewriteError("R19: overlapping elaborations")
        items.append((s, 3, 0, (e, r)))
    items.sort(key=lambda x: (x[0], x[1], x[2]))
    out = []
    pos = 0
    for p, rank, _, r in items:
        if p < pos:
            raise RewriteError("R19: overlapping elaborations")
        out.append(text[pos:p])
        pos = p
        if rank == 3:
            e, r2 = r
            out.append(r2)
            pos = e
        else:
            out.append(r)
    out.append(text[pos:])
    return "".join(out)


RULES = {"R19": r19_guard_lifetime}
