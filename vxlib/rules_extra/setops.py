"""R17  Option::map with a closure literal, unfolded to its std definition.

    RECV.map(|x| BODY)      ->      (match RECV { Some(x) => Some(BODY), None => None })

`Option::map` is `match self { Some(x) => Some(f(x)), None => None }` in core; applying the closure literal to `x` is
beta-reduction with the same binder name, so no capture can occur.  The rule is purely syntactic; it is type-safe
because rustc rejects the result whenever RECV is not an `Option` (an iterator / `Result` receiver does not match
`Some`/`None` patterns).  Verus gives an unannotated closure no postcondition, so without the unfolding the mapped value
would be unconstrained.  Conditions (otherwise the site is left alone): single identifier parameter without type
annotation, no `move`, BODY contains no `return`/`?`/`break`/`continue` (whose meaning would change outside a closure),
RECV is a postfix chain of identifiers, field accesses, calls and indexing.
"""
from ..lexer import lex, sig
from ..extract import match_close
from ..rewrite import find_seq


def _open_of(st, c):
    """index of the opening bracket matching the closing bracket st[c]"""
    pairs = {")": "(", "]": "["}
    want = pairs[st[c].text]
    depth = 0
    j = c
    while j >= 0:
        t = st[j]
        if t.kind == "punct" and t.text in ")]}":
            depth += 1
        elif t.kind == "punct" and t.text in "([{":
            depth -= 1
            if depth == 0:
                return j if t.text == want else None
        j -= 1
    return None


def _recv_start(st, dot):
    """first token of the postfix expression that ends right before st[dot] == '.'"""
    j = dot - 1
    while j >= 0:
        t = st[j]
        if t.kind == "punct" and t.text in ")]":
            o = _open_of(st, j)
            if o is None:
                return None
            j = o
            # a call/index: the callee/base precedes; a parenthesised expression: stop here
            p = st[j - 1] if j > 0 else None
            if p is not None and (p.kind == "ident" or (p.kind == "punct" and p.text in ")]")) and p.text not in ("in", "return", "match", "if", "while", "let", "else"):
                j -= 1
                continue
            return j
        if t.kind == "ident" or t.kind == "num":
            p = st[j - 1] if j > 0 else None
            if p is not None and p.kind == "punct" and p.text == ".":
                j -= 2
                continue
            if p is not None and p.kind == "punct" and p.text == ":" and j >= 2 and st[j - 2].text == ":":
                j -= 3
                continue
            return j
        return None
    return None


def r17_option_map(text, log):
    while True:
        st = sig(lex(text))
        done = True
        for i in find_seq(st, [".", "map", "(", "|"]):
            if i + 6 >= len(st) or st[i + 4].kind != "ident" or st[i + 5].text != "|":
                continue
            x = st[i + 4].text
            if x in ("mut", "ref", "_"):
                continue
            c = match_close(st, i + 2)
            body_toks = st[i + 6:c]
            if not body_toks or any(t.kind == "ident" and t.text in ("return", "break", "continue") for t in body_toks) \
                    or any(t.kind == "punct" and t.text == "?" for t in body_toks):
                continue
            if body_toks[0].text == "-" and len(body_toks) > 1 and body_toks[1].text == ">":
                continue  # closure with return type annotation
            r0 = _recv_start(st, i)
            if r0 is None:
                continue
            recv = text[st[r0].start:st[i - 1].end]
            body = text[body_toks[0].start:body_toks[-1].end]
            new = "(match %s { Some(%s) => Some(%s), None => None })" % (recv, x, body)
            text = text[:st[r0].start] + new + text[st[c].end:]
            log["R17 Option::map unfold"] = log.get("R17 Option::map unfold", 0) + 1
            done = False
            break
        if done:
            return text


RULES = {"R17": r17_option_map}


# ----------------------------------------------------------------------------------------------------------------------
R9Q_DOC = """R9q  inline a local closure whose body uses `?`, at call sites of the form `f(args)?`.

    let f = |p: T, q: U| -> Result<_> { B };   ...   f(a, b)?
        ->   (definition removed)              ...   ({ let p = a; let q = b; B })?

Beta-reduction of a local, non-escaping, non-recursive closure (as core-extra R9), extended to bodies containing `?`:
a `?` inside the closure returns `Err(From::from(e))` from the closure, and the call-site `?` then returns that error from
the enclosing function; after inlining, the inner `?` returns the converted error from the enclosing function directly and
the value of the block is unwrapped by the call-site `?`, which is kept.  Side conditions (otherwise RewriteError -> undecided):
every use of `f` inside the block that defines it is a direct call immediately followed by `?`; `f` is not used outside that
block (a later, separate `let f = ...` in another block is a different closure and is handled on its own); the body contains
no `return` and does not mention `f`; parameters are plain `ident[: Type]` (parameter type annotations are kept on the `let`s that bind the arguments — a coercion site
like the call —, an explicit return type is kept as the annotated type of the block's value: rustc re-checks the inlined text against the call arguments); no identifier the
body uses freely is re-bound between definition and the end of the block.  Difference that remains: the error conversion
path (`e -> closure error type -> function error type` becomes `e -> function error type`); both are `From` conversions
chosen by rustc, and no contract in the units speaks about `Err` values.
"""


def r9q_closure_inline_try(text, log):
    from ..rewrite import RewriteError, split_args, span_text
    from .isearch import _find_closure_def, _parse_params, _pattern_idents, _KW
    start_tok = 0
    guard = 0
    while True:
        guard += 1
        if guard > 50:
            raise RewriteError("R9q: too many closures")
        st = sig(lex(text))
        d = _find_closure_def(st, start_tok)
        if d is None:
            return text
        let_i, name_i, bar_i = d
        name = st[name_i].text
        params, close_bar = _parse_params(text, st, bar_i)
        j = close_bar + 1
        ret_ty = None
        if st[j].text == "-" and st[j + 1].text == ">":
            # explicit return type: skip to the body block
            r0 = j + 2
            while j < len(st) and st[j].text != "{":
                if st[j].kind == "punct" and st[j].text in "([":
                    j = match_close(st, j) + 1
                    continue
                j += 1
        if st[j].text != "{":
            raise RewriteError("R9q: closure `%s` body is not a block" % name)
        if st[close_bar + 1].text == "-":
            ret_ty = text[st[r0].start:st[j - 1].end]
        b0 = j
        b1 = match_close(st, b0)
        if st[b1 + 1].text != ";":
            raise RewriteError("R9q: closure block is not the whole initialiser")
        semi = b1 + 1
        # enclosing block of the definition: the nearest `{` before let_i that is still open
        depth = 0
        k = let_i - 1
        enc_open = None
        while k >= 0:
            if st[k].text == "}":
                depth += 1
            elif st[k].text == "{":
                if depth == 0:
                    enc_open = k
                    break
                depth -= 1
            k -= 1
        if enc_open is None:
            raise RewriteError("R9q: no enclosing block")
        enc_close = match_close(st, enc_open)
        body_toks = st[b0:b1 + 1]
        pnames = {p[0] for p in params}
        for t in body_toks:
            if t.kind == "ident" and t.text == "return":
                raise RewriteError("R9q: closure `%s` contains `return`" % name)
            if t.kind == "ident" and t.text == name:
                raise RewriteError("R9q: closure `%s` mentions itself" % name)
        free = set()
        for k, t in enumerate(body_toks):
            if t.kind != "ident" or t.text in _KW or t.text in pnames:
                continue
            prev = body_toks[k - 1].text if k > 0 else ""
            if prev == "." or t.text[0].isupper():
                continue  # field / method name; CamelCase or CONSTANT path segment (types, variants, constants: not captured locals)
            nxt_ = body_toks[k + 1].text if k + 1 < len(body_toks) else ""
            if nxt_ == ":" and k + 2 < len(body_toks) and body_toks[k + 2].text == ":":
                continue  # module path segment
            free.add(t.text)
        calls = []
        for k in range(semi + 1, enc_close):
            t = st[k]
            if t.kind == "ident" and t.text == name:
                prev = st[k - 1].text
                nxt = st[k + 1].text
                if nxt != "(" or prev in (".", ":", "&", "let", "mut", "fn"):
                    raise RewriteError("R9q: closure `%s` escapes or is shadowed inside its block" % name)
                c = match_close(st, k + 1)
                if st[c + 1].text != "?":
                    raise RewriteError("R9q: call of `%s` not followed by `?`" % name)
                calls.append(k)
        free -= _pattern_idents(st, b0, b1 + 1)  # names bound inside the body are not captures
        rebound = _pattern_idents(st, semi + 1, enc_close) & free
        if rebound:
            raise RewriteError("R9q: closure `%s` captures %s which is re-bound later" % (name, sorted(rebound)))
        inner = text[st[b0].end:st[b1].start]
        if not calls:
            text = text[:st[let_i].start] + text[st[semi].end:]
            log["R9q closure-inline"] = log.get("R9q closure-inline", 0) + 1
            continue
        k = calls[-1]
        o = k + 1
        c = match_close(st, o)
        args = [span_text(text, st, a, b) for a, b in split_args(st, o, c)]
        if len(args) != len(params):
            raise RewriteError("R9q: call of `%s` with %d arguments, closure has %d parameters" % (name, len(args), len(params)))
        # a parameter's type annotation is kept on the `let`: it is a coercion site, so an argument like `r[0]` of type `&mut R`
        # is reborrowed exactly as it is when passed to the closure (without it the `let` would move out of the array)
        parts = ["let %s%s%s = %s;" % ("mut " if m else "", p, (": " + ty) if ty else "", a) for (p, m, ty), a in zip(params, args)]
        if ret_ty:
            # keep the explicit return type as the type of the block's value (it fixes the error type for inference)
            rep = "({ " + " ".join(parts) + " let vx_%s_r: %s = { %s }; vx_%s_r })" % (name, ret_ty, inner.strip(), name)
        else:
            rep = "({ " + " ".join(parts) + " " + inner.strip() + " })"
        text = text[:st[k].start] + rep + text[st[c].end:]
        log["R9q closure-inline"] = log.get("R9q closure-inline", 0) + 1
        if len(calls) == 1:
            text = text[:st[let_i].start] + text[st[semi].end:]


RULES["R9q"] = r9q_closure_inline_try


# ----------------------------------------------------------------------------------------------------------------------
R4K_DOC = """R4k  consuming iteration over a Vec named by a plain identifier, with a (nested) tuple-of-identifiers pattern.

    for (h, (a, b)) in V { B }
        ->  { let vx_vK = V; let mut vx_nK = 0;
              while vx_nK < vx_vK.len() { let vx_eK = &vx_vK[vx_nK]; let h = vx_eK.0; let a = vx_eK.1.0; let b = vx_eK.1.1; vx_nK += 1; B } }

`IntoIterator for Vec<T>` yields V[0], V[1], ... by value; V is moved (kept: `let vx_vK = V;`).  The components are bound by
copy out of a shared reference, which rustc accepts only for `Copy` component types — for those, copy and move coincide.
The counter is incremented before the body (so `continue` would keep its meaning).  K numbers the rewritten loops in textual order.
"""


def _tuple_bindings(st, lo, hi, base):
    """st[lo] == '(' ... st[hi] == ')' : flat list of (ident, access-path) for a nested tuple pattern of identifiers, or None"""
    out = []
    j = lo + 1
    idx = 0
    while j < hi:
        t = st[j]
        if t.text == "(":
            c = match_close(st, j)
            sub = _tuple_bindings(st, j, c, "%s.%d" % (base, idx))
            if sub is None:
                return None
            out += sub
            j = c + 1
        elif t.kind == "ident" and t.text not in ("mut", "ref", "_"):
            out.append((t.text, "%s.%d" % (base, idx)))
            j += 1
        else:
            return None
        if j < hi:
            if st[j].text != ",":
                return None
            j += 1
        idx += 1
    return out


def r4k_vec_into_for(text, log):
    from ..rewrite import _for_loops
    k = 0
    while True:
        st = sig(lex(text))
        done = True
        for i, in_idx, b in _for_loops(st):
            if st[i + 1].text != "(" or match_close(st, i + 1) != in_idx - 1:
                continue
            if b != in_idx + 2 or st[in_idx + 1].kind != "ident":
                continue
            v = st[in_idx + 1].text
            k += 1
            vv, n, e = "vx_v%d" % k, "vx_n%d" % k, "vx_e%d" % k
            binds = _tuple_bindings(st, i + 1, in_idx - 1, e)
            if binds is None or vv in text:
                continue
            c = match_close(st, b)
            body = text[st[b].end:st[c].start]
            bind = "let %s = &%s[%s]; " % (e, vv, n) + " ".join("let %s = %s;" % (x, p) for x, p in binds)
            new = "{ let %s = %s; let mut %s = 0; while %s < %s.len() { %s %s += 1; %s} }" % (vv, v, n, n, vv, bind, n, body)
            text = text[:st[i].start] + new + text[st[c].end:]
            log["R4k vec-into-for -> while"] = log.get("R4k vec-into-for -> while", 0) + 1
            done = False
            break
        if done:
            return text


RULES["R4k"] = r4k_vec_into_for
