"""R17  Option::map with a closure literal, unfolded to its std definition.

    RECV.map(|x| BODY)      ->      (match RECV { Some(x) => Some(BODY), None => None })

`Option::map` is `match self { Some(x) => Some(f(x)), None => None }` in core; applying the closure literal to `x` is
beta-reduction with the same binder name, so no capture can occur.  The rule is purely syntactic; it is type-safe
because rustc rejects the result whenever RECV is not an `Option` (an iterator / `Result` receiver does not match
`Some`/`None` patterns).  Verus gives an unannotated closure no postcondition, so without the unfolding the mapped value
would be unconstrained.  Conditions (otherwise the site is left alone): single identifier parameter without type
annotation, no `move`, BODY contains no `return`/`?`/`break`/`continue` (whose meaning would change outside a closure),
RECV is a postfix chain of identifiers, field accesses, calls and indexing.
"""
from ..lexer import lex, sig
from ..extract import match_close
from ..rewrite import find_seq


def _open_of(st, c):
    """index of the opening bracket matching the closing bracket st[c]"""
    pairs = {")": "(", "]": "["}
    want = pairs[st[c].text]
    depth = 0
    j = c
    while j >= 0:
        t = st[j]
        if t.kind == "punct" and t.text in ")]}":
            depth += 1
        elif t.kind == "punct" and t.text in "([{":
            depth -= 1
            if depth == 0:
                return j if t.text == want else None
        j -= 1
    return None


def _recv_start(st, dot):
    """first token of the postfix expression that ends right before st[dot] == '.'"""
    j = dot - 1
    while j >= 0:
        t = st[j]
        if t.kind == "punct" and t.text in ")]":
            o = _open_of(st, j)
            if o is None:
                return None
            j = o
            # a call/index: the callee/base precedes; a parenthesised expression: stop here
            p = st[j - 1] if j > 0 else None
            if p is not None and (p.kind == "ident" or (p.kind == "punct" and p.text in ")]")) and p.text not in ("in", "return", "match", "if", "while", "let", "else"):
                j -= 1
                continue
            return j
        if t.kind == "ident" or t.kind == "num":
            p = st[j - 1] if j > 0 else None
            if p is not None and p.kind == "punct" and p.text == ".":
                j -= 2
                continue
            if p is not None and p.kind == "punct" and p.text == ":" and j >= 2 and st[j - 2].text == ":":
                j -= 3
                continue
            return j
        return None
    return None


def r17_option_map(text, log):
    while True:
        st = sig(lex(text))
        done = True
        for i in find_seq(st, [".", "map", "(", "|"]):
            if i + 6 >= len(st) or st[i + 4].kind != "ident" or st[i + 5].text != "|":
                continue
            x = st[i + 4].text
            if x in ("mut", "ref", "_"):
                continue
            c = match_close(st, i + 2)
            body_toks = st[i + 6:c]
            if not body_toks or any(t.kind == "ident" and t.text in ("return", "break", "continue") for t in body_toks) \
                    or any(t.kind == "punct" and t.text == "?" for t in body_toks):
                continue
            if body_toks[0].text == "-" and len(body_toks) > 1 and body_toks[1].text == ">":
                continue  # closure with return type annotation
            r0 = _recv_start(st, i)
            if r0 is None:
                continue
            recv = text[st[r0].start:st[i - 1].end]
            body = text[body_toks[0].start:body_toks[-1].end]
            new = "(match %s { Some(%s) => Some(%s), None => None })" % (recv, x, body)
            text = text[:st[r0].start] + new + text[st[c].end:]
            log["R17 Option::map unfold"] = log.get("R17 Option::map unfold", 0) + 1
            done = False
            break
        if done:
            return text


RULES = {"R17": r17_option_map}
