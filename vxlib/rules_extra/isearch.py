"""Extra catalogue rules of units U-ISEARCH / U-SHLOOKUP:  R9 (closure inline), R4u (name a `for _ in` loop variable),
R4t (`for [&]x in E.iter().take(N)` -> index loop).  All three are syntactic, general, and refuse (RewriteError -> undecided)
whenever a side condition is not met.

R9 closure inline (DESIGN.md section 2.2):  `let [mut] f = [move] |p, q: T| B;` that never escapes
->  each call `f(a, b)` becomes `{ let vx_f_0 = a; let vx_f_1 = b; let p = vx_f_0; let q: T = vx_f_1; B }`
(a single parameter is bound directly: `{ let p = a; B }`), and the `let f = ...;` statement is removed.

This is beta-reduction of a local, non-escaping, non-recursive closure.  It is only applied when all of the following
syntactic side conditions hold (otherwise RewriteError -> the unit is undecided, never wrong):
  * every other occurrence of the identifier `f` in the item is a direct call `f(` (not `.f(`, not `::f`, never passed,
    stored or returned) and it lies after the definition;
  * parameters are plain `ident`, `mut ident`, `ident: Type` or `mut ident: Type` (no destructuring, no `_`);
  * the closure has no explicit return type and its body contains no `return` and no `?` (they would change meaning when
    moved from the closure into the enclosing function), and does not mention `f` itself;
  * no identifier the body uses freely (i.e. other than its parameters) is re-bound by a `let`/`for`/closure-parameter/
    match-arm pattern between the definition and the end of the item (capture would otherwise change);
  * the number of arguments of each call equals the number of parameters.
Arguments are evaluated once, in order, before the body, exactly as for the call.  The body text is copied verbatim.
"""
from vxlib.lexer import lex, sig
from vxlib.extract import match_close
from vxlib.rewrite import RewriteError, split_args, span_text

_KW = {"let", "mut", "if", "else", "match", "for", "while", "loop", "in", "as", "ref", "move", "return", "break",
       "continue", "true", "false", "self", "Self", "fn", "impl", "struct", "enum", "use", "const", "static", "crate",
       "super", "where", "unsafe", "dyn", "pub", "mod", "type", "trait"}


def _find_closure_def(st, start):
    """first `let [mut] NAME = [move] |` at or after token index start; returns (let_idx, name_idx, bar_idx) or None"""
    i = start
    while i < len(st) - 4:
        if st[i].kind == "ident" and st[i].text == "let":
            j = i + 1
            if st[j].text == "mut":
                j += 1
            if st[j].kind == "ident" and st[j + 1].text == "=":
                k = j + 2
                if st[k].text == "move":
                    k += 1
                # `||` lexes as two `|` puncts
                if st[k].text == "|":
                    return i, j, k
        i += 1
    return None


def _parse_params(text, st, bar):
    """st[bar] == '|'; returns (params, close_bar_idx); params = [(name, is_mut, type_text or None)]"""
    j = bar + 1
    params = []
    cur = []
    depth_guard = 0
    while j < len(st):
        t = st[j]
        if t.kind == "punct" and t.text in "([{<" and t.text != "<":
            c = match_close(st, j)
            cur.extend(range(j, c + 1))
            j = c + 1
            continue
        if t.text == "|" or t.text == ",":
            if cur:
                params.append(cur)
                cur = []
            if t.text == "|":
                break
            j += 1
            continue
        cur.append(j)
        j += 1
        depth_guard += 1
        if depth_guard > 400:
            raise RewriteError("R9: closure parameter list not closed")
    close = j
    out = []
    for p in params:
        k = 0
        is_mut = False
        if st[p[k]].text == "mut":
            is_mut = True
            k += 1
        nm = st[p[k]]
        if nm.kind != "ident" or nm.text in _KW or nm.text == "_":
            raise RewriteError("R9: unsupported closure parameter pattern `%s`" % span_text(text, st, p[0], p[-1] + 1))
        ty = None
        if k + 1 < len(p):
            if st[p[k + 1]].text != ":":
                raise RewriteError("R9: unsupported closure parameter pattern `%s`" % span_text(text, st, p[0], p[-1] + 1))
            ty = text[st[p[k + 2]].start:st[p[-1]].end]
        out.append((nm.text, is_mut, ty))
    return out, close


def _body_span(st, close_bar):
    """body tokens after the closing `|`: a block, or an expression up to the terminating `;`.  returns (b0, b1, semi)
    with st[b0..b1] inclusive the body and st[semi] the `;` ending the let statement"""
    j = close_bar + 1
    if st[j].text == "-" and st[j + 1].text == ">":
        raise RewriteError("R9: closure with an explicit return type is not inlined")
    if st[j].text == "{":
        c = match_close(st, j)
        if st[c + 1].text != ";":
            raise RewriteError("R9: closure block is not the whole initialiser")
        return j, c, c + 1
    k = j
    while k < len(st):
        t = st[k]
        if t.kind == "punct" and t.text in "([{":
            k = match_close(st, k) + 1
            continue
        if t.text == ";":
            return j, k - 1, k
        k += 1
    raise RewriteError("R9: closure definition not terminated")


def _pattern_idents(st, lo, hi):
    """identifiers bound by let / for / closure-parameter / match-arm patterns in st[lo:hi] (conservative superset)"""
    bound = set()
    i = lo
    while i < hi:
        t = st[i]
        if t.kind == "ident" and t.text == "let":
            j = i + 1
            while j < hi and st[j].text not in ("=", ";"):
                if st[j].text == ":" and st[j + 1].text != ":" and st[j - 1].text != ":":
                    break
                if st[j].kind == "ident" and st[j].text not in _KW:
                    bound.add(st[j].text)
                j += 1
        elif t.kind == "ident" and t.text == "for":
            j = i + 1
            while j < hi and not (st[j].kind == "ident" and st[j].text == "in"):
                if st[j].kind == "ident" and st[j].text not in _KW:
                    bound.add(st[j].text)
                j += 1
        elif t.text == "|" and st[i - 1].text in ("=", "(", ",", "move", "{", ";"):
            j = i + 1
            while j < hi and st[j].text != "|":
                if st[j].kind == "ident" and st[j].text not in _KW:
                    bound.add(st[j].text)
                j += 1
            i = j
        elif t.text == "=" and i + 1 < hi and st[i + 1].text == ">":
            j = i - 1
            while j > lo and st[j].text not in ("{", "}", ","):
                if st[j].kind == "punct" and st[j].text in ")]":
                    # walk over a bracket group backwards, collecting identifiers inside it
                    depth = 1
                    j -= 1
                    while j > lo and depth > 0:
                        if st[j].text in ")]":
                            depth += 1
                        elif st[j].text in "([":
                            depth -= 1
                        elif st[j].kind == "ident" and st[j].text not in _KW:
                            bound.add(st[j].text)
                        j -= 1
                    continue
                if st[j].kind == "ident" and st[j].text not in _KW:
                    bound.add(st[j].text)
                j -= 1
        i += 1
    return bound


def r9_closure_inline(text, log):
    start_tok = 0
    guard = 0
    while True:
        guard += 1
        if guard > 50:
            raise RewriteError("R9: too many closures")
        st = sig(lex(text))
        d = _find_closure_def(st, start_tok)
        if d is None:
            return text
        let_i, name_i, bar_i = d
        name = st[name_i].text
        params, close_bar = _parse_params(text, st, bar_i)
        b0, b1, semi = _body_span(st, close_bar)
        body_toks = st[b0:b1 + 1]
        pnames = {p[0] for p in params}
        for t in body_toks:
            if t.kind == "ident" and t.text == "return":
                raise RewriteError("R9: closure `%s` contains `return`" % name)
            if t.text == "?":
                raise RewriteError("R9: closure `%s` contains `?`" % name)
            if t.kind == "ident" and t.text == name:
                raise RewriteError("R9: closure `%s` mentions itself" % name)
        free = set()
        for k, t in enumerate(body_toks):
            if t.kind != "ident" or t.text in _KW or t.text in pnames:
                continue
            prev = body_toks[k - 1].text if k > 0 else ""
            if prev == ".":
                continue  # field or method name
            free.add(t.text)
        # uses: every occurrence of `name` other than the definition must be a direct call after the definition
        calls = []
        for k, t in enumerate(st):
            if t.kind == "ident" and t.text == name and k != name_i:
                prev = st[k - 1].text if k > 0 else ""
                nxt = st[k + 1].text if k + 1 < len(st) else ""
                if k < name_i or nxt != "(" or prev in (".", ":", "&", "let", "mut", "fn"):
                    raise RewriteError("R9: closure `%s` escapes or is shadowed (token %d)" % (name, k))
                calls.append(k)
        rebound = _pattern_idents(st, semi + 1, len(st)) & free
        if rebound:
            raise RewriteError("R9: closure `%s` captures %s which is re-bound later" % (name, sorted(rebound)))
        body_txt = text[st[b0].start:st[b1].end]
        is_block = st[b0].text == "{"
        inner = body_txt[1:-1] if is_block else body_txt

        def render(args):
            if len(args) != len(params):
                raise RewriteError("R9: call of `%s` with %d arguments, closure has %d parameters" % (name, len(args), len(params)))
            parts = []
            if len(params) == 1:
                p, m, ty = params[0]
                parts.append("let %s%s%s = %s;" % ("mut " if m else "", p, (": " + ty) if ty else "", args[0]))
            else:
                for n_, a in enumerate(args):
                    parts.append("let vx_%s_%d = %s;" % (name, n_, a))
                for n_, (p, m, ty) in enumerate(params):
                    parts.append("let %s%s%s = vx_%s_%d;" % ("mut " if m else "", p, (": " + ty) if ty else "", name, n_))
            return "{ " + " ".join(parts) + " " + inner.strip() + " }"

        if not calls:
            # unused closure: just drop the definition
            text = text[:st[let_i].start] + text[st[semi].end:]
            log["R9 closure-inline"] = log.get("R9 closure-inline", 0) + 1
            continue
        # inline the LAST call first is unnecessary: nested calls `f(f(x))` are handled by re-lexing after each single
        # replacement, innermost (rightmost-starting) call first
        k = calls[-1]
        o = k + 1
        c = match_close(st, o)
        args = [span_text(text, st, a, b) for a, b in split_args(st, o, c)]
        rep = render(args)
        nxt_tok = st[c + 1].text if c + 1 < len(st) else ";"
        if nxt_tok not in (";", ",", ")", "}", "]"):
            rep = "(" + rep + ")"  # keep `f(a).m()` / `f(a) + 1` an expression when it starts a statement
        text = text[:st[k].start] + rep + text[st[c].end:]
        log["R9 closure-inline"] = log.get("R9 closure-inline", 0) + 1
        if len(calls) == 1:
            # last remaining call replaced: remove the definition (positions before the call are unchanged)
            text = text[:st[let_i].start] + text[st[semi].end:]
        # loop: re-lex and continue with the same closure (or the next one)


def r4u_name_wildcard_loop_var(text, log):
    """`for _ in E { B }`  ->  `for vx_itN in E { B }`: the wildcard loop pattern is given a fresh name (alpha-renaming of
    an unused binding; `vx_itN` is checked not to occur in the item) so that loop invariants can refer to the iteration."""
    n = 0
    while True:
        st = sig(lex(text))
        hit = None
        for i, t in enumerate(st):
            if t.kind == "ident" and t.text == "for" and i + 2 < len(st) and st[i + 1].text == "_" and st[i + 2].text == "in":
                hit = i
                break
        if hit is None:
            return text
        n += 1
        name = "vx_it%d" % n
        if any(t.kind == "ident" and t.text == name for t in st):
            raise RewriteError("R4u: identifier %s already occurs" % name)
        u = st[hit + 1]
        text = text[:u.start] + name + text[u.end:]
        log["R4u wildcard-loop-var named"] = log.get("R4u wildcard-loop-var named", 0) + 1


def r4t_iter_take(text, log):
    """`for &x in E.iter().take(N) { B }`  ->  `for vx_tkK in 0..(N).min(E.len()) { let x = E[vx_tkK]; B }`
       `for  x in E.iter().take(N) { B }`  ->  `for vx_tkK in 0..(N).min(E.len()) { let x = &E[vx_tkK]; B }`
    (DESIGN R4(e)).  Definitional for slices/arrays/Vec: `iter().take(N)` yields the first min(N, len) elements in order.
    Only applied when E is a plain place path (identifiers joined by `.`), so evaluating it repeatedly is pure and `E`
    is immutably borrowed for the whole loop in the original; N is evaluated once in both forms."""
    k = 0
    while True:
        st = sig(lex(text))
        hit = None
        for i, t in enumerate(st):
            if not (t.kind == "ident" and t.text == "for"):
                continue
            j = i + 1
            deref = False
            if st[j].text == "&":
                deref = True
                j += 1
            if st[j].kind != "ident" or st[j + 1].text != "in":
                continue
            x = st[j].text
            e0 = j + 2
            e1 = e0
            ok = st[e1].kind == "ident"
            while ok and st[e1 + 1].text == "." and st[e1 + 2].kind == "ident" and st[e1 + 3].text != "(":
                e1 += 2
            if not ok:
                continue
            if [y.text for y in st[e1 + 1:e1 + 8]] != [".", "iter", "(", ")", ".", "take", "("]:
                continue
            o = e1 + 7
            c = match_close(st, o)
            if st[c + 1].text != "{":
                continue
            hit = (i, x, deref, e0, e1, o, c)
            break
        if hit is None:
            return text
        i, x, deref, e0, e1, o, c = hit
        k += 1
        iv = "vx_tk%d" % k
        if any(t.kind == "ident" and t.text == iv for t in st):
            raise RewriteError("R4t: identifier %s already occurs" % iv)
        e_txt = text[st[e0].start:st[e1].end]
        n_txt = text[st[o].end:st[c].start]
        head = "for %s in 0..(%s).min(%s.len()) { let %s = %s%s[%s];" % (iv, n_txt.strip(), e_txt, x, "" if deref else "&", e_txt, iv)
        text = text[:st[i].start] + head + text[st[c + 1].end:]
        log["R4t iter().take(n) -> index loop"] = log.get("R4t iter().take(n) -> index loop", 0) + 1


RULES = {"R9": r9_closure_inline, "R4u": r4u_name_wildcard_loop_var, "R4t": r4t_iter_take}
