"""Extra catalogue rules used by U-XORBPUT (general and syntactic; selected per item with `//@ rules xorbput.Rxx`).

R7u  `format!("LIT", a1, .., ak)`  ->  `vx_format<N>("LIT", &(e1), .., &(eN))`
     An R7 outline of string formatting that keeps everything the formatted text depends on: the literal, unchanged, and
     one argument per placeholder of the literal in the order the placeholders occur -- the next explicit argument for `{}` /
     `{:spec}`, the captured identifier for `{name}` / `{name:spec}`.  `format!` borrows its arguments (`&`), evaluates the
     explicit ones once, left to right, and has no other effect.  The unit provides `fn vx_format<N>(fmt: &str, ..) -> String`
     whose *assumed* contract is that the result is a function of the literal and of what the arguments display
     (`spec_fmt<N>(fmt@, disp(e1), ..)`, uninterpreted).  Nothing is dropped.  Refuses: raw strings, indexed (`{0}`) and
     `name = expr` arguments, a placeholder count that differs from the explicit argument count, arguments containing
     `mut` or an assignment.

R21  `.send()`  ->  `.send(vx_net)`;   `self.upload(args)`  ->  `self.upload(vx_net, args)`
     Verus has no global ghost state, so the network is an explicit stub object `vx_net` (a parameter of every function under
     contract that talks to it, added by the region signature): the rule passes it at every call that acts on the network -- the
     request builder's argument-less `send()` and the client's own `upload` -- so that a call added or moved by an edit is
     checked against the same stub contract as the calls present when the unit was written.  Nothing is dropped.  (Same
     device as crashfs.R20 for the file system.)

R4q  iterator chain -> push loop (generalises xorbidx.R4d to the shapes an edit of a map/collect is likely to take)
       `RECV.iter()[.skip(A)][.take(B)].map(|X| BODY).collect()`
         -> `{ let vx_n = RECV.len(); [let vx_a: usize = A;] [let vx_b: usize = B;]
               let vx_lo = <min(A, vx_n) | 0>; let vx_hi = <vx_lo + min(B, vx_n - vx_lo) | vx_n>;
               let mut vx_c = Vec::new(); for vx_j in vx_lo..vx_hi { let X = &RECV[vx_j]; vx_c.push(BODY); } vx_c }`
            (a RECV that ends in index / slice brackets is bound once first: `let vx_s = &RECV;`, and `vx_s` is used in its place)
       `RECV.iter().enumerate().map(|(I, X)| BODY).collect()`
         -> same with `let I = vx_j; let X = &RECV[vx_j];` (no skip/take in this shape)
       `(A..B).map(|I| BODY).collect()`
         -> `{ let vx_lo = A; let vx_hi = B; let mut vx_c = Vec::new(); for vx_j in vx_lo..vx_hi { let I = vx_j; vx_c.push(BODY); } vx_c }`
     RECV is a postfix path: identifiers / `self` joined by `.`, optionally followed by index or slice brackets
     (`self.chunks`, `self.chunks[1..]`, `v[..n - 1]`).  Definitional for slices and `Vec` (DESIGN 2.2, R4 (d)): `iter()` yields
     `&RECV[0], &RECV[1], ..` in order, `skip(A)` drops the first min(A, len) items, `take(B)` keeps at most B of the rest,
     `enumerate` pairs each item with its position, `map` applies the closure to each in that order and `collect::<Vec<_>>()`
     pushes the results in order; A and B are evaluated once, A first.  BODY is kept verbatim.  If RECV is not an indexable
     collection or the target is not a `Vec` the rewritten text does not type-check (rustc rejects it, exit 2).
"""
from ..lexer import lex, sig
from ..extract import match_close
from ..rewrite import RewriteError, split_args, span_text


# ---------------------------------------------------------------------------------------------------------------- R7u
def _placeholders(lit):
    """names of the placeholders of a plain format literal, in order ('' = next positional)"""
    body = lit[1:-1]
    out = []
    i, n = 0, len(body)
    while i < n:
        c = body[i]
        if c == "\\":
            i += 2
            continue
        if c == "{":
            if i + 1 < n and body[i + 1] == "{":
                i += 2
                continue
            j = body.find("}", i)
            if j < 0:
                raise RewriteError("R7u: unbalanced format placeholder")
            inner = body[i + 1:j]
            name = inner.split(":", 1)[0].strip()
            if name and (name[0].isdigit() or not all(ch.isalnum() or ch == "_" for ch in name)):
                raise RewriteError("R7u: indexed or non-identifier placeholder {%s}" % inner)
            if "$" in inner or "*" in inner:
                raise RewriteError("R7u: width/precision taken from an argument")
            out.append(name)
            i = j + 1
            continue
        if c == "}" and i + 1 < n and body[i + 1] == "}":
            i += 2
            continue
        i += 1
    return out


def r7u_format(text, log):
    while True:
        st = sig(lex(text))
        done = True
        for i, t in enumerate(st):
            if t.kind == "ident" and t.text == "format" and i + 2 < len(st) and st[i + 1].text == "!" and st[i + 2].text == "(":
                if i > 0 and st[i - 1].text == ":":
                    continue
                c = match_close(st, i + 2)
                args = split_args(st, i + 2, c)
                if not args:
                    raise RewriteError("R7u: format! without arguments")
                a0, a1 = args[0]
                if a1 - a0 != 1 or st[a0].kind != "str" or not st[a0].text.startswith('"'):
                    raise RewriteError("R7u: format string is not a plain string literal")
                explicit = []
                for (x, y) in args[1:]:
                    inner = [z.text for z in st[x:y]]
                    if "mut" in inner or "=" in inner:
                        raise RewriteError("R7u: format! argument with a possible side effect or a named argument")
                    explicit.append(span_text(text, st, x, y))
                names = _placeholders(st[a0].text)
                if sum(1 for nm in names if nm == "") != len(explicit):
                    raise RewriteError("R7u: placeholder count differs from the argument count")
                k = 0
                outargs = []
                for nm in names:
                    if nm == "":
                        outargs.append("&(%s)" % explicit[k])
                        k += 1
                    else:
                        outargs.append("&(%s)" % nm)
                new = "vx_format%d(%s)" % (len(names), ", ".join([st[a0].text] + outargs))
                text = text[:t.start] + new + text[st[c].end:]
                log["R7u format! -> vx_format<N>(literal, args)"] = log.get("R7u format! -> vx_format<N>(literal, args)", 0) + 1
                done = False
                break
        if done:
            return text


# ---------------------------------------------------------------------------------------------------------------- R21
_NET_SELF_FNS = ("upload",)


def r21_explicit_net(text, log):
    while True:
        st = sig(lex(text))
        done = True
        for i, t in enumerate(st):
            if t.kind != "ident" or i < 1 or st[i - 1].text != "." or i + 2 >= len(st) or st[i + 1].text != "(":
                continue
            if t.text == "send" and st[i + 2].text == ")":
                text = text[:st[i + 1].end] + "vx_net" + text[st[i + 2].start:]
                key = "R21 explicit network at .send()"
            elif t.text in _NET_SELF_FNS and i >= 2 and st[i - 2].text == "self" and st[i + 2].text != "vx_net":
                sep = "" if st[i + 2].text == ")" else ", "
                text = text[:st[i + 1].end] + "vx_net" + sep + text[st[i + 1].end:]
                key = "R21 explicit network at self.%s(..)" % t.text
            else:
                continue
            log[key] = log.get(key, 0) + 1
            done = False
            break
        if done:
            return text


# ---------------------------------------------------------------------------------------------------------------- R4q
def _recv_start(st, dot):
    """st[dot] is the `.` before `iter`; return the index of the first token of the receiver path, or None"""
    j = dot - 1
    if j < 0:
        return None
    # optional trailing index / slice brackets
    while st[j].text == "]":
        depth = 0
        k = j
        while k >= 0:
            if st[k].kind == "punct" and st[k].text in ")]}":
                depth += 1
            elif st[k].kind == "punct" and st[k].text in "([{":
                depth -= 1
                if depth == 0:
                    break
            k -= 1
        if k <= 0 or st[k].text != "[":
            return None
        j = k - 1
    if st[j].kind != "ident":
        return None
    while j - 2 >= 0 and st[j - 1].text == "." and st[j - 2].kind == "ident":
        j -= 2
    if j - 1 >= 0 and st[j - 1].text in (".", ")", "]", "?"):
        return None  # receiver is the result of a call / longer postfix expression: not a plain path
    return j


def _call_after(st, k, name):
    """if st[k:] starts `. name (` return (open, close) else None"""
    if k + 2 < len(st) and st[k].text == "." and st[k + 1].text == name and st[k + 2].text == "(":
        return k + 2, match_close(st, k + 2)
    return None


def r4q_chain_collect(text, log):
    while True:
        st = sig(lex(text))
        done = True
        for i, t in enumerate(st):
            new = None
            start = end = None
            # ---- (A..B).map(|I| BODY).collect()
            if t.text == "(" and t.kind == "punct":
                try:
                    c = match_close(st, i)
                except Exception:
                    continue
                m = _call_after(st, c + 1, "map")
                if m and (i == 0 or (st[i - 1].kind != "ident" and st[i - 1].text not in (")", "]", "!"))):
                    # find a top-level `..` inside the parentheses
                    depth = 0
                    dd = None
                    for k in range(i + 1, c):
                        if st[k].kind == "punct" and st[k].text in "([{":
                            depth += 1
                        elif st[k].kind == "punct" and st[k].text in ")]}":
                            depth -= 1
                        elif depth == 0 and st[k].text == "." and st[k + 1].text == "." and st[k + 1].start == st[k].end:
                            dd = k
                            break
                    o, mc = m
                    if dd is not None and dd > i + 1 and dd + 2 < c and st[dd + 2].text != "=" \
                            and st[o + 1].text == "|" and st[o + 2].kind == "ident" and st[o + 3].text == "|" \
                            and [x.text for x in st[mc + 1:mc + 5]] == [".", "collect", "(", ")"]:
                        A = span_text(text, st, i + 1, dd)
                        B = span_text(text, st, dd + 2, c)
                        I = st[o + 2].text
                        body = text[st[o + 4].start:st[mc].start].strip()
                        new = "{ let vx_lo = %s; let vx_hi = %s; let mut vx_c = Vec::new(); for vx_j in vx_lo..vx_hi { let %s = vx_j; vx_c.push(%s); } vx_c }" % (A, B, I, body)
                        start, end = t.start, st[mc + 4].end
                        key = "R4q range-map-collect -> push loop"
            # ---- RECV.iter()[.enumerate()][.skip(A)][.take(B)].map(|X| BODY).collect()
            if new is None and t.text == "." and i + 3 < len(st) and [x.text for x in st[i + 1:i + 4]] == ["iter", "(", ")"]:
                j = _recv_start(st, i)
                if j is None:
                    continue
                k = i + 4
                enum = False
                A = B = None
                m = _call_after(st, k, "enumerate")
                if m and m[1] == m[0] + 1:
                    enum = True
                    k = m[1] + 1
                else:
                    m = _call_after(st, k, "skip")
                    if m:
                        A = span_text(text, st, m[0] + 1, m[1])
                        k = m[1] + 1
                    m = _call_after(st, k, "take")
                    if m:
                        B = span_text(text, st, m[0] + 1, m[1])
                        k = m[1] + 1
                m = _call_after(st, k, "map")
                if not m:
                    continue
                o, mc = m
                if [x.text for x in st[mc + 1:mc + 5]] != [".", "collect", "(", ")"]:
                    continue
                if st[o + 1].text != "|":
                    continue
                if enum:
                    if not ([x.text for x in st[o + 2:o + 3]] == ["("] and st[o + 3].kind == "ident" and st[o + 4].text == ","
                            and st[o + 5].kind == "ident" and st[o + 6].text == ")" and st[o + 7].text == "|"):
                        continue
                    binds = "let %s = vx_j; let %s = &vx_s[vx_j];" % (st[o + 3].text, st[o + 5].text)
                    b0 = o + 8
                else:
                    if not (st[o + 2].kind == "ident" and st[o + 3].text == "|"):
                        continue
                    binds = "let %s = &vx_s[vx_j];" % st[o + 2].text
                    b0 = o + 4
                for x in (A, B):
                    if x is not None and ("mut" in x.split() or "|" in x):
                        raise RewriteError("R4q: skip/take argument is not a plain expression")
                recv = span_text(text, st, j, i)
                body = text[st[b0].start:st[mc].start].strip()
                if st[i - 1].text == "]":
                    src = "vx_s"
                    pre = "let vx_s = &%s; let vx_n = vx_s.len();" % recv
                else:
                    src = recv          # a plain path is indexed directly (as xorbidx.R4d does)
                    pre = "let vx_n = %s.len();" % recv
                binds = binds.replace("&vx_s[", "&%s[" % src)
                if A is not None:
                    pre += " let vx_a: usize = %s;" % A
                if B is not None:
                    pre += " let vx_b: usize = %s;" % B
                pre += " let vx_lo = %s;" % ("if vx_a < vx_n { vx_a } else { vx_n }" if A is not None else "0")
                pre += " let vx_hi = %s;" % ("if vx_b < vx_n - vx_lo { vx_lo + vx_b } else { vx_n }" if B is not None else "vx_n")
                new = "{ %s let mut vx_c = Vec::new(); for vx_j in vx_lo..vx_hi { %s vx_c.push(%s); } vx_c }" % (pre, binds, body)
                start, end = st[j].start, st[mc + 4].end
                key = "R4q iter-chain-collect -> push loop"
            if new is None:
                continue
            text = text[:start] + new + text[end:]
            log[key] = log.get(key, 0) + 1
            done = False
            break
        if done:
            return text


RULES = {"R7u": r7u_format, "R21": r21_explicit_net, "R4q": r4q_chain_collect}
