"""Extra catalogue rule used by U-FEED (general and syntactic; selected per item with `//@ rules feed.R4x`).

R4x  `for X in E.chunks_exact(N) { B }`  ->
         `{ assert!(N != 0); let mut pos: usize = 0;
            while E.len() >= N && pos <= E.len() - N { let X = &E[pos..pos + N]; pos = pos + N; B } }`
     `for X in E.chunks(N) { B }`        ->
         `{ assert!(N != 0); let mut pos: usize = 0;
            while pos < E.len() { let vx_ck_take: usize = usize::min(E.len() - pos, N); let X = &E[pos..pos + vx_ck_take];
                                  pos = pos + vx_ck_take; B } }`

Definitional for slices / Vec (std `<[T]>::chunks_exact` / `<[T]>::chunks`, `ChunksExact::next` / `Chunks::next`): both panic for a
chunk size of 0 (kept: `assert!`, which the always-on rule R2 turns into an abort obligation); `chunks_exact` yields the consecutive
sub-slices of exactly N elements while N more elements remain and SKIPS THE REMAINDER; `chunks` yields sub-slices of
`min(remaining, N)` elements until nothing remains.  Verus has no specification for these iterator adapters (a `for` over them is
rejected), so without the rule an edit that rewrites an index loop into one of these forms leaves the unit undecided.

The rule introduces exactly the arithmetic of the adapter's definition and nothing else; B, E, N, X are copied verbatim.  The cursor is
advanced BEFORE the body, so `continue` / `break` / `?` in B keep their meaning.  To keep "evaluated once" trivially true, the rule
only fires when
  * X is a single identifier, the loop is unlabelled,
  * E is a plain path `a` / `a.b.c` / `self.a` (no calls, no indexing) and
  * N is a literal, a plain path, or `*path` (the deref of a lazy_static / configurable constant, which R6 later turns into its
    accessor) -- i.e. both are side-effect free and B cannot change them through X (X borrows E immutably for the whole loop in the
    source program, so rustc has already checked that B does not mutate E).
Anything else is left untouched (the verifier then reports the construct as unsupported, as before).

Name of the cursor: `pos`, or `vx_ck_pos` when the item already uses the identifier `pos`.  This is a naming convention only: it lets
loop invariants that a unit wrote for an index loop over `pos` TYPE-CHECK against the desugared iterator form; whether they HOLD is
decided by the verifier (for `chunks_exact` over a length that is not a multiple of N they do not: the remainder is never visited).

The rule runs before the always-on rules (vx_pre) so that it sees `*NAME` rather than R6's accessor call and so that R2 handles the
`assert!` it emits.  It fires only when one of the two forms is present; the evidence lists it under the item's rules when it does.
"""
from ..lexer import lex, sig
from ..extract import match_close


def _plain_path(toks):
    """ident (. ident)*"""
    if not toks or len(toks) % 2 == 0:
        return False
    for k, t in enumerate(toks):
        if k % 2 == 0:
            if t.kind != "ident":
                return False
        elif t.text != ".":
            return False
    return True


def _simple_size(toks):
    """literal | path (a, a::b, a.b) | *path"""
    if not toks:
        return False
    if len(toks) == 1 and toks[0].kind == "num":
        return True
    if toks[0].text == "*":
        toks = toks[1:]
    if not toks or toks[0].kind != "ident" or toks[-1].kind != "ident":
        return False
    for t in toks:
        if not (t.kind == "ident" or t.text in (".", ":", "::")):
            return False
    return True


def r4x_chunk_iter(text, log):
    while True:
        st = sig(lex(text))
        idents = set(t.text for t in st if t.kind == "ident")
        done = True
        for i, t in enumerate(st):
            if not (t.kind == "ident" and t.text == "for"):
                continue
            if i + 3 >= len(st) or st[i + 1].kind != "ident" or st[i + 2].text != "in":
                continue          # pattern is not a single identifier (or `for<'a>`)
            if i >= 2 and st[i - 1].text == ":" and st[i - 2].kind == "lifetime":
                continue          # labelled loop
            # expression up to the body's `{`
            b = i + 3
            while b < len(st) and st[b].text != "{":
                if st[b].kind == "punct" and st[b].text in "([":
                    b = match_close(st, b) + 1
                    continue
                b += 1
            if b >= len(st):
                continue
            ex = st[i + 3:b]
            # ... PATH . chunks_exact|chunks ( N )
            if len(ex) < 5 or ex[-1].text != ")":
                continue
            # find the opening parenthesis of the trailing call
            op = None
            for k in range(i + 3, b):
                if st[k].text == "(" and match_close(st, k) == b - 1:
                    op = k
                    break
            if op is None or st[op - 1].kind != "ident" or st[op - 1].text not in ("chunks_exact", "chunks") or st[op - 2].text != ".":
                continue
            recv = st[i + 3:op - 2]
            size = st[op + 1:b - 1]
            if not _plain_path(recv) or not _simple_size(size):
                continue
            c = match_close(st, b)
            x = st[i + 1].text
            e = text[recv[0].start:recv[-1].end]
            n = text[size[0].start:size[-1].end]
            body = text[st[b].end:st[c].start]
            pos = "pos" if "pos" not in idents else "vx_ck_pos"
            if st[op - 1].text == "chunks_exact":
                new = ("{ assert!(%(n)s != 0); let mut %(p)s: usize = 0; while %(e)s.len() >= %(n)s && %(p)s <= %(e)s.len() - %(n)s { "
                       "let %(x)s = &%(e)s[%(p)s..%(p)s + %(n)s]; %(p)s = %(p)s + %(n)s; %(b)s } }") % {"n": n, "p": pos, "e": e, "x": x, "b": body}
                key = "R4x chunks_exact -> index loop"
            else:
                new = ("{ assert!(%(n)s != 0); let mut %(p)s: usize = 0; while %(p)s < %(e)s.len() { "
                       "let vx_ck_take: usize = usize::min(%(e)s.len() - %(p)s, %(n)s); let %(x)s = &%(e)s[%(p)s..%(p)s + vx_ck_take]; "
                       "%(p)s = %(p)s + vx_ck_take; %(b)s } }") % {"n": n, "p": pos, "e": e, "x": x, "b": body}
                key = "R4x chunks -> index loop"
            text = text[:t.start] + new + text[st[c].end:]
            log[key] = log.get(key, 0) + 1
            done = False
            break
        if done:
            return text


r4x_chunk_iter.vx_pre = True

RULES = {"R4x": r4x_chunk_iter}
