"""R4p  iteration by value over the elements of a Vec / slice with a parenthesised (possibly nested) tuple pattern behind `&`.

    for &PAT in E.iter() { B }      (PAT starts with `(`, E a plain path such as `v` or `self.v`)
        ->  ; { let mut vx_pK = 0; while vx_pK < E.len() { let PAT = E[vx_pK]; vx_pK += 1; B } }

Definitional for slices and `Vec` of `Copy` elements: `<[T]>::iter()` yields `&E[0], &E[1], ...`; the pattern `&PAT` against `&T` binds
what `PAT` binds against the copied element `E[n]`.  E is a place expression without side effects (a path), so evaluating it in the
loop condition and in the binding is the same as evaluating it once.  The counter is incremented before the body so that `continue`
keeps its meaning.  K numbers the rewritten loops in textual order (invariants name `vx_pK`).  The leading empty statement keeps the
generated block from being parsed as a clause of a preceding loop.  Refuses (loop left as is) any other pattern or a non-path E; if
the element type is not `Copy` the result does not type-check (rustc, exit 2).  Nothing is dropped.
"""
from ..lexer import lex, sig
from ..extract import match_close
from ..rewrite import _for_loops, _tail_is, span_text


def r4p_iter_copy_tuple(text, log):
    k = 0
    while True:
        st = sig(lex(text))
        done = True
        for i, in_idx, b in _for_loops(st):
            if not _tail_is(st, b, [".", "iter", "(", ")"]):
                continue
            if st[i + 1].text != "&" or st[i + 2].text != "(" or match_close(st, i + 2) != in_idx - 1:
                continue
            e_toks = st[in_idx + 1:b - 4]
            if not e_toks or not all(t.kind == "ident" or t.text == "." for t in e_toks) or any(t.text in ("mut", "ref") for t in st[i + 2:in_idx]):
                continue
            pat = span_text(text, st, i + 2, in_idx)
            e_txt = span_text(text, st, in_idx + 1, b - 4)
            c = match_close(st, b)
            k += 1
            n = "vx_p%d" % k
            if n in text:
                continue
            body = text[st[b].end:st[c].start]
            new = "; { let mut %s = 0; while %s < %s.len() { let %s = %s[%s]; %s += 1; %s} }" % (n, n, e_txt, pat, e_txt, n, n, body)
            text = text[:st[i].start] + new + text[st[c].end:]
            log["R4p iter-for (copy tuple pattern) -> while"] = log.get("R4p iter-for (copy tuple pattern) -> while", 0) + 1
            done = False
            break
        if done:
            return text


RULES = {"R4p": r4p_iter_copy_tuple}
