"""Extra catalogue rules of unit U-SHWRITE (all syntactic; they refuse -> RewriteError -> undecided when a side condition fails).

R4i  `for PAT in P {`  with P a bare place path (identifiers joined by `.`)  ->  `for PAT in P.iter() {`
     `impl IntoIterator for &BTreeMap/&Vec/&HashMap/&[T]` is defined in std as `self.iter()`; if P is not a reference to such a
     collection rustc rejects the generated text (owned collections yield owned items, the body would no longer type-check).
R4n  `for PAT in E {`  ->  `for PAT in vx_itN: E {`   names the ghost iterator (Verus annotation syntax, no run-time meaning) so
     that loop invariants can mention the iteration state.  Loops that already carry a name are left alone.
R4z  `for (P1, P2) in A.iter().zip(B.iter()) { BODY }` with A, B place paths and Pi = `Q` or `&Q`, Q any irrefutable pattern
     (identifier, tuple destructuring, ...)
     ->  `for vx_zN in 0..(A.len()).min(B.len()) { let Q1 = [&]A[vx_zN]; let Q2 = [&]B[vx_zN]; BODY }`   (`&Q` binds by value)
     definitional: `zip` yields the pairs (A[i], B[i]) for i < min(len A, len B), in order.
"""
from vxlib.lexer import lex, sig
from vxlib.extract import match_close
from vxlib.rewrite import RewriteError


def _for_header(st, i):
    """st[i] == 'for' (a loop, not `for<'a>`); returns (in_idx, body_open_idx) or None"""
    if st[i + 1].text == "<":
        return None
    j = i + 1
    in_idx = None
    while j < len(st):
        t = st[j]
        if t.kind == "punct" and t.text in "([":
            j = match_close(st, j) + 1
            continue
        if t.kind == "ident" and t.text == "in" and in_idx is None:
            in_idx = j
        if t.text == "{":
            return (in_idx, j) if in_idx is not None else None
        if t.text == ";":
            return None
        j += 1
    return None


def _is_named(st, in_idx):
    return st[in_idx + 1].kind == "ident" and st[in_idx + 2].text == ":" and st[in_idx + 3].text != ":"


def _is_path(st, a, b):
    """st[a:b] is ident(.ident)*"""
    if a >= b or st[a].kind != "ident":
        return False
    k = a + 1
    while k < b:
        if st[k].text != "." or k + 1 >= b or st[k + 1].kind != "ident":
            return False
        k += 2
    return True


def r4i_into_iter(text, log):
    while True:
        st = sig(lex(text))
        hit = None
        for i, t in enumerate(st):
            if t.kind == "ident" and t.text == "for":
                h = _for_header(st, i)
                if h is None:
                    continue
                in_idx, b = h
                a = in_idx + 1
                if _is_named(st, in_idx):
                    a = in_idx + 3
                if _is_path(st, a, b):
                    hit = st[b - 1].end
                    break
        if hit is None:
            return text
        text = text[:hit] + ".iter()" + text[hit:]
        log["R4i into_iter -> iter()"] = log.get("R4i into_iter -> iter()", 0) + 1


def r4n_name_iterators(text, log):
    n = 0
    pos_tok = 0
    while True:
        st = sig(lex(text))
        hit = None
        cnt = 0
        for i, t in enumerate(st):
            if t.kind == "ident" and t.text == "for":
                h = _for_header(st, i)
                if h is None:
                    continue
                cnt += 1
                in_idx, b = h
                if _is_named(st, in_idx):
                    continue
                hit = (cnt, st[in_idx].end)
                break
        if hit is None:
            return text
        cnt, off = hit
        name = "vx_it%d" % cnt
        if any(t.kind == "ident" and t.text == name for t in st):
            raise RewriteError("R4n: identifier %s already occurs" % name)
        text = text[:off] + " " + name + ":" + text[off:]
        log["R4n ghost iterator named"] = log.get("R4n ghost iterator named", 0) + 1


def _pat(text, st, a, b):
    """pattern tokens st[a:b]: `P` or `&P` with P any irrefutable pattern (identifier, tuple, ...) -> (pattern text, deref) or None"""
    if a >= b:
        return None
    if st[a].text == "&":
        if a + 1 >= b:
            return None
        return text[st[a + 1].start:st[b - 1].end], True
    return text[st[a].start:st[b - 1].end], False


def r4z_zip(text, log):
    k = 0
    while True:
        st = sig(lex(text))
        hit = None
        for i, t in enumerate(st):
            if not (t.kind == "ident" and t.text == "for" and st[i + 1].text == "("):
                continue
            h = _for_header(st, i)
            if h is None:
                continue
            in_idx, b = h
            pc = match_close(st, i + 1)
            if pc + 1 != in_idx:
                continue
            # split the tuple pattern at the top-level comma
            comma = None
            q = i + 2
            while q < pc:
                if st[q].kind == "punct" and st[q].text in "([":
                    q = match_close(st, q) + 1
                    continue
                if st[q].text == ",":
                    comma = q
                    break
                q += 1
            if comma is None:
                continue
            p1 = _pat(text, st, i + 2, comma)
            p2 = _pat(text, st, comma + 1, pc)
            if p1 is None or p2 is None:
                continue
            # A . iter ( ) . zip ( B . iter ( ) )
            a0 = in_idx + 1
            a1 = a0
            while a1 < b and not (st[a1].text == "." and st[a1 + 1].text == "iter" and st[a1 + 2].text == "(" and st[a1 + 3].text == ")"
                                  and st[a1 + 4].text == "." and st[a1 + 5].text == "zip" and st[a1 + 6].text == "("):
                a1 += 1
            if a1 >= b or not _is_path(st, a0, a1):
                continue
            zo = a1 + 6
            zc = match_close(st, zo)
            if zc + 1 != b:
                continue
            if [x.text for x in st[zc - 4:zc]] != [".", "iter", "(", ")"] or not _is_path(st, zo + 1, zc - 4):
                continue
            A = text[st[a0].start:st[a1 - 1].end]
            B = text[st[zo + 1].start:st[zc - 5].end]
            hit = (i, b, p1, p2, A, B)
            break
        if hit is None:
            return text
        i, b, p1, p2, A, B = hit
        k += 1
        iv = "vx_z%d" % k
        if any(t.kind == "ident" and t.text == iv for t in st):
            raise RewriteError("R4z: identifier %s already occurs" % iv)
        head = "for %s in 0..(%s.len()).min(%s.len()) { let %s = %s%s[%s]; let %s = %s%s[%s];" % (
            iv, A, B, p1[0], "" if p1[1] else "&", A, iv, p2[0], "" if p2[1] else "&", B, iv)
        text = text[:st[i].start] + head + text[st[b].end:]
        log["R4z zip -> index loop"] = log.get("R4z zip -> index loop", 0) + 1


RULES = {"R4i": r4i_into_iter, "R4n": r4n_name_iterators, "R4z": r4z_zip}
