"""Extra catalogue rules used by U-JOIN (R16, R17).

R16 async-block outline:  `async move { B }` / `async { B }`  (an async *block expression*, never `async fn`)
                          ->  `vx_async_block()`

Why it is sound for the enclosing function: an async block is a lazy future *value*; building it executes none of B.  B runs
later as a separate task, and the only way its result reaches the enclosing function is the value handed back by the join
handle / `JoinSet::join_next`, which the unit's stub specifies as arbitrary (`VxFuture::outcome()` is an uninterpreted
prophecy value).  What is dropped: the body B (not verified, listed), and rustc's move-checking of the variables B captures.
The rule changes no arithmetic, condition, index, field update or call order of the enclosing function.
The unit must provide `fn vx_async_block<T>() -> VxFuture<T>` (external_body, no contract).
"""
from ..lexer import lex, sig
from ..extract import match_close
from ..rewrite import apply_edits, _stmt_for_header


def r16_async_block(text, log):
    st = sig(lex(text))
    edits = []
    n = 0
    i = 0
    while i < len(st):
        t = st[i]
        if t.kind == "ident" and t.text == "async":
            j = i + 1
            if j < len(st) and st[j].kind == "ident" and st[j].text == "move":
                j += 1
            if j < len(st) and st[j].text == "{":
                c = match_close(st, j)
                edits.append((t.start, st[c].end, "vx_async_block()"))
                n += 1
                i = c + 1
                continue
        i += 1
    if n:
        log["R16 async-block -> opaque future"] = log.get("R16 async-block -> opaque future", 0) + n
    return apply_edits(text, edits)


def r17_name_for_iter(text, log):
    """`for PAT in EXPR {`  ->  `for PAT in vx_it: EXPR {`
    Verus' own syntax for naming the ghost wrapper of the loop iterator, so that an invariant can mention how many items have
    been taken (`vx_it.index@`).  A pure annotation: the executable loop is unchanged (the name exists only in ghost code)."""
    st = sig(lex(text))
    edits = []
    n = 0
    for i, t in enumerate(st):
        if t.kind == "ident" and t.text == "for" and i + 1 < len(st) and st[i + 1].text != "<":
            in_idx, b = _stmt_for_header(st, i)
            if in_idx is None:
                continue
            if in_idx + 2 < len(st) and st[in_idx + 2].text == ":" and st[in_idx + 3].text != ":":
                continue  # already named
            edits.append((st[in_idx].end, st[in_idx].end, " vx_it:"))
            n += 1
    if n:
        log["R17 name-for-iterator"] = log.get("R17 name-for-iterator", 0) + n
    return apply_edits(text, edits)


RULES = {"R16": r16_async_block, "R17": r17_name_for_iter}
