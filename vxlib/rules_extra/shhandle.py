"""R17e  Result::map_err with a closure literal, unfolded to its std definition.

    RECV.map_err(|e| BODY)      ->      (match RECV { Ok(vx_ok) => Ok(vx_ok), Err(e) => Err(BODY) })

`Result::map_err` is `match self { Ok(t) => Ok(t), Err(e) => Err(op(e)) }` in core; applying the closure literal to `e` is
beta-reduction with the same binder.  Purely syntactic; type-safe because rustc rejects the result whenever RECV is not a
`Result`.  Needed because Verus gives an unannotated closure no postcondition, so the mapped error would be unconstrained.
Conditions (otherwise the site is left alone): single identifier parameter without type annotation, no `move`, BODY contains
no `return`/`?`/`break`/`continue`; RECV is a postfix chain (identifiers, paths, field accesses, calls, indexing).
`vx_ok` must not occur in the item.
"""
from ..lexer import lex, sig
from ..extract import match_close
from ..rewrite import find_seq
from .setops import _recv_start


def r17e_map_err(text, log):
    while True:
        st = sig(lex(text))
        done = True
        for i in find_seq(st, [".", "map_err", "(", "|"]):
            if i + 6 >= len(st) or st[i + 4].kind != "ident" or st[i + 5].text != "|":
                continue
            x = st[i + 4].text
            if x in ("mut", "ref", "_") or "vx_ok" in text:
                continue
            c = match_close(st, i + 2)
            body_toks = st[i + 6:c]
            if not body_toks or any(t.kind == "ident" and t.text in ("return", "break", "continue") for t in body_toks) \
                    or any(t.kind == "punct" and t.text == "?" for t in body_toks):
                continue
            r0 = _recv_start(st, i)
            if r0 is None:
                continue
            recv = text[st[r0].start:st[i - 1].end]
            body = text[body_toks[0].start:body_toks[-1].end]
            new = "(match %s { Ok(vx_ok) => Ok(vx_ok), Err(%s) => Err(%s) })" % (recv, x, body)
            text = text[:st[r0].start] + new + text[st[c].end:]
            log["R17e Result::map_err unfold"] = log.get("R17e Result::map_err unfold", 0) + 1
            done = False
            break
        if done:
            return text


RULES = {"R17e": r17e_map_err}
