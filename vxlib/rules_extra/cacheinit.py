"""Extra catalogue rule used by U-CACHEINIT (general and syntactic; selected per item with `//@ rules cacheinit.R4m`).

R4m  `for PAT in EXPR.map_while(|X| F) { B }`   ->   `for X in EXPR { let PAT = match F { Some(vx_mw) => vx_mw, None => break, }; B }`
     The definition of `Iterator::map_while` consumed by a `for` loop: `MapWhile::next` is `let x = self.iter.next()?; (self.f)(x)`,
     i.e. the adaptor applies the closure to every element of the underlying iterator in order, yields the `Some` payloads and ENDS
     the iteration at the first `None` (it does not skip it — that would be `filter_map`).  The `for` loop therefore runs B for the
     payloads and leaves at the first `None`, which is what the rewritten loop does.  No arithmetic, condition, index, update or call
     order changes; `continue` / `break` in B keep their meaning (same loop).  The result is an ordinary `for` over EXPR, so the
     for-loop rules (`cacheacct.R4i`, `cacheacct.R18`, …) apply to it afterwards — list R4m BEFORE them.
     Refused (text unchanged): a closure parameter that is not a single identifier, a `move` closure, a closure body containing
     `return`, `?`, `break` or `continue` (they would change their target), a `.map_while(..)` that is not the last call of the
     iterated expression, an identifier X that B or PAT already uses (capture).
"""
from ..lexer import lex, sig
from ..extract import match_close
from ..rewrite import RewriteError


def r4m_map_while(text, log):
    while True:
        st = sig(lex(text))
        done = True
        for i, t in enumerate(st):
            if not (t.kind == "ident" and t.text == "for"):
                continue
            if i + 1 < len(st) and st[i + 1].text == "<":
                continue
            # `in` of the header
            j = i + 1
            in_idx = None
            while j < len(st):
                x = st[j]
                if x.kind == "punct" and x.text in "([":
                    j = match_close(st, j) + 1
                    continue
                if x.text in ("{", ";"):
                    break
                if x.kind == "ident" and x.text == "in":
                    in_idx = j
                    break
                j += 1
            if in_idx is None:
                continue
            # opening brace of the body
            b = in_idx + 1
            while b < len(st) and st[b].text != "{":
                if st[b].kind == "punct" and st[b].text in "([":
                    b = match_close(st, b) + 1
                    continue
                b += 1
            if b >= len(st):
                continue
            # the iterated expression must END with `.map_while( … )`
            if st[b - 1].text != ")":
                continue
            # find the matching `(` of that last `)`
            o = None
            k = in_idx + 1
            while k < b:
                if st[k].kind == "punct" and st[k].text in "([":
                    c = match_close(st, k)
                    if c == b - 1:
                        o = k
                        break
                    k = c + 1
                    continue
                k += 1
            if o is None or o < 2 or not (st[o - 1].kind == "ident" and st[o - 1].text == "map_while" and st[o - 2].text == "."):
                continue
            if o - 2 <= in_idx + 0:
                continue
            # closure `|X| F`
            a = o + 1
            if not (st[a].text == "|" and st[a + 1].kind == "ident" and st[a + 2].text == "|"):
                continue  # `move`, typed or destructuring parameter: refused
            x_name = st[a + 1].text
            body_toks = st[a + 3:b - 1]
            if not body_toks:
                continue
            if any(z.text in ("return", "?", "break", "continue") for z in body_toks):
                continue
            cbody = text[body_toks[0].start:body_toks[-1].end]
            c = match_close(st, b)
            pat = text[st[i + 1].start:st[in_idx - 1].end]
            loop_body_toks = st[b + 1:c]
            if any(z.kind == "ident" and z.text == x_name for z in loop_body_toks) or any(z.kind == "ident" and z.text == x_name for z in st[i + 1:in_idx]):
                continue  # the closure parameter would capture a name of the loop
            expr = text[st[in_idx + 1].start:st[o - 3].end]
            body = text[st[b].end:st[c].start]
            new = "for %s in %s { let %s = match %s { Some(vx_mw) => vx_mw, None => break, }; %s }" % (x_name, expr, pat, cbody, body)
            text = text[:t.start] + new + text[st[c].end:]
            log["R4m for-over-map_while -> for + match/break"] = log.get("R4m for-over-map_while -> for + match/break", 0) + 1
            done = False
            break
        if done:
            return text


RULES = {"R4m": r4m_map_while}
