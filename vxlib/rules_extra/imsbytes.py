"""Rules of unit U-IMSBYTES (byte totals of the in-memory shard).  Both are syntactic unfoldings of std iterator reductions into
the loops they are defined by.  Neither touches the reduction's arithmetic: the closure body (with its casts) is copied as is.

R21f  `RECV.iter()[.skip(K)][.take(K)].fold(INIT, |ACC, PAT| BODY)`
      ->  `({ let mut vx_accN = INIT; for PAT in RECV.iter() { let ACC = vx_accN; vx_accN = BODY; } vx_accN })`
      (parenthesised: a block that starts a statement cannot be followed by `as T` / `.m()`)
      core `Iterator::fold`:  `let mut accum = init; while let Some(x) = self.next() { accum = f(accum, x); } accum`; applying the
      closure literal to (accum, x) is beta-reduction with the same binders (`let ACC = vx_accN;` and the loop pattern bind them).
      Conditions: closure literal with exactly two parameters, the first an identifier, no type annotations, no `move`; BODY
      contains no `return` / `?` / `break` / `continue` (their meaning would change outside a closure); RECV is a postfix chain.
      `.skip(K)` / `.take(K)` right after `.iter()` (K evaluated once, before the loop, as the adaptor call does):
      `let mut vx_skipN: usize = K;` + loop body `if vx_skipN > 0 { vx_skipN -= 1; } else { .. }` (skip drops the first K items);
      `let mut vx_takeN: usize = K;` + loop body `if vx_takeN > 0 { vx_takeN -= 1; .. }` (take yields the first K items; the
      remaining items are still stepped over, which is unobservable for `iter()` of a std collection: no side effects, finite).

R21s  `RECV.iter().map(|PAT| BODY).sum[::<T>]()`   ->  `({ let mut vx_accN[: T] = 0; for PAT in RECV.iter() { vx_accN = vx_accN + (BODY); } vx_accN })`
      `RECV.values().map(|PAT| BODY).sum[::<T>]()` ->  same with `for (_, PAT) in RECV.iter()`
      core: `impl Sum for uN` is `iter.fold(0, #[rustc_inherit_overflow_checks] |a, b| a + b)` and `map(f)` yields `f(x)` per item;
      `BTreeMap::values` / `HashMap::values` yield the second components of `iter()` in the same order (a receiver that is not a
      keyed collection does not type-check after the rewrite: rustc decides).  Without turbofish the accumulator type is inferred
      by rustc exactly as `sum`'s type parameter was (from the use of the result).  Same closure conditions as R21f, one parameter.

Numbering: N = 1 + the largest `vx_acc<k>` already in the text; sites are processed in textual order, so an outer reduction gets the
smaller number (its `for` is also the earlier loop for `//@ loop k` and for R4n's `vx_it<k>`).
"""
import re
from ..lexer import lex, sig
from ..extract import match_close
from ..rewrite import find_seq, RewriteError
from .setops import _recv_start

_BAD = ("return", "break", "continue")


def _params(st, o):
    """st[o] == '(' ; for fold `( INIT , | P1 , P2 | BODY )`, for map `( | P | BODY )`.  Returns (first_bar, [param token lists], body_start)"""
    j = o + 1
    if st[j].text != "|":
        return None
    j += 1
    params = [[]]
    while j < len(st) and st[j].text != "|":
        if st[j].text in ("(", "["):
            c = match_close(st, j)
            params[-1].extend(st[j:c + 1])
            j = c + 1
            continue
        if st[j].text == ",":
            params.append([])
        else:
            params[-1].append(st[j])
        j += 1
    if j >= len(st):
        return None
    for p in params:
        if not p or any(t.text == ":" for t in p):
            return None
    return params, j + 1


def _body_ok(st, a, b):
    for t in st[a:b]:
        if t.kind == "ident" and t.text in _BAD:
            return False
        if t.kind == "punct" and t.text == "?":
            return False
    return True


def _next_n(text):
    ns = [int(m) for m in re.findall(r"\bvx_acc(\d+)\b", text)]
    return (max(ns) + 1) if ns else 1


def _split_init(st, o, c):
    """tokens of `( INIT , | ...` : index of the top-level comma that ends INIT"""
    j = o + 1
    while j < c:
        if st[j].text in ("(", "[", "{"):
            j = match_close(st, j) + 1
            continue
        if st[j].text == ",":
            return j
        if st[j].text == "|":
            return None
        j += 1
    return None


def r21f_fold(text, log):
    while True:
        st = sig(lex(text))
        hit = None
        for i in find_seq(st, [".", "fold", "("]):
            o = i + 2
            c = match_close(st, o)
            # adaptors between `.iter()` and `.fold(`
            k = i
            adapt = []
            ok = True
            while True:
                if k >= 4 and st[k - 1].text == ")" and st[k - 2].text == "(" and st[k - 3].text == "iter" and st[k - 4].text == ".":
                    it_dot = k - 4
                    break
                if st[k - 1].text == ")":
                    ao = None
                    # find the matching open paren of this adaptor call
                    depth = 0
                    q = k - 1
                    while q >= 0:
                        if st[q].text in (")", "]", "}"):
                            depth += 1
                        elif st[q].text in ("(", "[", "{"):
                            depth -= 1
                            if depth == 0:
                                ao = q
                                break
                        q -= 1
                    if ao is None or ao < 2 or st[ao - 1].text not in ("skip", "take") or st[ao - 2].text != ".":
                        ok = False
                        break
                    adapt.insert(0, (st[ao - 1].text, text[st[ao + 1].start:st[k - 2].end] if ao + 1 <= k - 2 else ""))
                    k = ao - 2
                    continue
                ok = False
                break
            if not ok:
                continue
            if len(adapt) > 1 or any(not a[1] for a in adapt):
                continue
            r0 = _recv_start(st, it_dot)
            if r0 is None:
                continue
            cm = _split_init(st, o, c)
            if cm is None or cm == o + 1:
                continue
            if st[cm + 1].text == "move":
                continue
            pr = _params(st, cm)
            if pr is None:
                continue
            params, b0 = pr
            if len(params) != 2 or len(params[0]) != 1 or params[0][0].kind != "ident" or params[0][0].text in ("mut", "_"):
                continue
            if b0 >= c or not _body_ok(st, b0, c):
                continue
            hit = (r0, it_dot, o, cm, c, params, b0, adapt)
            break
        if hit is None:
            return text
        r0, it_dot, o, cm, c, params, b0, adapt = hit
        n = _next_n(text)
        recv = text[st[r0].start:st[it_dot - 1].end]
        init = text[st[o + 1].start:st[cm - 1].end]
        acc = params[0][0].text
        pat = text[params[1][0].start:params[1][-1].end]
        body = text[st[b0].start:st[c - 1].end]
        step = "let %s = vx_acc%d; vx_acc%d = %s;" % (acc, n, n, body)
        pre = ""
        if adapt:
            kind, kexpr = adapt[0]
            if kind == "skip":
                pre = " let mut vx_skip%d: usize = %s;" % (n, kexpr)
                step = "if vx_skip%d > 0 { vx_skip%d -= 1; } else { %s }" % (n, n, step)
            else:
                pre = " let mut vx_take%d: usize = %s;" % (n, kexpr)
                step = "if vx_take%d > 0 { vx_take%d -= 1; %s }" % (n, n, step)
        new = "({ let mut vx_acc%d = %s;%s for %s in %s.iter() { %s } vx_acc%d })" % (n, init, pre, pat, recv, step, n)
        text = text[:st[r0].start] + new + text[st[c].end:]
        log["R21f Iterator::fold unfolded to its loop"] = log.get("R21f Iterator::fold unfolded to its loop", 0) + 1


def r21s_map_sum(text, log):
    while True:
        st = sig(lex(text))
        hit = None
        for i in find_seq(st, [".", "map", "("]):
            if not (i >= 4 and st[i - 1].text == ")" and st[i - 2].text == "(" and st[i - 3].text in ("iter", "values") and st[i - 4].text == "."):
                continue
            it_dot = i - 4
            o = i + 2
            c = match_close(st, o)
            # `.sum()` or `.sum::<T>()` right after the map call
            j = c + 1
            if not (j + 1 < len(st) and st[j].text == "." and st[j + 1].text == "sum"):
                continue
            j += 2
            ty = None
            if st[j].text == ":" and st[j + 1].text == ":" and st[j + 2].text == "<":
                q = j + 3
                depth = 1
                while q < len(st) and depth > 0:
                    if st[q].text == "<":
                        depth += 1
                    elif st[q].text == ">":
                        depth -= 1
                    q += 1
                ty = text[st[j + 3].start:st[q - 2].end]
                j = q
            if not (st[j].text == "(" and st[j + 1].text == ")"):
                continue
            end = j + 1
            if st[o + 1].text == "move":
                continue
            pr = _params(st, o)
            if pr is None:
                continue
            params, b0 = pr
            if len(params) != 1:
                continue
            if b0 >= c or not _body_ok(st, b0, c):
                continue
            r0 = _recv_start(st, it_dot)
            if r0 is None:
                continue
            hit = (r0, it_dot, c, params, b0, ty, end, st[i - 3].text)
            break
        if hit is None:
            return text
        r0, it_dot, c, params, b0, ty, end, how = hit
        n = _next_n(text)
        recv = text[st[r0].start:st[it_dot - 1].end]
        pat = text[params[0][0].start:params[0][-1].end]
        if how == "values":
            pat = "(_, %s)" % pat
        body = text[st[b0].start:st[c - 1].end]
        decl = "let mut vx_acc%d%s = 0;" % (n, (": " + ty) if ty else "")
        new = "({ %s for %s in %s.iter() { vx_acc%d = vx_acc%d + (%s); } vx_acc%d })" % (decl, pat, recv, n, n, body, n)
        text = text[:st[r0].start] + new + text[st[end].end:]
        log["R21s map(..).sum() unfolded to its loop"] = log.get("R21s map(..).sum() unfolded to its loop", 0) + 1


RULES = {"R21f": r21f_fold, "R21s": r21s_map_sum}
