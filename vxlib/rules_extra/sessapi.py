"""Extra catalogue rule used by U-SESSAPI.

R18 identity map_err:  `.map_err(|e| { e })` / `.map_err(|e| e)`  ->  (removed)

`Result::map_err` with the identity closure returns its receiver unchanged (definition of map_err).  Such closures arise when
R3 has erased the only other statement of the closure body (a `tracing` macro that logged the error).  Purely syntactic: the
closure must consist of exactly one parameter and that same identifier as its whole body.
"""
from ..lexer import lex, sig
from ..extract import match_close
from ..rewrite import apply_edits


def r18_identity_map_err(text, log):
    st = sig(lex(text))
    edits = []
    n = 0
    for i, t in enumerate(st):
        if t.text == "." and i + 2 < len(st) and st[i + 1].text == "map_err" and st[i + 2].text == "(":
            c = match_close(st, i + 2)
            inner = [x.text for x in st[i + 3:c]]
            # | e | { e }   or   | e | e
            if len(inner) >= 4 and inner[0] == "|" and inner[2] == "|" and st[i + 4].kind == "ident":
                e = inner[1]
                body = inner[3:]
                if body == [e] or body == ["{", e, "}"]:
                    edits.append((t.start, st[c].end, ""))
                    n += 1
    if n:
        log["R18 identity map_err removed"] = log.get("R18 identity map_err removed", 0) + n
    return apply_edits(text, edits)


RULES = {"R18": r18_identity_map_err}
