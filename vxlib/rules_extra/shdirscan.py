"""Extra catalogue rules of unit U-SHDIRSCAN: closure conversion for a callback that mutably captures its environment.
Both rules are syntactic and general, and refuse (RewriteError -> the unit is undecided, never wrong) whenever a side
condition is not met.

Verus accepts `impl FnMut` parameters but (a) gives a generic FnMut no way to say to WHICH values it was applied, and
(b) rejects a closure literal that captures a variable mutably (`|s| { ret.push(s); .. }`).  The classic way around both is
closure conversion (defunctionalisation): the closure becomes an object that owns its environment.

R23c (callee side)   `[mut] NAME: impl FnMut(T..) -> R` in the item's signature  ->  `NAME: &mut impl VxCallback`, and every call
      `NAME(args)` in the body -> `NAME.vx_call(args)`.  The unit declares `trait VxCallback { fn vx_call(&mut self, ..) -> R; }`
      with the contract every callback has to meet.  Calling an `FnMut` value IS `FnMut::call_mut(&mut NAME, (args,))`; the rule only
      names that method.  Refuses if NAME is used in any other way than a direct call (passed on, stored, returned).

R23  (caller side)   a statement  `... CALLEE(a1, .., [move] |p| { B }) ... ;`  whose last call argument is a closure literal  ->
        let mut vx_cbK = Vx_<fn>_closureK::vx_capture(v1, .., vn);
        ... CALLEE(a1, .., &mut vx_cbK) ... ;
        let ([mut] v1, .., [mut] vn) = vx_cbK.vx_release();
      where v1..vn is the closure's environment: the parameters and simple `let` locals in scope at the statement that the rest of
      the statement does not use, together with any further free variable of B, in alphabetical order - a superset of
      B's free variables, chosen so that it does not change when an edit of B stops using a variable - and <fn> is the name of the item.  The environment is moved into the object before the statement and moved back after it (a `&mut` local is
      reborrowed by the call, as for any function argument), so the rest of the function sees the variables exactly as the closure
      left them.  `mut` is kept for a variable the item declares `mut`.  The unit provides `struct Vx_<fn>_closureK` (its fields =
      the environment), `vx_capture`, `vx_release` and `impl VxCallback` whose `vx_call` hands the fields to the closure BODY, which
      the unit lifts out of the same source text as a region (R8) - so the body under proof is still the extracted text; the three
      glue functions are listed as hand-written in the unit's notes.  rustc checks that the environment the rule computed is the
      one the glue declares (arity and types of vx_capture / vx_release).
      Side conditions (all syntactic): the closure is the LAST argument of a call and has a block body, no return type annotation,
      plain `ident` / `mut ident` / `ident: T` parameters; B contains no `match`, no nested closure, no `self`, no `return`
      (binders of `let` / `if let` / `while let` / `for` are recognised, others are not); no environment variable occurs anywhere else
      in the statement (evaluation order of the other arguments cannot matter); the statement ends with `;` in the same block.
      Moving instead of borrowing is unobservable under these conditions: while the callee runs nothing else can touch a variable the
      closure borrowed, and after the statement every variable is back in scope with the value the closure left.

R24  (un-shadow a parameter)   a top-level statement `let [mut] P = E;` of the function body where P is the name of a parameter  ->
      `let [mut] vx_P = E;` and every later occurrence of the variable P in the body -> `vx_P`.  Alpha-renaming of a let-bound
      variable: after the statement every `P` denotes the new binding, so giving the binding (and exactly those uses) a fresh name
      changes nothing.  Needed because Verus postconditions and loop invariants can only name the PARAMETER, and a loop that is
      verified in isolation cannot relate a shadowing local to it.  Refuses if P is bound again later, appears in a string literal
      as an inline format argument (`{P`), or could be a struct-literal shorthand field.
"""
from ..lexer import lex, sig
from ..extract import match_close
from ..rewrite import RewriteError

_KW = {"let", "mut", "if", "else", "match", "for", "while", "loop", "in", "as", "ref", "move", "return", "break",
       "continue", "true", "false", "self", "Self", "fn", "impl", "struct", "enum", "use", "const", "static", "crate",
       "super", "where", "unsafe", "dyn", "pub", "mod", "type", "trait", "_"}
_OPEN = "([{"
_CLOSE = ")]}"


def _fn_name(st):
    for i, t in enumerate(st):
        if t.kind == "ident" and t.text == "fn" and i + 1 < len(st) and st[i + 1].kind == "ident":
            return st[i + 1].text
    raise RewriteError("R23: item is not a function")


def _enclosing_open(st, i):
    """index of the bracket token that encloses token i (None at top level)"""
    depth = 0
    j = i - 1
    while j >= 0:
        t = st[j]
        if t.kind == "punct" and t.text in _CLOSE:
            depth += 1
        elif t.kind == "punct" and t.text in _OPEN:
            if depth == 0:
                return j
            depth -= 1
        j -= 1
    return None


def _closure_start(st, i):
    """st[i] is `|`: does a closure literal start here?  (`a || b`, `a | b` have an operand on the left)"""
    if st[i].text != "|":
        return False
    p = st[i - 1].text if i > 0 else "("
    return p in ("(", ",", "=", "{", ";", "move", "return", "[")


def _idents_between(st, a, b):
    return [st[j].text for j in range(a, b) if st[j].kind == "ident" and st[j].text not in _KW]


def _free_vars(st, o, c, params):
    """free local variables of the block st[o]='{' .. st[c]='}' in order of first occurrence"""
    bound = set(params)
    j = o + 1
    while j < c:
        t = st[j]
        if t.kind == "ident" and t.text in ("match", "self", "return"):
            raise RewriteError("R23: closure body uses `%s`" % t.text)
        if t.text == "|" and _closure_start(st, j):
            raise RewriteError("R23: nested closure in closure body")
        if t.kind == "ident" and t.text == "let":
            k = j + 1
            while k < c and st[k].text not in ("=", ";"):
                if st[k].kind == "punct" and st[k].text in _OPEN:
                    k2 = match_close(st, k)
                    bound.update(_idents_between(st, k, k2))
                    k = k2 + 1
                    continue
                if st[k].kind == "ident" and st[k].text not in _KW:
                    bound.add(st[k].text)
                k += 1
        if t.kind == "ident" and t.text == "for":
            k = j + 1
            while k < c and not (st[k].kind == "ident" and st[k].text == "in"):
                if st[k].kind == "ident" and st[k].text not in _KW:
                    bound.add(st[k].text)
                k += 1
        j += 1
    out = []
    for j in range(o + 1, c):
        t = st[j]
        if t.kind != "ident" or t.text in _KW or t.text in bound or t.text in out:
            continue
        if t.text[0].isupper():
            continue
        prev, prev2 = st[j - 1].text, st[j - 2].text
        nxt = st[j + 1].text if j + 1 <= c else ""
        nxt2 = st[j + 2].text if j + 2 <= c else ""
        if prev == "." and prev2 != ".":
            continue                      # field or method name
        if prev == ":" and prev2 == ":":
            continue                      # path segment
        if nxt == ":" and nxt2 == ":":
            continue                      # head of a path
        if nxt == ":" :
            continue                      # struct-literal field name / type ascription
        if nxt == "!" and nxt2 != "=":
            continue                      # macro
        if nxt == "(":
            continue                      # function called by name
        out.append(t.text)
    return out


def r23_closure_arg(text, log):
    k = 0
    while True:
        st = sig(lex(text))
        fname = _fn_name(st)
        hit = None
        for i, t in enumerate(st):
            if t.text != "|" or i < 2:
                continue
            bar = i
            lead = i - 1
            if st[lead].text == "move":
                lead -= 1
            if st[lead].text not in ("(", ","):
                continue
            op = _enclosing_open(st, bar)
            if op is None or st[op].text != "(" or op == 0:
                continue
            callee = st[op - 1]
            if not (callee.kind == "ident" and callee.text not in _KW) and callee.text != ">":
                continue                  # a parenthesised expression, not a call
            hit = (bar, lead, op)
            break
        if hit is None:
            return text
        bar, lead, op = hit
        cl = match_close(st, op)
        # parameters
        j = bar + 1
        params = []
        cur = []
        while j < cl and st[j].text != "|":
            if st[j].text == ",":
                params.append(cur)
                cur = []
            else:
                cur.append(j)
            j += 1
        if j >= cl:
            raise RewriteError("R23: closure parameter list not closed")
        if cur:
            params.append(cur)
        names = []
        for p in params:
            q = 0
            if st[p[q]].text == "mut":
                q += 1
            if st[p[q]].kind != "ident" or st[p[q]].text in _KW or (len(p) > q + 1 and st[p[q + 1]].text != ":"):
                raise RewriteError("R23: unsupported closure parameter")
            names.append(st[p[q]].text)
        b = j + 1
        if st[b].text != "{":
            raise RewriteError("R23: closure without a block body (or with a return type)")
        bc = match_close(st, b)
        end = bc + 1
        if st[end].text == ",":
            end += 1
        if end != cl:
            raise RewriteError("R23: the closure is not the last argument of the call")
        fvs = _free_vars(st, b, bc, names)
        # the statement that contains the call
        s = op
        depth = 0
        while s > 0:
            x = st[s - 1]
            if x.kind == "punct" and x.text in _CLOSE:
                if depth == 0 and x.text == "}":
                    break
                depth += 1
            elif x.kind == "punct" and x.text in _OPEN:
                if depth == 0:
                    if x.text != "{":
                        raise RewriteError("R23: the call is nested in another bracketed expression")
                    break
                depth -= 1
            elif x.text == ";" and depth == 0:
                break
            s -= 1
        e = cl + 1
        while e < len(st):
            x = st[e]
            if x.kind == "punct" and x.text in _OPEN:
                e = match_close(st, e) + 1
                continue
            if x.kind == "punct" and x.text in _CLOSE:
                raise RewriteError("R23: the statement with the closure is a tail expression")
            if x.text == ";":
                break
            e += 1
        if e >= len(st):
            raise RewriteError("R23: statement end not found")
        for j in list(range(s, lead + 1)) + list(range(cl, e)):
            if st[j].kind == "ident" and st[j].text in fvs:
                raise RewriteError("R23: environment variable `%s` is also used outside the closure in the same statement" % st[j].text)
        # the environment: every parameter / simple `let` local in scope at the statement that the rest of the statement does not use
        # (declaration order), then the remaining free variables of the body.  A superset of the free variables is as good an
        # environment as the exact set, and it does not change when an edit of the closure body stops using a variable.
        used_here = set(st[j].text for j in list(range(s, lead + 1)) + list(range(cl, e)) if st[j].kind == "ident")
        scope = [[]]
        fi = [j for j, x in enumerate(st) if x.kind == "ident" and x.text == "fn"][0]
        po = fi
        while st[po].text != "(":
            po += 1
        pcl = match_close(st, po)
        from ..rewrite import split_args
        for a_, b_ in split_args(st, po, pcl):
            q = a_
            if st[q].text == "mut":
                q += 1
            if st[q].kind == "ident" and st[q].text not in _KW and q + 1 < b_ and st[q + 1].text == ":":
                scope[0].append(st[q].text)
        j = pcl
        while st[j].text != "{":
            j += 1
        j += 1
        while j < s:
            x = st[j]
            if x.text == "{":
                scope.append([])
            elif x.text == "}":
                if len(scope) > 1:
                    scope.pop()
            elif x.kind == "ident" and x.text == "let":
                q = j + 1
                if st[q].text == "mut":
                    q += 1
                if st[q].kind == "ident" and st[q].text not in _KW and st[q + 1].text in ("=", ":", ";"):
                    scope[-1].append(st[q].text)
            j += 1
        env = []
        for sc in scope:
            for v in sc:
                if v not in used_here and v not in env and not v.startswith("vx_cb"):
                    env.append(v)
        for v in fvs:
            if v not in env:
                env.append(v)
        fvs = sorted(env)          # alphabetical: the order of declarations is then irrelevant
        k += 1
        cb = "vx_cb%d" % k
        ty = "Vx_%s_closure%d" % (fname, k)
        decl_mut = set()
        for j in range(0, s):
            if st[j].text == "mut" and st[j + 1].kind == "ident":
                decl_mut.add(st[j + 1].text)
        pre = "let mut %s = %s::vx_capture(%s); " % (cb, ty, ", ".join(fvs))
        post = " let (%s) = %s.vx_release();" % ("".join(("mut " if v in decl_mut else "") + v + ", " for v in fvs), cb)
        text = (text[:st[s].start] + pre + text[st[s].start:st[lead + 1].start] + "&mut " + cb + text[st[bc].end:st[e].end]
                + post + text[st[e].end:])
        log["R23 closure argument -> callback object"] = log.get("R23 closure argument -> callback object", 0) + 1


def r23c_callback_param(text, log):
    st = sig(lex(text))
    # signature: up to the body's opening brace
    fn_i = None
    for i, t in enumerate(st):
        if t.kind == "ident" and t.text == "fn":
            fn_i = i
            break
    if fn_i is None:
        return text
    j = fn_i
    while st[j].text != "(":
        j += 1
    pc = match_close(st, j)
    edits = []
    names = []
    i = j + 1
    while i < pc:
        # NAME : impl FnMut ( .. ) [-> RET]   up to the `,` / `)` that ends the parameter
        if st[i].kind == "ident" and st[i + 1].text == ":" and st[i + 2].text == "impl" and st[i + 3].text == "FnMut" and st[i + 4].text == "(":
            a = i
            if st[i - 1].text == "mut":
                a = i - 1
            z = match_close(st, i + 4) + 1
            if st[z].text == "-" and st[z + 1].text == ">":
                z += 2
                while z < pc and st[z].text != ",":
                    if st[z].kind == "punct" and st[z].text in "([":
                        z = match_close(st, z) + 1
                        continue
                    if st[z].text == "<":
                        d = 1
                        z += 1
                        while d > 0:
                            if st[z].text == "<":
                                d += 1
                            elif st[z].text == ">" and st[z - 1].text != "-":
                                d -= 1
                            z += 1
                        continue
                    z += 1
            edits.append((st[a].start, st[z - 1].end, "%s: &mut impl VxCallback" % st[i].text))
            names.append(st[i].text)
            i = z
            continue
        i += 1
    if not names:
        return text
    body_open = pc
    while st[body_open].text != "{":
        body_open += 1
    for i in range(body_open, len(st)):
        t = st[i]
        if t.kind == "ident" and t.text in names:
            if st[i - 1].text in (".",) or (st[i - 1].text == ":" and st[i - 2].text == ":"):
                continue
            if st[i + 1].text != "(":
                raise RewriteError("R23c: callback `%s` is used other than by a direct call" % t.text)
            edits.append((t.end, t.end, ".vx_call"))
    log["R23c FnMut parameter -> callback object"] = log.get("R23c FnMut parameter -> callback object", 0) + len(names)
    from ..rewrite import apply_edits
    return apply_edits(text, edits)


def r24_unshadow_param(text, log):
    st = sig(lex(text))
    fn_i = None
    for i, t in enumerate(st):
        if t.kind == "ident" and t.text == "fn":
            fn_i = i
            break
    if fn_i is None:
        return text
    j = fn_i
    while st[j].text != "(":
        j += 1
    pc = match_close(st, j)
    params = set()
    for a, b in __import__("vxlib.rewrite", fromlist=["split_args"]).split_args(st, j, pc):
        q = a
        if st[q].text == "mut":
            q += 1
        if st[q].kind == "ident" and q + 1 < b and st[q + 1].text == ":" and st[q].text not in _KW:
            params.add(st[q].text)
    bo = pc
    while st[bo].text != "{":
        bo += 1
    bc = match_close(st, bo)
    edits = []
    i = bo + 1
    depth = 0
    done = set()
    while i < bc:
        t = st[i]
        if t.kind == "punct" and t.text in _OPEN:
            i = match_close(st, i) + 1
            continue
        if t.kind == "ident" and t.text == "let":
            q = i + 1
            if st[q].text == "mut":
                q += 1
            if st[q].kind == "ident" and st[q].text in params and st[q + 1].text == "=" and st[q].text not in done:
                name = st[q].text
                e = q + 2
                while st[e].text != ";":
                    if st[e].kind == "punct" and st[e].text in _OPEN:
                        e = match_close(st, e) + 1
                        continue
                    e += 1
                edits.append((st[q].start, st[q].end, "vx_" + name))
                for k in range(e + 1, bc):
                    x = st[k]
                    if x.kind == "str" and ("{" + name) in x.text:
                        raise RewriteError("R24: `%s` is an inline format argument" % name)
                    if x.kind != "ident" or x.text != name:
                        continue
                    pv, pv2, nx = st[k - 1].text, st[k - 2].text, st[k + 1].text
                    if (pv == "." and pv2 != ".") or (pv == ":" and pv2 == ":"):
                        continue
                    if st[k - 1].text == "let" or (st[k - 1].text == "mut" and st[k - 2].text == "let"):
                        raise RewriteError("R24: `%s` is bound again" % name)
                    if nx == ":" and st[k + 2].text != ":":
                        continue          # struct-literal field name
                    if pv in ("{", ",") and nx in (",", "}"):
                        raise RewriteError("R24: `%s` may be a struct-literal shorthand" % name)
                    edits.append((x.start, x.end, "vx_" + name))
                done.add(name)
                log["R24 shadowed parameter renamed"] = log.get("R24 shadowed parameter renamed", 0) + 1
                i = e + 1
                continue
        i += 1
    from ..rewrite import apply_edits
    return apply_edits(text, edits)


RULES = {"R24": r24_unshadow_param, "R23": r23_closure_arg, "R23c": r23c_callback_param}
