"""Extra catalogue rule used by U-CRASHFS (general and syntactic; selected per item with `//@ rules crashfs.R7f`).

R7f  `format!("<lead>{..}<middle>{..}<trail>", args…)`  ->  `vx_format("<lead>", "<trail>")`
     An R7 outline of string formatting that keeps exactly what a name-scheme argument needs: the literal text before the
     first placeholder and the literal text after the last one (`{{` / `}}` are unescaped; with no placeholder both are the
     whole literal).  The unit provides `fn vx_format(lead: &str, trail: &str) -> String` whose *assumed* contract is that the
     result starts with `lead` and ends with `trail` — which is what `format!` guarantees whatever the arguments print.
     Drops: the formatted arguments (they are only ever passed to `Display`/`Debug`); the rule refuses raw-string formats and
     arguments that contain an assignment or `mut` (possible side effect).
"""
from ..lexer import lex, sig
from ..extract import match_close
from ..rewrite import RewriteError, split_args


def _lead_trail(lit):
    body = lit[1:-1]
    # positions of single (unescaped) braces
    i = 0
    first_open = None
    last_close = None
    n = len(body)
    while i < n:
        c = body[i]
        if c == "\\":
            i += 2
            continue
        if c == "{":
            if i + 1 < n and body[i + 1] == "{":
                i += 2
                continue
            if first_open is None:
                first_open = i
            j = body.find("}", i)
            if j < 0:
                raise RewriteError("R7f: unbalanced format placeholder")
            last_close = j
            i = j + 1
            continue
        if c == "}" and i + 1 < n and body[i + 1] == "}":
            i += 2
            continue
        i += 1
    if first_open is None:
        lead = trail = body
    else:
        lead = body[:first_open]
        trail = body[last_close + 1:]
    unesc = lambda t: t.replace("{{", "{").replace("}}", "}")
    return unesc(lead), unesc(trail)


def r7f_format(text, log):
    while True:
        st = sig(lex(text))
        done = True
        for i, t in enumerate(st):
            if t.kind == "ident" and t.text == "format" and i + 2 < len(st) and st[i + 1].text == "!" and st[i + 2].text == "(":
                if i > 0 and st[i - 1].text == ":":
                    continue  # a path segment such as std::format
                c = match_close(st, i + 2)
                args = split_args(st, i + 2, c)
                if not args:
                    raise RewriteError("R7f: format! without arguments")
                a0, a1 = args[0]
                if a1 - a0 != 1 or st[a0].kind != "str" or not st[a0].text.startswith('"'):
                    raise RewriteError("R7f: format string is not a plain string literal")
                for (x, y) in args[1:]:
                    inner = [z.text for z in st[x:y]]
                    if "mut" in inner or "=" in inner:
                        raise RewriteError("R7f: format! argument with a possible side effect")
                lead, trail = _lead_trail(st[a0].text)
                text = text[:t.start] + 'vx_format("%s", "%s")' % (lead, trail) + text[st[c].end:]
                log["R7f format! -> vx_format(lead, trail)"] = log.get("R7f format! -> vx_format(lead, trail)", 0) + 1
                done = False
                break
        if done:
            return text


_FS_OPS = ("rename", "remove_file", "set_permissions")


def r20_explicit_fs(text, log):
    """R20  `fs::OP(args)` / `std::fs::OP(args)`  ->  `fs::OP(vx_fs, args)`  for OP in rename, remove_file, set_permissions.
    Verus has no global ghost state, so the unit's stub of each std::fs operation takes the file system as an explicit first
    parameter; the rule passes the enclosing function's `vx_fs` at every direct call of such an operation, so that a call added
    by an edit is checked against the same stub contract as the calls present when the unit was written.  Nothing is dropped."""
    while True:
        st = sig(lex(text))
        done = True
        for i, t in enumerate(st):
            if t.kind == "ident" and t.text in _FS_OPS and i >= 3 and st[i - 1].text == ":" and st[i - 2].text == ":" and st[i - 3].text == "fs" \
                    and i + 1 < len(st) and st[i + 1].text == "(":
                if st[i + 2].text == "vx_fs":
                    continue
                start = st[i - 3].start
                if i >= 6 and st[i - 4].text == ":" and st[i - 5].text == ":" and st[i - 6].text == "std":
                    start = st[i - 6].start
                text = text[:start] + "fs::" + t.text + "(vx_fs, " + text[st[i + 1].end:]
                log["R20 explicit file system at fs::%s" % t.text] = log.get("R20 explicit file system at fs::%s" % t.text, 0) + 1
                done = False
                break
        if done:
            return text


RULES = {"R7f": r7f_format, "R20": r20_explicit_fs}
