"""Extra catalogue rule used by U-SESSSHARD (written with U-EXPORTWRAP, 2026-10-04).

R16e  spawned async block as an eagerly evaluated closure ("task body in its lexical context"):

    RECV.spawn(async move { BODY });
        ->
    let vx_task_out: VxTaskOut = { let vx_task = move || -> (vx_ret: VxTaskOut) ensures vx_task_post(vx_ret) { BODY' }; vx_task() };
    RECV.spawn(vx_ready(vx_task_out));

where BODY' is BODY with every exit that yields a value wrapped in the identity call `vx_task_exit_here(..)`:
    `return E;` -> `return vx_task_exit_here(E);`      and the tail expression `E` -> `vx_task_exit_here(E)`
(`?` exits are left alone: they yield `Err(..)`).  Returns inside nested closures / async blocks are not touched.

Why: rule ujoin.R16 replaces the async block by an opaque future and verifies BODY separately as a lifted region with a hand-written
parameter list; an edit that lets the task capture one more local of the spawning function then makes the region uncompilable and
the unit undecided.  Here the body stays where it is written, so it sees exactly the variables rustc lets it capture.

What the unit must provide (all listed as assumptions in its notes):
  * `type VxTaskOut`                                   the value type of the task;
  * `fn vx_ready(o: VxTaskOut) -> VxFuture<VxTaskOut>`  ASSUMED: joining the task yields the body's value or a JoinError
        (`f.outcome() is Ok ==> f.outcome() == Ok(o)`) - the body is evaluated ONCE, with the values its captured variables have at the
        spawn (an `async move` block owns its captures; shared state it reaches through them must be specified order-independently);
  * `vx_task_post(vx_ret)` and `vx_task_exit_here(`     via item substitutions (the closure's postcondition and the exit check
        `fn vx_task_exit(.., e) requires <post of e> ensures r == e`, an identity function: a failing exit is then an ordinary call-site
        precondition failure at the `return` that breaks it).
The rule changes no arithmetic, condition, index, field update or call order of BODY; relative to the enclosing function it moves the
evaluation of BODY from "some time before the matching join" to "at the spawn".  Only the statement form `PATH.spawn(async [move] { .. });`
is rewritten; anything else is left alone.
"""
from ..lexer import lex, sig
from ..extract import match_close
from ..rewrite import apply_edits

_BLOCK_KW = ("if", "match", "while", "for", "loop", "unsafe")


def _skip_block_stmt(st, i, hi):
    """st[i] starts a block-like statement (`if .. {..} [else ..]`, `match .. {..}`, `{..}`, ..) at depth 0; return the index just after
    it, or None if it does not look like one"""
    j = i
    if st[j].text == "{":
        return match_close(st, j) + 1
    if not (st[j].kind == "ident" and st[j].text in _BLOCK_KW):
        return None
    # find the `{` that opens the body: first `{` at paren/bracket depth 0
    k = j + 1
    depth = 0
    while k < hi:
        t = st[k].text
        if st[k].kind == "punct":
            if t in ("(", "["):
                depth += 1
            elif t in (")", "]"):
                depth -= 1
            elif t == "{" and depth == 0:
                break
            elif t == ";" and depth == 0:
                return None
        k += 1
    if k >= hi:
        return None
    e = match_close(st, k) + 1
    while e < hi and st[e].kind == "ident" and st[e].text == "else":
        if e + 1 < hi and st[e + 1].text == "{":
            e = match_close(st, e + 1) + 1
        elif e + 1 < hi and st[e + 1].kind == "ident" and st[e + 1].text == "if":
            n = _skip_block_stmt(st, e + 1, hi)
            if n is None:
                return None
            e = n
        else:
            return None
    return e


def _wrap_exits(text, st, o, c):
    """edits that wrap the value-yielding exits of the block st[o]='{' .. st[c]='}'"""
    edits = []
    # 1. `return E;` at any block depth, but not inside nested closures / async blocks
    i = o + 1
    skip_to = -1
    while i < c:
        t = st[i]
        if i < skip_to:
            i += 1
            continue
        if t.kind == "ident" and t.text == "async" and i + 1 < c:
            j = i + 1
            if st[j].kind == "ident" and st[j].text == "move":
                j += 1
            if st[j].text == "{":
                skip_to = match_close(st, j) + 1
                i += 1
                continue
        if t.text == "||" and st[i - 1].text in ("(", ",", "=", "move", "{", ";", "return"):
            k = i + 1
            while k < c and st[k].text not in ("{", ";", ",", ")"):
                k += 1
            if k < c and st[k].text == "{":
                skip_to = match_close(st, k) + 1
            i += 1
            continue
        if t.text == "|" and i > o and st[i - 1].text in ("(", ",", "=", "move", "{", ";", "return"):
            # a closure literal: skip its parameter list and, if it has a block body, that block
            j = i + 1
            while j < c and st[j].text != "|":
                j += 1
            k = j + 1
            while k < c and st[k].text not in ("{", ";", ",", ")"):
                k += 1
            if k < c and st[k].text == "{":
                skip_to = match_close(st, k) + 1
            i = j + 1
            continue
        if t.kind == "ident" and t.text == "return":
            if st[i + 1].text in (";", "}"):
                i += 1
                continue
            depth = 0
            j = i + 1
            while j < c:
                x = st[j]
                if x.kind == "punct":
                    if x.text in ("(", "[", "{"):
                        depth += 1
                    elif x.text in (")", "]", "}"):
                        if depth == 0:
                            break
                        depth -= 1
                    elif x.text in (";", ",") and depth == 0:
                        break
                j += 1
            edits.append((st[i + 1].start, st[i + 1].start, "vx_task_exit_here("))
            edits.append((st[j - 1].end, st[j - 1].end, ")"))
            i = j
            continue
        i += 1
    # 2. the tail expression of the block
    if st[c - 1].text != ";" and c - 1 > o:
        # last `;` at depth 0 of the block
        depth = 0
        last = o
        i = o + 1
        while i < c:
            x = st[i]
            if x.kind == "punct":
                if x.text in ("(", "[", "{"):
                    i = match_close(st, i)
                elif x.text == ";":
                    last = i
            i += 1
        s = last + 1
        # skip block-like statements that precede the tail
        while s < c:
            n = _skip_block_stmt(st, s, c)
            if n is None or n >= c:
                break
            if st[n].text in (".", "?"):      # the block is the head of an expression (`match x {..}.foo()`): it is the tail
                break
            s = n
        if s < c and not (st[s].kind == "ident" and st[s].text == "return"):
            edits.append((st[s].start, st[s].start, "vx_task_exit_here("))
            edits.append((st[c - 1].end, st[c - 1].end, ")"))
    return edits


def r16c_spawn_closure(text, log):
    st = sig(lex(text))
    edits = []
    n = 0
    i = 0
    while i < len(st):
        t = st[i]
        if t.kind == "ident" and t.text == "spawn" and i >= 2 and st[i - 1].text == "." and i + 2 < len(st) and st[i + 1].text == "(" \
                and st[i + 2].kind == "ident" and st[i + 2].text == "async":
            j = i + 3
            if st[j].kind == "ident" and st[j].text == "move":
                j += 1
            if st[j].text != "{":
                i += 1
                continue
            c = match_close(st, j)
            p = match_close(st, i + 1)
            if p != c + 1 or p + 1 >= len(st) or st[p + 1].text != ";":
                i += 1
                continue
            # receiver: a simple path `a.b.c` that starts a statement
            r = i - 2
            while r >= 2 and st[r].kind == "ident" and st[r - 1].text == "." and st[r - 2].kind == "ident":
                r -= 2
            if st[r].kind != "ident" or (r > 0 and st[r - 1].text not in (";", "{", "}")):
                i += 1
                continue
            recv = text[st[r].start:st[i - 2].end]
            inner = _wrap_exits(text, st, j, c)
            body = apply_edits(text[st[j].start:st[c].end], [(a - st[j].start, b - st[j].start, s_) for a, b, s_ in inner])
            new = ("let vx_task_out: VxTaskOut = { let vx_task = move || -> (vx_ret: VxTaskOut) ensures vx_task_post(vx_ret) %s; vx_task() };\n"
                   "            %s.spawn(vx_ready(vx_task_out));" % (body, recv))
            edits.append((st[r].start, st[p + 1].end, new))
            n += 1
            i = p + 2
            continue
        i += 1
    if n:
        log["R16e spawned async block -> eagerly evaluated closure"] = log.get("R16e spawned async block -> eagerly evaluated closure", 0) + n
    return apply_edits(text, edits)


RULES = {"R16e": r16c_spawn_closure}
