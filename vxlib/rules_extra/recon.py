"""Extra catalogue rule for U-RECON (general, syntactic; no change to conditions, arithmetic, indices or call order).

R4n  name the ghost iterator of a `for` loop:   for PAT in EXPR { .. }   ->   for PAT in vx_it<k>: EXPR { .. }
     (k = ordinal of the `for` keyword in the item).  Verus only lets loop invariants speak about the elements already
     yielded (`vx_itk.index@`, `vx_itk.history@`) when the iterator is named; the loop itself is unchanged.

R7e  error-message format!:   CasClientError::Other(format!("..", ARGS))   ->   CasClientError::Other(vx_error_text())
     An error TEXT carries no property; the unit provides `#[verifier::external_body] fn vx_error_text() -> String` (unconstrained).
     Fires only when the format! is the sole argument of the `CasClientError::Other(` constructor and its arguments after the literal
     are plain value expressions (identifiers, field accesses, argument-less method calls such as `.len()`): nothing with an effect
     is dropped.  Makes the outline independent of the wording of the message.

R7m  Option::map with a closure literal, unfolded to its core definition (own copy of the rule in setops.py, registered
     under a name of its own because rule names collide across files):
         RECV.map(|x| BODY)   ->   (match RECV { Some(x) => Some(BODY), None => None })
     beta-reduction with the same binder; rustc rejects the result if RECV is not an Option.  Left alone unless: single
     identifier parameter, no `move`, BODY has no return/?/break/continue, RECV is a postfix chain.
"""
from ..lexer import lex, sig
from ..extract import match_close
from ..rewrite import _stmt_for_header, apply_edits, find_seq


def r4n_name_for_iterator(text, log):
    st = sig(lex(text))
    edits = []
    k = 0
    for i, t in enumerate(st):
        if t.kind == "ident" and t.text == "for":
            # skip `impl X for Y` / HRTB `for<'a>`
            if i + 1 < len(st) and st[i + 1].text == "<":
                continue
            try:
                in_idx, b = _stmt_for_header(st, i)
            except Exception:
                continue
            if in_idx is None:
                continue
            k += 1
            # already named:  `in name : expr`
            if in_idx + 2 < len(st) and st[in_idx + 1].kind == "ident" and st[in_idx + 2].text == ":" and st[in_idx + 3].text != ":":
                continue
            edits.append((st[in_idx].end, st[in_idx].end, " vx_it%d:" % k))
    if edits:
        log["R4n name-for-iterator"] = log.get("R4n name-for-iterator", 0) + len(edits)
    return apply_edits(text, edits)


# ---- R7m (see module docstring) -----------------------------------------------------------------------------------
def _open_of(st, c):
    """index of the opening bracket matching the closing bracket st[c]"""
    pairs = {")": "(", "]": "["}
    want = pairs[st[c].text]
    depth = 0
    j = c
    while j >= 0:
        t = st[j]
        if t.kind == "punct" and t.text in ")]}":
            depth += 1
        elif t.kind == "punct" and t.text in "([{":
            depth -= 1
            if depth == 0:
                return j if t.text == want else None
        j -= 1
    return None


def _recv_start(st, dot):
    """first token of the postfix expression that ends right before st[dot] == '.'"""
    j = dot - 1
    while j >= 0:
        t = st[j]
        if t.kind == "punct" and t.text in ")]":
            o = _open_of(st, j)
            if o is None:
                return None
            j = o
            # a call/index: the callee/base precedes; a parenthesised expression: stop here
            p = st[j - 1] if j > 0 else None
            if p is not None and (p.kind == "ident" or (p.kind == "punct" and p.text in ")]")) and p.text not in ("in", "return", "match", "if", "while", "let", "else"):
                j -= 1
                continue
            return j
        if t.kind == "ident" or t.kind == "num":
            p = st[j - 1] if j > 0 else None
            if p is not None and p.kind == "punct" and p.text == ".":
                j -= 2
                continue
            if p is not None and p.kind == "punct" and p.text == ":" and j >= 2 and st[j - 2].text == ":":
                j -= 3
                continue
            return j
        return None
    return None


def r7m_option_map(text, log):
    while True:
        st = sig(lex(text))
        done = True
        for i in find_seq(st, [".", "map", "(", "|"]):
            if i + 6 >= len(st) or st[i + 4].kind != "ident" or st[i + 5].text != "|":
                continue
            x = st[i + 4].text
            if x in ("mut", "ref", "_"):
                continue
            c = match_close(st, i + 2)
            body_toks = st[i + 6:c]
            if not body_toks or any(t.kind == "ident" and t.text in ("return", "break", "continue") for t in body_toks) \
                    or any(t.kind == "punct" and t.text == "?" for t in body_toks):
                continue
            if body_toks[0].text == "-" and len(body_toks) > 1 and body_toks[1].text == ">":
                continue  # closure with return type annotation
            r0 = _recv_start(st, i)
            if r0 is None:
                continue
            recv = text[st[r0].start:st[i - 1].end]
            body = text[body_toks[0].start:body_toks[-1].end]
            new = "(match %s { Some(%s) => Some(%s), None => None })" % (recv, x, body)
            text = text[:st[r0].start] + new + text[st[c].end:]
            log["R7m Option::map unfold"] = log.get("R7m Option::map unfold", 0) + 1
            done = False
            break
        if done:
            return text


def r7e_error_format(text, log):
    while True:
        st = sig(lex(text))
        done = True
        for i in find_seq(st, ["CasClientError", ":", ":", "Other", "(", "format", "!", "("]):
            o_ctor = i + 4
            o_fmt = i + 7
            c_fmt = match_close(st, o_fmt)
            c_ctor = match_close(st, o_ctor)
            if c_ctor != c_fmt + 1:
                continue  # format! is not the sole argument
            inner = st[o_fmt + 1:c_fmt]
            if not inner or inner[0].kind != "str":
                continue
            ok = True
            for k, t in enumerate(inner[1:], 1):
                if t.kind == "ident" and t.text not in ("mut", "move", "unsafe", "await"):
                    continue
                if t.kind == "punct" and t.text in (",", "."):
                    continue
                if t.kind == "punct" and t.text == "(" and k + 1 < len(inner) and inner[k + 1].text == ")" and inner[k - 1].kind == "ident":
                    continue  # argument-less method call
                if t.kind == "punct" and t.text == ")" and inner[k - 1].text == "(":
                    continue
                ok = False
                break
            if not ok:
                continue
            text = text[:st[i + 5].start] + "vx_error_text()" + text[st[c_fmt].end:]
            log["R7e error-message format!"] = log.get("R7e error-message format!", 0) + 1
            done = False
            break
        if done:
            return text


RULES = {"R4n": r4n_name_for_iterator, "R7m": r7m_option_map, "R7e": r7e_error_format}
