"""Extra catalogue rules used by U-SINGLEFLIGHT (all general and syntactic; selected per item with `//@ rules`).

Rpin  pin-projection erasure (pin_project):
        `self: Pin<&mut Self>`            ->  `&mut self`
        `let NAME = self.project();`      ->  (deleted)
        `NAME.field`                      ->  `(&mut self.field)`
      `#[pin_project] struct S { #[pin] a: A, b: B }` generates `fn project(self: Pin<&mut S>) -> Proj { a: Pin<&mut A>, b: &mut B }`
      whose body is exactly `&mut self.a` / `&mut self.b` behind the pin; `Pin<P>` is a transparent wrapper around the pointer
      `P` that forbids moving the pointee.  The rule keeps every access an exclusive reborrow of the same field, in the same order.

Rq    name the operand of a statement-level `?`:   `EXPR?;`  ->  `let vx_try<k> = EXPR; vx_try<k>?;`
      A let-introduction (the statement is an expression statement, its value is discarded either way).  It creates a program
      point between the evaluation of EXPR and the early return, where a proof hint can be placed.

Rg    make the scope-end drop of a named lock guard explicit:
        `let [mut] G = RECV.read();` / `.write();` in a block `{ ..; TAIL }`
            ->  `let mut G = RECV.read(); ..; let vx_tail = TAIL; vx_release_read(&mut G); vx_tail`
        (no TAIL: `vx_release_*(&mut G);` is appended; an explicit `drop(G)` in that block is rewritten in place instead)
        `*G = EXPR;` for a write guard G  ->  `G.vx_store(EXPR);`   (assignment through the guard's DerefMut: Verus has no user
        Deref, the unit's guard stub offers the store as a method)
      Rust drops the locals of a block after its tail expression has been evaluated; the rule writes that drop down as a call so
      that "while the guard is held" becomes a statement-order fact.  Early exits (`return`, `?`) from the block are NOT given a
      release call (nothing in the unit needs the release on those paths; listed in the notes).

Rcl   contract of an expression-bodied closure:  `|x| EXPR`  ->  `|x| -> (vx_cl: _) ensures equal(vx_cl, EXPR) { EXPR }`
      Verus knows nothing about the result of an un-annotated closure; the annotation states that the closure returns the value
      of its own body expression, and Verus *checks* it against the body (it is a proved postcondition, not an assumption).
      Only applicable where EXPR is a pure constructor application of the parameters (otherwise Verus rejects the spec).

R16c  async-block outline that keeps the captured variables:
        `async move { B }`  ->  `vx_async_block<k>(c1, .., ck)`
      c1..ck = the identifiers used like local variables in B (not after `.`/`::`, not before `(`/`!`/`::`), not bound inside B,
      that occur as such before the block in the enclosing function (or are `self`), in order of first use.  `move` captures
      exactly these by value; passing them to the stub moves them the same way (rustc checks that they are variables in scope).
      As R16 (ujoin.py): building the block executes none of B; B is verified separately as a lifted region.

R3k   log macros whose arguments have effects are kept as the evaluation of those arguments (runs BEFORE the always-on R3:
      the function carries `vx_pre = True`):
        `debug!(FMT, a, self.get().is_ok());`  ->  `{ let _ = &(self.get().is_ok()); }`
      A `debug!/info!/warn!/error!/trace!` statement (also path-qualified) is rewritten iff at least one argument contains a
      call: an identifier followed by `(` (method or function call) or a macro invocation `name!(`.  Each such argument ARG
      (for `key = ARG` fields the value, without a leading `?`/`%` sigil) becomes `let _ = &(ARG);`, in argument order.
      Dropped: the format string, every argument that is a plain path / field access / literal, and the formatting itself
      (`Display`/`Debug` impls of the values are not run).  Whether the arguments are evaluated at run time depends on the
      enabled log level; evaluating them is the conservative reading ("logging may be enabled": an enabled level does).
      Macros without such an argument are left to R3 (erased).

Rh    ghost "held locks" set threaded through the functions of this unit (pure ghost elaboration, no executable change):
        * every function gets `let ghost mut vx_held: Set<int> = ..;` at body start: the functions named in HELD_FNS
          (`complete`, `get`, `get_future`: the ones that take an RwLock of their `Call`) receive it from the caller through
          a new trailing parameter `Ghost(vx_held0): Ghost<Set<int>>` (erased by Verus at compile time); every other function
          (entry points: `work`, `poll`, `drop`, the lifted async bodies, which run as tasks of their own) starts with the
          empty set
        * `.NAME(args)` for NAME in HELD_FNS  ->  `.NAME(args, Ghost(vx_held))`      (method-name based: select the rule only
          for items where these names mean the unit's functions)
        * zero-argument `.read()` / `.write()`  ->  `.read(Ghost(vx_held))`: the stub REQUIRES that the lock is not in the set
        * after `let mut G = R.read(..);` (guard binding, as Rg)   `proof { vx_held = vx_held.insert(G.lock_of().id()); }`
        * after `vx_release_read/_write(&mut G);` (written by Rg)   `proof { vx_held = vx_held.remove(G.lock_of().id()); }`
      A guard that is a temporary is released at the end of its statement: only the acquisition check applies.  Must run
      after Rg.  Not handled: guards acquired or released inside loops (would need an invariant about `vx_held`).
"""
from ..lexer import lex, sig
from ..extract import match_close
from ..rewrite import apply_edits, find_seq, split_args

_KW = {"self", "Self", "crate", "super", "true", "false", "as", "break", "const", "continue", "else", "enum", "extern", "fn", "for", "if",
       "impl", "in", "let", "loop", "match", "mod", "move", "mut", "pub", "ref", "return", "static", "struct", "trait", "type", "unsafe",
       "use", "where", "while", "async", "await", "dyn"}


def rpin(text, log):
    st = sig(lex(text))
    edits = []
    n = 0
    # receiver
    for i in find_seq(st, ["self", ":", "Pin", "<", "&", "mut", "Self", ">"]):
        edits.append((st[i].start, st[i + 7].end, "&mut self"))
        n += 1
    # projection bindings
    names = []
    for i in find_seq(st, ["=", "self", ".", "project", "(", ")", ";"]):
        if i >= 2 and st[i - 2].text == "let" and st[i - 1].kind == "ident":
            names.append(st[i - 1].text)
            edits.append((st[i - 2].start, st[i + 6].end, ""))
            n += 1
    for i, t in enumerate(st):
        if t.kind == "ident" and t.text in names and i + 2 < len(st) and st[i + 1].text == "." and st[i + 2].kind == "ident" \
                and (i == 0 or st[i - 1].text not in (".", "let")):
            edits.append((t.start, st[i + 2].end, "(&mut self.%s)" % st[i + 2].text))
            n += 1
    if n:
        log["Rpin pin-projection erasure"] = log.get("Rpin pin-projection erasure", 0) + n
    return apply_edits(text, edits)


def _stmt_start(st, i):
    """index of the first token of the statement that contains token i (walk back to `;`, `{` or `}` at the same depth)"""
    depth = 0
    j = i - 1
    while j >= 0:
        t = st[j]
        if t.kind == "punct" and t.text in ")]}":
            if t.text == "}" and depth == 0:
                return j + 1
            depth += 1
        elif t.kind == "punct" and t.text in "([{":
            if depth == 0:
                return j + 1
            depth -= 1
        elif t.text == ";" and depth == 0:
            return j + 1
        j -= 1
    return 0


def rq(text, log):
    st = sig(lex(text))
    edits = []
    k = 0
    for i, t in enumerate(st):
        if t.text == "?" and i + 1 < len(st) and st[i + 1].text == ";":
            s = _stmt_start(st, i)
            if st[s].kind == "ident" and st[s].text in ("let", "return", "break", "if", "match", "while", "for", "loop"):
                continue
            # an assignment statement is not an expression statement
            depth = 0
            assign = False
            for j in range(s, i):
                x = st[j]
                if x.kind == "punct" and x.text in "([{":
                    depth += 1
                elif x.kind == "punct" and x.text in ")]}":
                    depth -= 1
                elif depth == 0 and x.text == "=" and st[j + 1].text != "=" and st[j - 1].text not in ("=", "!", "<", ">"):
                    assign = True
            if assign:
                continue
            k += 1
            edits.append((st[s].start, st[s].start, "let vx_try%d = " % k))
            edits.append((t.start, t.end, "; vx_try%d?" % k))
    if k:
        log["Rq name-try-operand"] = log.get("Rq name-try-operand", 0) + k
    return apply_edits(text, edits)


def _enclosing_block(st, i):
    """(open, close) of the innermost brace block that contains token i"""
    depth = 0
    j = i - 1
    while j >= 0:
        t = st[j]
        if t.kind == "punct" and t.text in ")]}":
            depth += 1
        elif t.kind == "punct" and t.text in "([{":
            if depth == 0:
                if t.text == "{":
                    return j, match_close(st, j)
            else:
                depth -= 1
        j -= 1
    return None, None


def rg(text, log):
    st = sig(lex(text))
    edits = []
    n = 0
    for i, t in enumerate(st):
        if not (t.kind == "ident" and t.text == "let"):
            continue
        j = i + 1
        has_mut = False
        if st[j].text == "mut":
            has_mut = True
            j += 1
        if not (st[j].kind == "ident" and st[j + 1].text == "="):
            continue
        name = st[j].text
        # end of the statement
        e = j + 2
        while e < len(st) and st[e].text != ";":
            if st[e].kind == "punct" and st[e].text in "([{":
                e = match_close(st, e)
            e += 1
        if e >= len(st) or e < 4:
            continue
        if not (st[e - 1].text == ")" and st[e - 2].text == "(" and st[e - 3].text in ("read", "write") and st[e - 4].text == "."):
            continue
        kind = st[e - 3].text
        o, c = _enclosing_block(st, i)
        if o is None:
            continue
        rel = "vx_release_%s(&mut %s)" % (kind, name)
        if kind == "write":
            # `*G = EXPR;` (assignment through the guard's DerefMut; Verus has no user Deref) -> `G.vx_store(EXPR);`
            for h in find_seq(st, ["*", name, "="]):
                if not (e < h < c) or st[h + 3].text == "=" or st[h - 1].text not in (";", "{", "}"):
                    continue
                z = h + 3
                while z < c and st[z].text != ";":
                    if st[z].kind == "punct" and st[z].text in "([{":
                        z = match_close(st, z)
                    z += 1
                edits.append((st[h].start, st[h + 2].end, "%s.vx_store(" % name))
                edits.append((st[z].start, st[z].start, ")"))
                log["Rg guard deref-assign -> vx_store"] = log.get("Rg guard deref-assign -> vx_store", 0) + 1
        if not has_mut:
            edits.append((t.end, t.end, " mut"))
        # explicit drop(name) in this block?
        drops = [h for h in find_seq(st, ["drop", "(", name, ")"]) if e < h < c and (h == 0 or st[h - 1].text not in (".", ":"))]
        if drops:
            for h in drops:
                edits.append((st[h].start, st[h + 3].end, rel))
            n += 1
            continue
        # last top-level `;` of the block after the let
        last_semi = e
        m = e + 1
        while m < c:
            x = st[m]
            if x.kind == "punct" and x.text in "([{":
                m = match_close(st, m) + 1
                continue
            if x.text == ";":
                last_semi = m
            m += 1
        if last_semi + 1 < c:
            edits.append((st[last_semi + 1].start, st[last_semi + 1].start, "let vx_tail = "))
            edits.append((st[c - 1].end, st[c - 1].end, "; %s; vx_tail" % rel))
        else:
            edits.append((st[c].start, st[c].start, "%s; " % rel))
        n += 1
    if n:
        log["Rg explicit guard release"] = log.get("Rg explicit guard release", 0) + n
    return apply_edits(text, edits)


def rcl(text, log):
    st = sig(lex(text))
    edits = []
    n = 0
    i = 0
    while i < len(st):
        t = st[i]
        # `( |x| EXPR )` or `, |x| EXPR`: a closure literal in argument position with one un-annotated identifier parameter
        if t.text == "|" and i >= 1 and st[i - 1].text in ("(", ",") and i + 3 < len(st) and st[i + 1].kind == "ident" \
                and st[i + 2].text == "|" and st[i + 3].text not in ("{", "-", "|"):
            j = i + 3
            while j < len(st):
                x = st[j]
                if x.kind == "punct" and x.text in "([{":
                    j = match_close(st, j) + 1
                    continue
                if x.text in (")", ",", ";", "]", "}"):
                    break
                j += 1
            body = text[st[i + 3].start:st[j - 1].end]
            edits.append((st[i + 3].start, st[j - 1].end, "-> (vx_cl: _) ensures equal(vx_cl, %s) { %s }" % (body, body)))
            n += 1
            i = j
            continue
        i += 1
    if n:
        log["Rcl closure-body contract"] = log.get("Rcl closure-body contract", 0) + n
    return apply_edits(text, edits)


def _local_use(st, i):
    t = st[i]
    if t.kind != "ident" or (t.text in _KW and t.text != "self") or not (t.text[0].islower() or t.text[0] == "_"):
        return False
    prev = st[i - 1].text if i > 0 else ""
    prev2 = st[i - 2].text if i > 1 else ""
    nxt = st[i + 1].text if i + 1 < len(st) else ""
    nxt2 = st[i + 2].text if i + 2 < len(st) else ""
    if prev == "." and prev2 != ".":
        return False
    if prev == ":" and prev2 == ":":
        return False
    if nxt in ("(", "!"):
        return False
    if nxt == ":" and nxt2 == ":":
        return False
    return True


def r16c(text, log):
    st = sig(lex(text))
    edits = []
    n = 0
    i = 0
    while i < len(st):
        t = st[i]
        if t.kind == "ident" and t.text == "async":
            j = i + 1
            if j < len(st) and st[j].text == "move":
                j += 1
            if j < len(st) and st[j].text == "{":
                c = match_close(st, j)
                before = set(st[k].text for k in range(0, i) if _local_use(st, k))
                bound = set()
                for k in range(j + 1, c):
                    if st[k].text == "let":
                        m = k + 1
                        if st[m].text == "mut":
                            m += 1
                        if st[m].kind == "ident":
                            bound.add(st[m].text)
                    if st[k].text == "|" and st[k + 1].kind == "ident" and st[k + 2].text in ("|", ",", ":"):
                        bound.add(st[k + 1].text)
                caps = []
                for k in range(j + 1, c):
                    if _local_use(st, k) and st[k].text not in bound and st[k].text in before | {"self"} and st[k].text not in caps:
                        caps.append(st[k].text)
                edits.append((t.start, st[c].end, "vx_async_block%d(%s)" % (len(caps), ", ".join(caps))))
                n += 1
                i = c + 1
                continue
        i += 1
    if n:
        log["R16c async-block -> opaque future of its captures"] = log.get("R16c async-block -> opaque future of its captures", 0) + n
    return apply_edits(text, edits)


_LOG_MACROS = {"debug", "info", "warn", "error", "trace"}


def _has_call(st, a, b):
    for k in range(a, b):
        if st[k].kind == "ident" and k + 1 < b and st[k + 1].text == "(" and st[k].text not in _KW:
            return True
        if st[k].text == "!" and k + 1 < b and st[k + 1].text in ("(", "[", "{") and k > a and st[k - 1].kind == "ident":
            return True
    return False


def r3k(text, log):
    st = sig(lex(text))
    edits = []
    n = 0
    i = 0
    while i < len(st):
        t = st[i]
        if t.kind == "ident" and t.text in _LOG_MACROS and i + 2 < len(st) and st[i + 1].text == "!" and st[i + 2].text == "(":
            s0 = i
            while s0 >= 3 and st[s0 - 1].text == ":" and st[s0 - 2].text == ":" and st[s0 - 3].kind == "ident":
                s0 -= 3
            prev = st[s0 - 1].text if s0 > 0 else "{"
            c = match_close(st, i + 2)
            if prev in ("{", ";", "}") and c + 1 < len(st) and st[c + 1].text == ";":
                kept = []
                for a, b in split_args(st, i + 2, c):
                    # `key = VALUE` field: the value
                    depth = 0
                    for k in range(a, b):
                        x = st[k]
                        if x.kind == "punct" and x.text in "([{":
                            depth += 1
                        elif x.kind == "punct" and x.text in ")]}":
                            depth -= 1
                        elif depth == 0 and x.text == "=" and k + 1 < b and st[k + 1].text != "=" and st[k - 1].text not in ("=", "!", "<", ">"):
                            a = k + 1
                            break
                    while a < b and st[a].text in ("?", "%"):
                        a += 1
                    if a < b and _has_call(st, a, b):
                        kept.append(text[st[a].start:st[b - 1].end])
                if kept:
                    edits.append((st[s0].start, st[c + 1].end, "{ %s }" % " ".join("let _ = &(%s);" % k for k in kept)))
                    n += 1
                i = c + 2
                continue
        i += 1
    if n:
        log["R3k log macro -> evaluation of its effectful arguments"] = log.get("R3k log macro -> evaluation of its effectful arguments", 0) + n
    return apply_edits(text, edits)


r3k.vx_pre = True

HELD_FNS = {"complete", "get", "get_future"}


def rh(text, log):
    st = sig(lex(text))
    edits = []
    n = 0
    # the function's own name, parameter list and body
    f = next(k for k, t in enumerate(st) if t.kind == "ident" and t.text == "fn")
    name = st[f + 1].text
    po = f + 2
    while st[po].text != "(":
        if st[po].text == "<":
            d = 1
            po += 1
            while d:
                if st[po].text == "<":
                    d += 1
                elif st[po].text == ">" and st[po - 1].text != "-":
                    d -= 1
                po += 1
            continue
        po += 1
    pc = match_close(st, po)
    bo = pc + 1
    while st[bo].text != "{":
        if st[bo].kind == "punct" and st[bo].text in "([":
            bo = match_close(st, bo)
        bo += 1
    if name in HELD_FNS:
        sep = "" if pc == po + 1 else (" " if st[pc - 1].text == "," else ", ")
        edits.append((st[pc].start, st[pc].start, "%sGhost(vx_held0): Ghost<Set<int>>" % sep))
        edits.append((st[bo].end, st[bo].end, " let ghost mut vx_held: Set<int> = vx_held0;"))
    else:
        edits.append((st[bo].end, st[bo].end, " let ghost mut vx_held: Set<int> = Set::empty();"))
    for i in range(bo + 1, len(st)):
        t = st[i]
        if t.text == "." and i + 2 < len(st) and st[i + 1].kind == "ident" and st[i + 2].text == "(":
            m = st[i + 1].text
            c = match_close(st, i + 2)
            if m in HELD_FNS:
                sep = "" if c == i + 3 else ", "
                edits.append((st[c].start, st[c].start, "%sGhost(vx_held)" % sep))
                n += 1
            elif m in ("read", "write") and c == i + 3:
                edits.append((st[c].start, st[c].start, "Ghost(vx_held)"))
                n += 1
                # guard binding `let [mut] G = ... .read();`
                if st[c + 1].text == ";":
                    s = _stmt_start(st, i)
                    if st[s].text == "let":
                        g = s + 2 if st[s + 1].text == "mut" else s + 1
                        if st[g].kind == "ident" and st[g + 1].text == "=":
                            edits.append((st[c + 1].end, st[c + 1].end, " proof { vx_held = vx_held.insert(%s.lock_of().id()); }" % st[g].text))
        if t.kind == "ident" and t.text in ("vx_release_read", "vx_release_write") and st[i + 1].text == "(":
            c = match_close(st, i + 1)
            if st[i + 2].text == "&" and st[i + 3].text == "mut" and st[i + 4].kind == "ident" and st[c + 1].text == ";":
                edits.append((st[c + 1].end, st[c + 1].end, " proof { vx_held = vx_held.remove(%s.lock_of().id()); }" % st[i + 4].text))
    log["Rh held-lock set threading"] = log.get("Rh held-lock set threading", 0) + 1 + n
    return apply_edits(text, edits)


RULES = {"R3k": r3k, "Rh": rh, "Rpin": rpin, "Rq": rq, "Rg": rg, "Rcl": rcl, "R16c": r16c}
