"""Extra catalogue rules used by U-SINGLEFLIGHT (all general and syntactic; selected per item with `//@ rules`).

Rpin  pin-projection erasure (pin_project):
        `self: Pin<&mut Self>`            ->  `&mut self`
        `let NAME = self.project();`      ->  (deleted)
        `NAME.field`                      ->  `(&mut self.field)`
      `#[pin_project] struct S { #[pin] a: A, b: B }` generates `fn project(self: Pin<&mut S>) -> Proj { a: Pin<&mut A>, b: &mut B }`
      whose body is exactly `&mut self.a` / `&mut self.b` behind the pin; `Pin<P>` is a transparent wrapper around the pointer
      `P` that forbids moving the pointee.  The rule keeps every access an exclusive reborrow of the same field, in the same order.

Rq    name the operand of a statement-level `?`:   `EXPR?;`  ->  `let vx_try<k> = EXPR; vx_try<k>?;`
      A let-introduction (the statement is an expression statement, its value is discarded either way).  It creates a program
      point between the evaluation of EXPR and the early return, where a proof hint can be placed.

Rg    make the scope-end drop of a named lock guard explicit:
        `let [mut] G = RECV.read();` / `.write();` in a block `{ ..; TAIL }`
            ->  `let mut G = RECV.read(); ..; let vx_tail = TAIL; vx_release_read(&mut G); vx_tail`
        (no TAIL: `vx_release_*(&mut G);` is appended; an explicit `drop(G)` in that block is rewritten in place instead)
        `*G = EXPR;` for a write guard G  ->  `G.vx_store(EXPR);`   (assignment through the guard's DerefMut: Verus has no user
        Deref, the unit's guard stub offers the store as a method)
      Rust drops the locals of a block after its tail expression has been evaluated; the rule writes that drop down as a call so
      that "while the guard is held" becomes a statement-order fact.  Early exits (`return`, `?`) from the block are NOT given a
      release call (nothing in the unit needs the release on those paths; listed in the notes).

Rcl   contract of an expression-bodied closure:  `|x| EXPR`  ->  `|x| -> (vx_cl: _) ensures equal(vx_cl, EXPR) { EXPR }`
      Verus knows nothing about the result of an un-annotated closure; the annotation states that the closure returns the value
      of its own body expression, and Verus *checks* it against the body (it is a proved postcondition, not an assumption).
      Only applicable where EXPR is a pure constructor application of the parameters (otherwise Verus rejects the spec).

R16c  async-block outline that keeps the captured variables:
        `async move { B }`  ->  `vx_async_block<k>(c1, .., ck)`
      c1..ck = the identifiers used like local variables in B (not after `.`/`::`, not before `(`/`!`/`::`), not bound inside B,
      that occur as such before the block in the enclosing function (or are `self`), in order of first use.  `move` captures
      exactly these by value; passing them to the stub moves them the same way (rustc checks that they are variables in scope).
      As R16 (ujoin.py): building the block executes none of B; B is verified separately as a lifted region.
"""
from ..lexer import lex, sig
from ..extract import match_close
from ..rewrite import apply_edits, find_seq

_KW = {"self", "Self", "crate", "super", "true", "false", "as", "break", "const", "continue", "else", "enum", "extern", "fn", "for", "if",
       "impl", "in", "let", "loop", "match", "mod", "move", "mut", "pub", "ref", "return", "static", "struct", "trait", "type", "unsafe",
       "use", "where", "while", "async", "await", "dyn"}


def rpin(text, log):
    st = sig(lex(text))
    edits = []
    n = 0
    # receiver
    for i in find_seq(st, ["self", ":", "Pin", "<", "&", "mut", "Self", ">"]):
        edits.append((st[i].start, st[i + 7].end, "&mut self"))
        n += 1
    # projection bindings
    names = []
    for i in find_seq(st, ["=", "self", ".", "project", "(", ")", ";"]):
        if i >= 2 and st[i - 2].text == "let" and st[i - 1].kind == "ident":
            names.append(st[i - 1].text)
            edits.append((st[i - 2].start, st[i + 6].end, ""))
            n += 1
    for i, t in enumerate(st):
        if t.kind == "ident" and t.text in names and i + 2 < len(st) and st[i + 1].text == "." and st[i + 2].kind == "ident" \
                and (i == 0 or st[i - 1].text not in (".", "let")):
            edits.append((t.start, st[i + 2].end, "(&mut self.%s)" % st[i + 2].text))
            n += 1
    if n:
        log["Rpin pin-projection erasure"] = log.get("Rpin pin-projection erasure", 0) + n
    return apply_edits(text, edits)


def _stmt_start(st, i):
    """index of the first token of the statement that contains token i (walk back to `;`, `{` or `}` at the same depth)"""
    depth = 0
    j = i - 1
    while j >= 0:
        t = st[j]
        if t.kind == "punct" and t.text in ")]}":
            if t.text == "}" and depth == 0:
                return j + 1
            depth += 1
        elif t.kind == "punct" and t.text in "([{":
            if depth == 0:
                return j + 1
            depth -= 1
        elif t.text == ";" and depth == 0:
            return j + 1
        j -= 1
    return 0


def rq(text, log):
    st = sig(lex(text))
    edits = []
    k = 0
    for i, t in enumerate(st):
        if t.text == "?" and i + 1 < len(st) and st[i + 1].text == ";":
            s = _stmt_start(st, i)
            if st[s].kind == "ident" and st[s].text in ("let", "return", "break", "if", "match", "while", "for", "loop"):
                continue
            # an assignment statement is not an expression statement
            depth = 0
            assign = False
            for j in range(s, i):
                x = st[j]
                if x.kind == "punct" and x.text in "([{":
                    depth += 1
                elif x.kind == "punct" and x.text in ")]}":
                    depth -= 1
                elif depth == 0 and x.text == "=" and st[j + 1].text != "=" and st[j - 1].text not in ("=", "!", "<", ">"):
                    assign = True
            if assign:
                continue
            k += 1
            edits.append((st[s].start, st[s].start, "let vx_try%d = " % k))
            edits.append((t.start, t.end, "; vx_try%d?" % k))
    if k:
        log["Rq name-try-operand"] = log.get("Rq name-try-operand", 0) + k
    return apply_edits(text, edits)


def _enclosing_block(st, i):
    """(open, close) of the innermost brace block that contains token i"""
    depth = 0
    j = i - 1
    while j >= 0:
        t = st[j]
        if t.kind == "punct" and t.text in ")]}":
            depth += 1
        elif t.kind == "punct" and t.text in "([{":
            if depth == 0:
                if t.text == "{":
                    return j, match_close(st, j)
            else:
                depth -= 1
        j -= 1
    return None, None


def rg(text, log):
    st = sig(lex(text))
    edits = []
    n = 0
    for i, t in enumerate(st):
        if not (t.kind == "ident" and t.text == "let"):
            continue
        j = i + 1
        has_mut = False
        if st[j].text == "mut":
            has_mut = True
            j += 1
        if not (st[j].kind == "ident" and st[j + 1].text == "="):
            continue
        name = st[j].text
        # end of the statement
        e = j + 2
        while e < len(st) and st[e].text != ";":
            if st[e].kind == "punct" and st[e].text in "([{":
                e = match_close(st, e)
            e += 1
        if e >= len(st) or e < 4:
            continue
        if not (st[e - 1].text == ")" and st[e - 2].text == "(" and st[e - 3].text in ("read", "write") and st[e - 4].text == "."):
            continue
        kind = st[e - 3].text
        o, c = _enclosing_block(st, i)
        if o is None:
            continue
        rel = "vx_release_%s(&mut %s)" % (kind, name)
        if kind == "write":
            # `*G = EXPR;` (assignment through the guard's DerefMut; Verus has no user Deref) -> `G.vx_store(EXPR);`
            for h in find_seq(st, ["*", name, "="]):
                if not (e < h < c) or st[h + 3].text == "=" or st[h - 1].text not in (";", "{", "}"):
                    continue
                z = h + 3
                while z < c and st[z].text != ";":
                    if st[z].kind == "punct" and st[z].text in "([{":
                        z = match_close(st, z)
                    z += 1
                edits.append((st[h].start, st[h + 2].end, "%s.vx_store(" % name))
                edits.append((st[z].start, st[z].start, ")"))
                log["Rg guard deref-assign -> vx_store"] = log.get("Rg guard deref-assign -> vx_store", 0) + 1
        if not has_mut:
            edits.append((t.end, t.end, " mut"))
        # explicit drop(name) in this block?
        drops = [h for h in find_seq(st, ["drop", "(", name, ")"]) if e < h < c and (h == 0 or st[h - 1].text not in (".", ":"))]
        if drops:
            for h in drops:
                edits.append((st[h].start, st[h + 3].end, rel))
            n += 1
            continue
        # last top-level `;` of the block after the let
        last_semi = e
        m = e + 1
        while m < c:
            x = st[m]
            if x.kind == "punct" and x.text in "([{":
                m = match_close(st, m) + 1
                continue
            if x.text == ";":
                last_semi = m
            m += 1
        if last_semi + 1 < c:
            edits.append((st[last_semi + 1].start, st[last_semi + 1].start, "let vx_tail = "))
            edits.append((st[c - 1].end, st[c - 1].end, "; %s; vx_tail" % rel))
        else:
            edits.append((st[c].start, st[c].start, "%s; " % rel))
        n += 1
    if n:
        log["Rg explicit guard release"] = log.get("Rg explicit guard release", 0) + n
    return apply_edits(text, edits)


def rcl(text, log):
    st = sig(lex(text))
    edits = []
    n = 0
    i = 0
    while i < len(st):
        t = st[i]
        # `( |x| EXPR )` or `, |x| EXPR`: a closure literal in argument position with one un-annotated identifier parameter
        if t.text == "|" and i >= 1 and st[i - 1].text in ("(", ",") and i + 3 < len(st) and st[i + 1].kind == "ident" \
                and st[i + 2].text == "|" and st[i + 3].text not in ("{", "-", "|"):
            j = i + 3
            while j < len(st):
                x = st[j]
                if x.kind == "punct" and x.text in "([{":
                    j = match_close(st, j) + 1
                    continue
                if x.text in (")", ",", ";", "]", "}"):
                    break
                j += 1
            body = text[st[i + 3].start:st[j - 1].end]
            edits.append((st[i + 3].start, st[j - 1].end, "-> (vx_cl: _) ensures equal(vx_cl, %s) { %s }" % (body, body)))
            n += 1
            i = j
            continue
        i += 1
    if n:
        log["Rcl closure-body contract"] = log.get("Rcl closure-body contract", 0) + n
    return apply_edits(text, edits)


def _local_use(st, i):
    t = st[i]
    if t.kind != "ident" or (t.text in _KW and t.text != "self") or not (t.text[0].islower() or t.text[0] == "_"):
        return False
    prev = st[i - 1].text if i > 0 else ""
    prev2 = st[i - 2].text if i > 1 else ""
    nxt = st[i + 1].text if i + 1 < len(st) else ""
    nxt2 = st[i + 2].text if i + 2 < len(st) else ""
    if prev == "." and prev2 != ".":
        return False
    if prev == ":" and prev2 == ":":
        return False
    if nxt in ("(", "!"):
        return False
    if nxt == ":" and nxt2 == ":":
        return False
    return True


def r16c(text, log):
    st = sig(lex(text))
    edits = []
    n = 0
    i = 0
    while i < len(st):
        t = st[i]
        if t.kind == "ident" and t.text == "async":
            j = i + 1
            if j < len(st) and st[j].text == "move":
                j += 1
            if j < len(st) and st[j].text == "{":
                c = match_close(st, j)
                before = set(st[k].text for k in range(0, i) if _local_use(st, k))
                bound = set()
                for k in range(j + 1, c):
                    if st[k].text == "let":
                        m = k + 1
                        if st[m].text == "mut":
                            m += 1
                        if st[m].kind == "ident":
                            bound.add(st[m].text)
                    if st[k].text == "|" and st[k + 1].kind == "ident" and st[k + 2].text in ("|", ",", ":"):
                        bound.add(st[k + 1].text)
                caps = []
                for k in range(j + 1, c):
                    if _local_use(st, k) and st[k].text not in bound and st[k].text in before | {"self"} and st[k].text not in caps:
                        caps.append(st[k].text)
                edits.append((t.start, st[c].end, "vx_async_block%d(%s)" % (len(caps), ", ".join(caps))))
                n += 1
                i = c + 1
                continue
        i += 1
    if n:
        log["R16c async-block -> opaque future of its captures"] = log.get("R16c async-block -> opaque future of its captures", 0) + n
    return apply_edits(text, edits)


RULES = {"Rpin": rpin, "Rq": rq, "Rg": rg, "Rcl": rcl, "R16c": r16c}
