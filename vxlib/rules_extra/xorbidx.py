"""Extra catalogue rules used by U-XORBIDX / U-XORBVAL / U-FMTERR (general and syntactic; selected per item with `//@ rules`).

R15  `anyhow!( … )`  ->  `vx_anyhow()`
     The macro builds an `anyhow::Error` from a format string; the value is opaque to every caller in the verified code
     (it is only ever wrapped in an error variant), and neither verifier parses `format!`-style arguments.  The unit provides
     `#[verifier::external_body] fn vx_anyhow() -> AnyhowError`.  Drops: the message text.  The macro arguments are
     format arguments (evaluated for `Display` only); the rule refuses arguments that contain a call with `mut`/`=`.

R4s  `for X in [&]PATH { B }`  (X an identifier, PATH an identifier / field path, no method call)
     ->  `for vx_i_X in 0..PATH.len() { let X = &PATH[vx_i_X]; B }`
     Definitional for slices and `Vec`: `IntoIterator for &[T]` / `&Vec<T>` yields `&PATH[0], &PATH[1], …` and PATH is
     borrowed immutably for the whole loop.  If PATH is not an indexable collection the rewritten text does not type-check
     (rustc rejects it, exit 2).  Same argument as R4a.

R4u  `for _ in E`  ->  `for vx_u in E`
     Alpha-renaming of the unused loop pattern so that loop invariants can name the iteration count; `vx_u` is not used
     by the body (the identifier does not occur in the source, rustc would reject a clash).

R4z  `for (A, B) in X.iter().zip(Y.iter()) { S }`   (A, B identifiers; X, Y identifier / field paths)
     ->  `for vx_z in 0..vx_min(X.len(), Y.len()) { let A = &X[vx_z]; let B = &Y[vx_z]; S }`
     Definitional for slices and `Vec`: `zip` yields `(&X[i], &Y[i])` for i = 0, 1, … and stops when the shorter side is
     exhausted; both are borrowed immutably for the whole loop.  The unit provides a verified `fn vx_min(usize, usize)`.

R4d  `PATH.iter().map(|X| BODY).collect()`   (X an identifier, PATH an identifier / field path)
     ->  `{ let mut vx_c = Vec::new(); for vx_j in 0..PATH.len() { let X = &PATH[vx_j]; vx_c.push(BODY); } vx_c }`
     Definitional for slices and `Vec` (DESIGN 2.2, R4 (d)): `iter()` yields `&PATH[0], &PATH[1], ...` in order, `map` applies the closure
     to each in that order (side effects of BODY on captured variables included), `collect::<Vec<_>>()` pushes the results in order.
     BODY is kept verbatim (expression or block).  If the target is not a `Vec` the rewritten text does not type-check.

R4e  `PATH.iter().map(|X| BODY).collect::<Result<Vec<T>>>()?`   (fallible variant of R4d; BODY evaluates to a `Result`)
     ->  `{ let mut vx_c = Vec::new(); for vx_j in 0..PATH.len() { let X = &PATH[vx_j];
            vx_c.push(match BODY { Ok(vx_v) => vx_v, Err(vx_e) => return Err(vx_e) }); } vx_c }`
     `collect::<Result<Vec<_>, E>>()` evaluates the closure on the elements in order, stops at the first `Err(e)` and yields it, and the
     trailing `?` returns it from the enclosing function; otherwise it yields the vector of the `Ok` values in order.  A `?` inside BODY
     returns `Err` from the closure, which is that same first-`Err` path; inlined, it returns from the enclosing function directly.
     Side condition (checked syntactically): the turbofish is the one-parameter alias `Result<Vec<T>>`, i.e. the closure's error type is
     the crate's error type, the same as the enclosing function's (`-> Result<..>` with the same alias), so no `From` conversion differs.
"""
from ..lexer import lex, sig
from ..extract import match_close
from ..rewrite import RewriteError, span_text


def r15_anyhow(text, log):
    while True:
        st = sig(lex(text))
        done = True
        for i, t in enumerate(st):
            if t.kind == "ident" and t.text == "anyhow" and i + 2 < len(st) and st[i + 1].text == "!" and st[i + 2].text == "(":
                # not a path segment like anyhow::Error
                c = match_close(st, i + 2)
                inner = [x.text for x in st[i + 3:c]]
                if "mut" in inner or "=" in inner:
                    raise RewriteError("R15: anyhow! argument with a possible side effect")
                text = text[:t.start] + "vx_anyhow()" + text[st[c].end:]
                log["R15 anyhow! -> vx_anyhow()"] = log.get("R15 anyhow! -> vx_anyhow()", 0) + 1
                done = False
                break
        if done:
            return text


def r4s_slice_for(text, log):
    while True:
        st = sig(lex(text))
        done = True
        for i, t in enumerate(st):
            if not (t.kind == "ident" and t.text == "for"):
                continue
            if i + 3 >= len(st) or st[i + 1].kind != "ident" or st[i + 2].text != "in":
                continue
            x = st[i + 1].text
            j = i + 3
            if st[j].text == "&":
                j += 1
            p0 = j
            # PATH := ident ( . ident )*
            if st[j].kind != "ident":
                continue
            j += 1
            while j + 1 < len(st) and st[j].text == "." and st[j + 1].kind in ("ident", "num"):
                j += 2
            if st[j].text != "{":
                continue
            path = span_text(text, st, p0, j)
            iv = "vx_i_%s" % x
            new_head = "for %s in 0..%s.len() { let %s = &%s[%s];" % (iv, path, x, path, iv)
            text = text[:t.start] + new_head + text[st[j].end:]
            log["R4s slice-for -> index loop"] = log.get("R4s slice-for -> index loop", 0) + 1
            done = False
            break
        if done:
            return text


def r4u_named_unused(text, log):
    st = sig(lex(text))
    if any(t.kind == "ident" and t.text == "vx_u" for t in st):
        raise RewriteError("R4u: identifier vx_u already occurs")
    edits = []
    for i, t in enumerate(st):
        if t.kind == "ident" and t.text == "for" and i + 2 < len(st) and st[i + 1].text == "_" and st[i + 2].text == "in":
            edits.append((st[i + 1].start, st[i + 1].end, "vx_u"))
    if edits:
        log["R4u for _ -> for vx_u"] = log.get("R4u for _ -> for vx_u", 0) + len(edits)
    from ..rewrite import apply_edits
    return apply_edits(text, edits)


def _path_end(st, j):
    """st[j] starts PATH := ident ( . ident|num )* ; returns index one past it, or None"""
    if st[j].kind != "ident":
        return None
    j += 1
    while j + 1 < len(st) and st[j].text == "." and st[j + 1].kind in ("ident", "num") and st[j + 1].text not in ("iter",):
        j += 2
    return j


def r4z_zip_for(text, log):
    while True:
        st = sig(lex(text))
        done = True
        for i, t in enumerate(st):
            if not (t.kind == "ident" and t.text == "for"):
                continue
            # for ( A , B ) in X . iter ( ) . zip ( Y . iter ( ) ) {
            if i + 7 >= len(st) or [x.text for x in st[i + 1:i + 2]] != ["("]:
                continue
            if st[i + 2].kind != "ident" or st[i + 3].text != "," or st[i + 4].kind != "ident" or st[i + 5].text != ")" or st[i + 6].text != "in":
                continue
            a, b = st[i + 2].text, st[i + 4].text
            x0 = i + 7
            x1 = _path_end(st, x0)
            if x1 is None or [x.text for x in st[x1:x1 + 7]] != [".", "iter", "(", ")", ".", "zip", "("]:
                continue
            y0 = x1 + 7
            y1 = _path_end(st, y0)
            if y1 is None or [x.text for x in st[y1:y1 + 6]] != [".", "iter", "(", ")", ")", "{"]:
                continue
            brace = y1 + 5
            X = span_text(text, st, x0, x1)
            Y = span_text(text, st, y0, y1)
            new_head = "for vx_z in 0..vx_min(%s.len(), %s.len()) { let %s = &%s[vx_z]; let %s = &%s[vx_z];" % (X, Y, a, X, b, Y)
            text = text[:t.start] + new_head + text[st[brace].end:]
            log["R4z zip-for -> index loop"] = log.get("R4z zip-for -> index loop", 0) + 1
            done = False
            break
        if done:
            return text


def r4d_map_collect(text, log):
    while True:
        st = sig(lex(text))
        done = True
        for i, t in enumerate(st):
            # PATH . iter ( ) . map ( | X | BODY ) . collect ( )
            if not (t.text == "." and i + 8 < len(st) and [x.text for x in st[i + 1:i + 7]] == ["iter", "(", ")", ".", "map", "("]):
                continue
            o = i + 6
            if st[o + 1].text != "|" or st[o + 2].kind != "ident" or st[o + 3].text != "|":
                continue
            c = match_close(st, o)
            if [x.text for x in st[c + 1:c + 5]] != [".", "collect", "(", ")"]:
                continue
            # walk back over PATH
            j = i - 1
            if st[j].kind != "ident":
                continue
            while j - 2 >= 0 and st[j - 1].text == "." and st[j - 2].kind == "ident":
                j -= 2
            path = span_text(text, st, j, i)
            x = st[o + 2].text
            body = text[st[o + 4].start:st[c].start]
            new = "{ let mut vx_c = Vec::new(); for vx_j in 0..%s.len() { let %s = &%s[vx_j]; vx_c.push(%s); } vx_c }" % (path, x, path, body.strip())
            text = text[:st[j].start] + new + text[st[c + 4].end:]
            log["R4d map-collect -> push loop"] = log.get("R4d map-collect -> push loop", 0) + 1
            done = False
            break
        if done:
            return text


def r4e_try_map_collect(text, log):
    while True:
        st = sig(lex(text))
        done = True
        for i, t in enumerate(st):
            if not (t.text == "." and i + 8 < len(st) and [x.text for x in st[i + 1:i + 7]] == ["iter", "(", ")", ".", "map", "("]):
                continue
            o = i + 6
            if st[o + 1].text != "|" or st[o + 2].kind != "ident" or st[o + 3].text != "|":
                continue
            c = match_close(st, o)
            # . collect :: < Result < Vec < T > > > ( ) ?
            tail = [x.text for x in st[c + 1:c + 8]]
            if tail[:7] != [".", "collect", ":", ":", "<", "Result", "<"] or st[c + 8].text != "Vec":
                continue
            k = c + 9
            depth = 0
            # skip the generic argument list of Vec<...> and the two closing '>' of Result< >, then `( ) ?`
            if st[k].text != "<":
                continue
            depth = 1
            k += 1
            while depth > 0:
                if st[k].text == "<":
                    depth += 1
                elif st[k].text == ">":
                    depth -= 1
                k += 1
            if [x.text for x in st[k:k + 5]] != [">", ">", "(", ")", "?"]:
                continue
            end = k + 4
            j = i - 1
            if st[j].kind != "ident":
                continue
            while j - 2 >= 0 and st[j - 1].text == "." and st[j - 2].kind == "ident":
                j -= 2
            path = span_text(text, st, j, i)
            x = st[o + 2].text
            body = text[st[o + 4].start:st[c].start].strip()
            new = ("{ let mut vx_c = Vec::new(); for vx_j in 0..%s.len() { let %s = &%s[vx_j]; "
                   "vx_c.push(match %s { Ok(vx_v) => vx_v, Err(vx_e) => return Err(vx_e) }); } vx_c }") % (path, x, path, body)
            text = text[:st[j].start] + new + text[st[end].end:]
            log["R4e try-map-collect -> push loop"] = log.get("R4e try-map-collect -> push loop", 0) + 1
            done = False
            break
        if done:
            return text


RULES = {"R4e": r4e_try_map_collect, "R4d": r4d_map_collect, "R4z": r4z_zip_for, "R4u": r4u_named_unused, "R15": r15_anyhow, "R4s": r4s_slice_for}
