"""Rules of unit U-IMSETOPS (in-memory shard union / difference).  Both are syntactic unfoldings of iterator adaptors into the
`for` loops they are defined by; rustc re-checks the result (a receiver that is not a keyed collection does not type-check).

R19a  `E.iter().for_each(|PAT| { BODY });`          ->   `for PAT in E.iter() { BODY }`
      `Iterator::for_each(f)` calls f on every item in order (core: `self.fold((), |(), x| f(x))`); inlining the closure
      literal as the loop body is beta-reduction with the same binders.  Needed because Verus rejects closures that capture `&mut`.
      Conditions: the call is a whole statement, the closure has one pattern parameter without type annotation, a block body, no
      `move`, and BODY contains no `return` (it would leave the closure only).

R19b  `E.iter().filter(|PF| COND).map(|PM| (KEXPR, VEXPR)).collect()`
      ->   `{ let mut vx_colN = Default::default(); for PM in E.iter() { if COND { vx_map_insert(&mut vx_colN, KEXPR, VEXPR); } } vx_colN }`
      (`vx_map_insert(c, k, v)` is `c.insert(k, v);` behind a trait the unit implements for BTreeMap and HashMap: the collection
      type is only fixed later by the context, and rustc refuses a METHOD call on a not yet inferred type)
      `collect::<Map>()` of key/value pairs is `FromIterator`: start from the empty map and insert the pairs in iteration order;
      `filter` keeps the items for which the predicate holds; `map` transforms them.  PF and PM must be flat tuple patterns of the
      same arity whose named binders agree position by position (`_` allowed in PF), so one loop pattern binds both bodies: the
      filter closure sees `&item` and the map closure `item`, i.e. the filter's binders carry one more `&`, which only matters if
      COND dereferences them explicitly — then the generated text does not type-check (rustc, undecided).  The collection type is
      still inferred from the context (`Default::default()` = the empty collection for BTreeMap and HashMap).
"""
from ..lexer import lex, sig
from ..extract import match_close
from ..rewrite import find_seq, RewriteError
from .setops import _recv_start


def _closure(st, o):
    """st[o] == '(' of `.adaptor(`; expects `| PAT | BODY )`; returns (pat_tokens, body_start, close) or None"""
    if st[o + 1].text != "|":
        return None
    j = o + 2
    pat = []
    while j < len(st) and st[j].text != "|":
        if st[j].text == "(":
            c = match_close(st, j)
            pat.extend(st[j:c + 1])
            j = c + 1
            continue
        pat.append(st[j])
        j += 1
    if j >= len(st) or not pat or any(t.text == ":" for t in pat):
        return None
    c = match_close(st, o)
    return pat, j + 1, c


def r19a_for_each(text, log):
    while True:
        st = sig(lex(text))
        done = True
        for i in find_seq(st, [".", "iter", "(", ")", ".", "for_each", "("]):
            o = i + 6
            cl = _closure(st, o)
            if cl is None:
                continue
            pat, b0, c = cl
            if st[b0].text != "{" or match_close(st, b0) != c - 1 or st[c + 1].text != ";":
                continue
            if any(t.kind == "ident" and t.text == "return" for t in st[b0:c]):
                continue
            r0 = _recv_start(st, i)
            if r0 is None:
                continue
            recv = text[st[r0].start:st[i - 1].end]
            ptxt = text[pat[0].start:pat[-1].end]
            body = text[st[b0].start:st[c - 1].end]
            new = "for %s in %s.iter() %s" % (ptxt, recv, body)
            text = text[:st[r0].start] + new + text[st[c + 1].end:]
            log["R19a for_each -> for"] = log.get("R19a for_each -> for", 0) + 1
            done = False
            break
        if done:
            return text


def _flat_tuple(pat):
    """tokens of `( a , b )` -> ['a','b'] (identifiers or `_`), else None"""
    if pat[0].text != "(" or pat[-1].text != ")":
        return None
    inner = pat[1:-1]
    out = []
    for n, t in enumerate(inner):
        if n % 2 == 0:
            if t.kind != "ident" and t.text != "_":
                return None
            out.append(t.text)
        elif t.text != ",":
            return None
    return out


def r19b_filter_map_collect(text, log):
    k = 0
    while True:
        st = sig(lex(text))
        done = True
        for i in find_seq(st, [".", "iter", "(", ")", ".", "filter", "("]):
            of = i + 6
            cf = _closure(st, of)
            if cf is None:
                continue
            pf, fb0, fc = cf
            if [t.text for t in st[fc + 1:fc + 4]] != [".", "map", "("]:
                continue
            om = fc + 3
            cm = _closure(st, om)
            if cm is None:
                continue
            pm, mb0, mc = cm
            if [t.text for t in st[mc + 1:mc + 5]] != [".", "collect", "(", ")"]:
                continue
            nf, nm = _flat_tuple(pf), _flat_tuple(pm)
            if nf is None or nm is None or len(nf) != len(nm) or any(a != "_" and a != b for a, b in zip(nf, nm)):
                continue
            # map body must be a 2-tuple literal
            if st[mb0].text != "(" or match_close(st, mb0) != mc - 1:
                continue
            from ..rewrite import split_args, span_text
            parts = split_args(st, mb0, mc - 1)
            if len(parts) != 2:
                continue
            kexpr = span_text(text, st, *parts[0])
            vexpr = span_text(text, st, *parts[1])
            cond = text[st[fb0].start:st[fc - 1].end]
            r0 = _recv_start(st, i)
            if r0 is None:
                continue
            recv = text[st[r0].start:st[i - 1].end]
            k += 1
            col = "vx_col%d" % k
            if col in text:
                continue
            ptxt = text[pm[0].start:pm[-1].end]
            new = "{ let mut %s = Default::default(); for %s in %s.iter() { if %s { vx_map_insert(&mut %s, %s, %s); } } %s }" % (col, ptxt, recv, cond, col, kexpr, vexpr, col)
            text = text[:st[r0].start] + new + text[st[mc + 4].end:]
            log["R19b filter-map-collect -> for"] = log.get("R19b filter-map-collect -> for", 0) + 1
            done = False
            break
        if done:
            return text


def r19c_ref_into_iter(text, log):
    """R19c  `for PAT in &PATH {`  (PATH = identifiers joined by `.`)  ->  `for PAT in PATH.iter() {`
    `IntoIterator for &BTreeMap / &HashMap / &Vec / &[T]` is defined in std as `self.iter()`."""
    from ..rewrite import _for_loops
    while True:
        st = sig(lex(text))
        done = True
        for i, in_idx, b in _for_loops(st):
            if st[in_idx + 1].text != "&" or st[in_idx + 2].kind != "ident" or st[in_idx + 2].text == "mut":
                continue
            j = in_idx + 3
            ok = True
            while j < b:
                if st[j].text != "." or j + 1 >= b or st[j + 1].kind != "ident":
                    ok = False
                    break
                j += 2
            if not ok:
                continue
            path = text[st[in_idx + 2].start:st[b - 1].end]
            text = text[:st[in_idx + 1].start] + path + ".iter() " + text[st[b].start:]
            log["R19c &map -> .iter()"] = log.get("R19c &map -> .iter()", 0) + 1
            done = False
            break
        if done:
            return text


RULES = {"R19a": r19a_for_each, "R19b": r19b_filter_map_collect, "R19c": r19c_ref_into_iter}
