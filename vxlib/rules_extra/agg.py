"""Extra catalogue rule used by U-AGG (general and syntactic; selected per item with `//@ rules R4m`).

R4m  mutable iteration over an indexable collection

    for PAT in E.iter_mut() { B }
 ->
    { let mut vx_nK = 0; while vx_nK < E.len() { let PAT = &mut E[vx_nK]; vx_nK += 1; B } }

`slice::iter_mut` (also reached through `Vec`'s deref) yields `&mut E[0], &mut E[1], ..` in order, once each.  In the
original, E is mutably borrowed for the whole loop, so B can reach E only through the yielded element: E's length is
loop-constant and re-evaluating `E.len()` at every iteration is the identity.  `let PAT = &mut E[k];` binds PAT against a
`&mut T` exactly as the `for` pattern does (an identifier binds the reference; a tuple pattern binds `&mut` to the
components by default binding modes in both forms).  The counter is a fresh name, copied into the index expression before
it is advanced, and is advanced *before* B so that `continue` inside B keeps its meaning; `break` / `return` keep theirs.
Nothing in B is touched.
Side conditions (otherwise the site is left alone, Verus rejects the iterator -> unit undecided, never wrong):
E is a *place path*: identifiers / `self` joined by `.` with field names or tuple indices only (no calls, no indexing, no
`..`), so evaluating it repeatedly has no effect; PAT is an identifier or a parenthesised tuple of identifiers.
"""
from ..lexer import lex, sig
from ..extract import match_close
from ..rewrite import _for_loops, _fresh, span_text


def _is_place_path(toks):
    if not toks:
        return False
    want_name = True
    for t in toks:
        if want_name:
            if t.kind not in ("ident", "int", "num", "number", "literal") or t.text in ("mut", "in", "for"):
                return False
            if t.kind != "ident" and not t.text.isdigit():
                return False
        else:
            if t.text != ".":
                return False
        want_name = not want_name
    return not want_name and toks[0].kind == "ident"


def _is_simple_pat(toks):
    if len(toks) == 1:
        return toks[0].kind == "ident" and toks[0].text not in ("mut", "ref", "_")
    if len(toks) >= 3 and toks[0].text == "(" and toks[-1].text == ")":
        want_name = True
        for t in toks[1:-1]:
            if want_name:
                if t.kind != "ident" or t.text in ("mut", "ref"):
                    return False
            elif t.text != ",":
                return False
            want_name = not want_name
        return True
    return False


def r4m_iter_mut_for(text, log):
    while True:
        st = sig(lex(text))
        done = True
        for i, in_idx, b in _for_loops(st):
            if b - in_idx < 6 or [x.text for x in st[b - 4:b]] != [".", "iter_mut", "(", ")"]:
                continue
            e_toks = st[in_idx + 1:b - 4]
            p_toks = st[i + 1:in_idx]
            if not _is_place_path(e_toks) or not _is_simple_pat(p_toks):
                continue
            e_txt = span_text(text, st, in_idx + 1, b - 4)
            pat = span_text(text, st, i + 1, in_idx)
            c = match_close(st, b)
            n = _fresh(text, "vx_n")
            body = text[st[b].end:st[c].start]
            new = "{ let mut %s = 0; while %s < %s.len() { let %s = &mut %s[%s]; %s += 1; %s} }" % (
                n, n, e_txt, pat, e_txt, n, n, body)
            text = text[:st[i].start] + new + text[st[c].end:]
            log["R4m iter_mut-for -> while"] = log.get("R4m iter_mut-for -> while", 0) + 1
            done = False
            break
        if done:
            return text


RULES = {"R4m": r4m_iter_mut_for}
