"""R4h  bounded-prefix iteration over an indexable collection of `Copy` elements.

    for &PAT in E.iter().take(N) { B }
 ->
    { let mut vx_nK = 0; while vx_nK < E.len() && vx_nK < N { let PAT = E[vx_nK]; vx_nK += 1; B } }

`Iterator::take(n)` yields the first `min(n, len)` items, `slice::iter` yields `&E[0], &E[1], ..` in order, and the `&PAT`
pattern copies the element; the while loop visits exactly the same elements in the same order and binds the same values.
The counter is advanced *before* B so that `continue` inside B keeps its meaning; `break` / `return` keep theirs.
Side conditions (otherwise the site is left alone and Verus rejects the iterator chain -> unit undecided, never wrong):
E is a postfix chain without `..`; N is a single identifier or integer literal (so re-evaluating it is the identity and B
cannot be confused with it); B does not assign to N or E (checked syntactically: no `N =`, `N +=`, `&mut E`, `E[`..`] =`).
"""
from ..lexer import lex, sig
from ..extract import match_close
from ..rewrite import _for_loops, _fresh, span_text


def r4h_iter_take(text, log):
    while True:
        st = sig(lex(text))
        done = True
        for i, in_idx, b in _for_loops(st):
            if st[i + 1].text != "&":
                continue
            # tail: . iter ( ) . take ( N )
            if b < 9:
                continue
            tail = [x.text for x in st[b - 9:b]]
            if tail[:7] != [".", "iter", "(", ")", ".", "take", "("] or tail[8] != ")":
                continue
            n_tok = st[b - 2]
            if n_tok.kind not in ("ident", "num"):
                continue
            e_txt = span_text(text, st, in_idx + 1, b - 9)
            if not e_txt or ".." in e_txt:
                continue
            pat = span_text(text, st, i + 2, in_idx)
            c = match_close(st, b)
            body_toks = [x.text for x in st[b + 1:c]]
            bad = False
            for k, tk in enumerate(body_toks[:-1]):
                if tk == n_tok.text and body_toks[k + 1] in ("=", "+=", "-=", "*="):
                    bad = True
            e_head = st[in_idx + 1].text
            for k, tk in enumerate(body_toks[:-1]):
                if tk == "mut" and body_toks[k + 1] == e_head:
                    bad = True
                if tk == e_head and body_toks[k + 1] in ("=", "["):
                    bad = True
            if bad:
                continue
            n = _fresh(text, "vx_n")
            body = text[st[b].end:st[c].start]
            new = "{ let mut %s = 0; while %s < %s.len() && %s < %s { let %s = %s[%s]; %s += 1; %s} }" % (
                n, n, e_txt, n, n_tok.text, pat, e_txt, n, n, body)
            text = text[:st[i].start] + new + text[st[c].end:]
            log["R4h iter-take-for -> while"] = log.get("R4h iter-take-for -> while", 0) + 1
            done = False
            break
        if done:
            return text


RULES = {"R4h": r4h_iter_take}
