"""R4h  bounded-prefix iteration over an indexable collection of `Copy` elements.

    for &PAT in E.iter().take(N) { B }
 ->
    { let mut vx_nK = 0; while vx_nK < E.len() && vx_nK < N { let PAT = E[vx_nK]; vx_nK += 1; B } }

`Iterator::take(n)` yields the first `min(n, len)` items, `slice::iter` yields `&E[0], &E[1], ..` in order, and the `&PAT`
pattern copies the element; the while loop visits exactly the same elements in the same order and binds the same values.
The counter is advanced *before* B so that `continue` inside B keeps its meaning; `break` / `return` keep theirs.
Side conditions (otherwise the site is left alone and Verus rejects the iterator chain -> unit undecided, never wrong):
E is a postfix chain without `..`; N is a single identifier or integer literal (so re-evaluating it is the identity and B
cannot be confused with it); B does not assign to N or E (checked syntactically: no `N =`, `N +=`, `&mut E`, `E[`..`] =`).
"""
from ..lexer import lex, sig
from ..extract import match_close
from ..rewrite import _for_loops, _fresh, span_text


def r4h_iter_take(text, log):
    while True:
        st = sig(lex(text))
        done = True
        for i, in_idx, b in _for_loops(st):
            if st[i + 1].text != "&":
                continue
            # tail: . iter ( ) . take ( N )
            if b < 9:
                continue
            tail = [x.text for x in st[b - 9:b]]
            if tail[:7] != [".", "iter", "(", ")", ".", "take", "("] or tail[8] != ")":
                continue
            n_tok = st[b - 2]
            if n_tok.kind not in ("ident", "num"):
                continue
            e_txt = span_text(text, st, in_idx + 1, b - 9)
            if not e_txt or ".." in e_txt:
                continue
            pat = span_text(text, st, i + 2, in_idx)
            c = match_close(st, b)
            body_toks = [x.text for x in st[b + 1:c]]
            bad = False
            for k, tk in enumerate(body_toks[:-1]):
                if tk == n_tok.text and body_toks[k + 1] in ("=", "+=", "-=", "*="):
                    bad = True
            e_head = st[in_idx + 1].text
            for k, tk in enumerate(body_toks[:-1]):
                if tk == "mut" and body_toks[k + 1] == e_head:
                    bad = True
                if tk == e_head and body_toks[k + 1] in ("=", "["):
                    bad = True
            if bad:
                continue
            n = _fresh(text, "vx_n")
            body = text[st[b].end:st[c].start]
            new = "{ let mut %s = 0; while %s < %s.len() && %s < %s { let %s = %s[%s]; %s += 1; %s} }" % (
                n, n, e_txt, n, n_tok.text, pat, e_txt, n, n, body)
            text = text[:st[i].start] + new + text[st[c].end:]
            log["R4h iter-take-for -> while"] = log.get("R4h iter-take-for -> while", 0) + 1
            done = False
            break
        if done:
            return text



def r4j_vec_value_for(text, log):
    """R4j  by-value iteration over a Vec of `Copy` elements with a destructuring pattern.

        for PAT in V { B }      (V a plain identifier, PAT a parenthesised tuple pattern)
     ->
        { let mut vx_nK = 0; while vx_nK < V.len() { let PAT = V[vx_nK]; vx_nK += 1; B } }

    `Vec::into_iter` yields V[0], V[1], .. by value in order; for `Copy` elements `V[i]` is the same value (rustc rejects
    the rewritten text if the element type is not `Copy`: cannot move out of index). V is not dropped early, which is
    unobservable for `Copy` elements.  The counter advances before B so `continue` keeps its meaning.  Needed because
    Verus for-loops support neither tuple patterns nor `continue`.  Side condition: B does not mention V (checked)."""
    while True:
        st = sig(lex(text))
        done = True
        for i, in_idx, b in _for_loops(st):
            if st[i + 1].text != "(" or match_close(st, i + 1) != in_idx - 1:
                continue
            if b != in_idx + 2 or st[in_idx + 1].kind != "ident":
                continue
            v = st[in_idx + 1].text
            c = match_close(st, b)
            if any(x.text == v for x in st[b + 1:c]):
                continue
            pat = span_text(text, st, i + 1, in_idx)
            n = _fresh(text, "vx_n")
            body = text[st[b].end:st[c].start]
            new = "{ let mut %s = 0; while %s < %s.len() { let %s = %s[%s]; %s += 1; %s} }" % (n, n, v, pat, v, n, n, body)
            text = text[:st[i].start] + new + text[st[c].end:]
            log["R4j vec-value-for -> while"] = log.get("R4j vec-value-for -> while", 0) + 1
            done = False
            break
        if done:
            return text


def r7e_entry_or_insert(text, log):
    """R7e  outline of the HashMap entry API (Verus has no specification for `Entry`):

        *M.entry(K).or_insert(V)    ->    vx_entry_or_insert(&mut M, K, V)

    where M is a postfix chain of identifiers and field accesses.  The unit supplies
    `fn vx_entry_or_insert<K, V: Copy>(m: &mut HashMap<K, V>, k: K, v: V) -> V { *m.entry(k).or_insert(v) }` as an
    `external_body` function whose body is that same expression and whose contract (std semantics: present -> map unchanged,
    the stored value; absent -> inserted, v) is assumed.  K and V are copied verbatim; evaluation order (M, K, V) is kept."""
    while True:
        st = sig(lex(text))
        done = True
        for i, t in enumerate(st):
            if t.text != "*" or i + 1 >= len(st) or st[i + 1].kind != "ident":
                continue
            if i > 0 and (st[i - 1].kind in ("ident", "num") and st[i - 1].text not in ("return", "in", "as", "if", "else", "match") or st[i - 1].text in (")", "]")):
                continue
            j = i + 1
            while j + 2 < len(st) and st[j].kind == "ident" and st[j + 1].text == "." and st[j + 2].kind == "ident" and st[j + 2].text != "entry":
                j += 2
            if not (st[j].kind == "ident" and st[j + 1].text == "." and st[j + 2].text == "entry" and st[j + 3].text == "("):
                continue
            kc = match_close(st, j + 3)
            if [x.text for x in st[kc + 1:kc + 4]] != [".", "or_insert", "("]:
                continue
            vc = match_close(st, kc + 3)
            m_txt = span_text(text, st, i + 1, j + 1)
            k_txt = span_text(text, st, j + 4, kc)
            v_txt = span_text(text, st, kc + 4, vc)
            new = "vx_entry_or_insert(&mut %s, %s, %s)" % (m_txt, k_txt, v_txt)
            text = text[:t.start] + new + text[st[vc].end:]
            log["R7e entry-or_insert outline"] = log.get("R7e entry-or_insert outline", 0) + 1
            done = False
            break
        if done:
            return text



def r7e_entry_or_insert_stmt(text, log):
    """R7e (statement form)   `M.entry(K).or_insert(V);` as an expression statement whose value is discarded
        ->  `vx_entry_or_insert_drop(&mut M, K, V);`
    M is a chain of identifiers and field accesses starting a statement.  The unit supplies the `external_body` function with
    body `m.entry(k).or_insert(v);` and the assumed std contract: key present -> map unchanged; absent -> inserted."""
    while True:
        st = sig(lex(text))
        done = True
        for i, t in enumerate(st):
            if t.kind != "ident" or (i > 0 and st[i - 1].text not in (";", "{", "}")):
                continue
            j = i
            while j + 2 < len(st) and st[j].kind == "ident" and st[j + 1].text == "." and st[j + 2].kind == "ident" and st[j + 2].text != "entry":
                j += 2
            if not (j + 3 < len(st) and st[j].kind == "ident" and st[j + 1].text == "." and st[j + 2].text == "entry" and st[j + 3].text == "("):
                continue
            kc = match_close(st, j + 3)
            if [x.text for x in st[kc + 1:kc + 4]] != [".", "or_insert", "("]:
                continue
            vc = match_close(st, kc + 3)
            if vc + 1 >= len(st) or st[vc + 1].text != ";":
                continue
            m_txt = span_text(text, st, i, j + 1)
            k_txt = span_text(text, st, j + 4, kc)
            v_txt = span_text(text, st, kc + 4, vc)
            new = "vx_entry_or_insert_drop(&mut %s, %s, %s)" % (m_txt, k_txt, v_txt)
            text = text[:t.start] + new + text[st[vc].end:]
            log["R7e entry-or_insert statement outline"] = log.get("R7e entry-or_insert statement outline", 0) + 1
            done = False
            break
        if done:
            return text


def r7e_both(text, log):
    return r7e_entry_or_insert_stmt(r7e_entry_or_insert(text, log), log)



def r20_labeled_block(text, log):
    """R20  labeled block with a value (Verus: "block with label" unsupported), rewritten to a single-iteration loop:

        let P = 'L: { B ; TAIL };
     ->
        let vx_lbK; loop /*vx-loop*/ { B' ; vx_lbK = TAIL; break; } let P = vx_lbK;
        where B' = B with every  `break 'L E`  replaced by  `{ vx_lbK = E; break; }`

    A block runs once and yields either the operand of a `break 'L` or its tail; the loop body runs once and leaves through a
    `break` after storing the same value in a fresh variable (fresh, because P may be shadowed inside B).  `return` and `?`
    inside B keep their meaning (they leave the function in both forms).  Side conditions, otherwise RewriteError (undecided):
    B contains no loop (`loop`/`while`/`for`), no closure or async block containing `break`, no unlabeled `break`/`continue`,
    no other label; TAIL is the text after the last top-level `;` of the block and is a non-empty expression."""
    from ..rewrite import RewriteError
    while True:
        st = sig(lex(text))
        done = True
        for i, t in enumerate(st):
            if t.kind != "ident" or t.text != "let":
                continue
            # let IDENT = 'L : {
            if i + 5 >= len(st) or st[i + 1].kind != "ident" or st[i + 2].text != "=":
                continue
            lab = st[i + 3]
            if not lab.text.startswith("'") or st[i + 4].text != ":" or st[i + 5].text != "{":
                continue
            o = i + 5
            c = match_close(st, o)
            if c + 1 >= len(st) or st[c + 1].text != ";":
                continue
            inner = st[o + 1:c]
            for x in inner:
                if x.kind == "ident" and x.text in ("loop", "while", "for", "continue", "async"):
                    raise RewriteError("R20: `%s` inside labeled block" % x.text)
                if x.text.startswith("'") and x.text != lab.text and len(x.text) > 1 and x.kind != "char":
                    pass
            var = _fresh(text, "vx_lb")
            edits = []
            # breaks
            k = o + 1
            last_semi = None
            depth = 0
            while k < c:
                x = st[k]
                if x.kind == "punct" and x.text in "([{":
                    depth += 1
                elif x.kind == "punct" and x.text in ")]}":
                    depth -= 1
                elif x.text == ";" and depth == 0:
                    last_semi = k
                if x.kind == "ident" and x.text == "break":
                    if st[k + 1].text != lab.text:
                        raise RewriteError("R20: break without the block's label")
                    # operand: up to the `;` at this nesting level
                    j = k + 2
                    d2 = 0
                    while j < c:
                        y = st[j]
                        if y.kind == "punct" and y.text in "([{":
                            d2 += 1
                        elif y.kind == "punct" and y.text in ")]}":
                            if d2 == 0:
                                break
                            d2 -= 1
                        elif y.text == ";" and d2 == 0:
                            break
                        j += 1
                    if j == k + 2:
                        raise RewriteError("R20: break without value")
                    e_txt = text[st[k + 2].start:st[j - 1].end]
                    has_semi = st[j].text == ";"
                    end = st[j].end if has_semi else st[j - 1].end
                    edits.append((x.start, end, "{ %s = %s; break; }" % (var, e_txt)))
                    k = j
                    continue
                k += 1
            if last_semi is None or last_semi + 1 >= c:
                raise RewriteError("R20: labeled block without tail expression")
            tail_a, tail_b = st[last_semi + 1].start, st[c - 1].end
            tail = text[tail_a:tail_b]
            edits.append((tail_a, tail_b, "%s = %s; break;" % (var, tail)))
            # header and footer
            edits.append((t.start, st[o].start, "let %s; loop /*vx-loop*/ " % var))
            edits.append((st[c + 1].start, st[c + 1].end, " let %s = %s;" % (st[i + 1].text, var)))
            from ..rewrite import apply_edits
            text = apply_edits(text, edits)
            log["R20 labeled block -> single-iteration loop"] = log.get("R20 labeled block -> single-iteration loop", 0) + 1
            done = False
            break
        if done:
            return text


RULES = {"R4h": r4h_iter_take, "R4j": r4j_vec_value_for, "R7e": r7e_both, "R20": r20_labeled_block}
