"""R4i  slice iteration with an arbitrary slice expression and an identifier or tuple-of-identifiers pattern.

    for x in E.iter() { B }
        ->  { let vx_sK = &E; let mut vx_nK = 0; while vx_nK < vx_sK.len() { let x = &vx_sK[vx_nK]; vx_nK += 1; B } }
    for (a, b) in E.iter() { B }
        ->  { let vx_sK = &E; let mut vx_nK = 0;
              while vx_nK < vx_sK.len() { let vx_eK = &vx_sK[vx_nK]; let a = &vx_eK.0; let b = &vx_eK.1; vx_nK += 1; B } }

Definitional for slices and `Vec`: `<[T]>::iter()` yields `&E[0], &E[1], ...` while E is borrowed immutably for the whole
loop (E is evaluated once, as in the original); a tuple pattern of identifiers against `&(A, B)` binds, by default binding
modes, `a = &e.0`, `b = &e.1`.  The counter is incremented before the body so that `continue` keeps its meaning
(Verus' own `for` does not accept `continue`).  Differences from core R4f: E may be a range-indexed slice
(`v[a..b]`), the pattern may be a flat tuple of identifiers, E is bound once.  K numbers the rewritten loops in textual
order so that invariants can name `vx_sK` / `vx_nK`.  The rewritten loop is preceded by an empty statement `;` (no effect).  If E is not a slice/Vec the result does not type-check (rustc, exit 2).
"""
from ..lexer import lex, sig
from ..extract import match_close
from ..rewrite import _for_loops, _tail_is, span_text


def r4i_iter_for(text, log):
    k = 0
    while True:
        st = sig(lex(text))
        done = True
        for i, in_idx, b in _for_loops(st):
            if not _tail_is(st, b, [".", "iter", "(", ")"]):
                continue
            names = None
            if in_idx == i + 2 and st[i + 1].kind == "ident":
                names = [st[i + 1].text]
                tuple_pat = False
            elif st[i + 1].text == "(" and match_close(st, i + 1) == in_idx - 1:
                inner = st[i + 2:in_idx - 1]
                ok = len(inner) % 2 == 1
                for n, t in enumerate(inner):
                    if n % 2 == 0 and (t.kind != "ident" or t.text in ("mut", "ref", "_")):
                        ok = False
                    if n % 2 == 1 and t.text != ",":
                        ok = False
                if not ok:
                    continue
                names = [t.text for n, t in enumerate(inner) if n % 2 == 0]
                tuple_pat = True
            else:
                continue
            e_txt = span_text(text, st, in_idx + 1, b - 4)
            if not e_txt:
                continue
            c = match_close(st, b)
            k += 1
            s, n, e = "vx_s%d" % k, "vx_n%d" % k, "vx_e%d" % k
            if s in text or n in text:
                continue
            body = text[st[b].end:st[c].start]
            if tuple_pat:
                bind = "let %s = &%s[%s]; " % (e, s, n) + " ".join("let %s = &%s.%d;" % (x, e, j) for j, x in enumerate(names))
            else:
                bind = "let %s = &%s[%s];" % (names[0], s, n)
            # the leading empty statement keeps the generated block from being parsed as a clause of a preceding loop body
            new = "; { let %s = &%s; let mut %s = 0; while %s < %s.len() { %s %s += 1; %s} }" % (s, e_txt, n, n, s, bind, n, body)
            text = text[:st[i].start] + new + text[st[c].end:]
            log["R4i iter-for -> while"] = log.get("R4i iter-for -> while", 0) + 1
            done = False
            break
        if done:
            return text


def r4j_rangefrom(text, log):
    """R4j = core R4c (`for i in A.. { B }` -> `{ let mut i = A; loop { B; i += 1; } }`, no `continue` in B) that also accepts a
    body whose last expression statement has no trailing `;` (a `for` body has type `()`, so terminating the final
    `()`-typed expression with `;` does not change its meaning)."""
    from ..rewrite import _stmt_for_header, RewriteError
    while True:
        st = sig(lex(text))
        done = True
        for i, t in enumerate(st):
            if t.kind == "ident" and t.text == "for":
                try:
                    in_idx, b = _stmt_for_header(st, i)
                except RewriteError:
                    continue
                if in_idx is None or in_idx != i + 2:
                    continue
                if [x.text for x in st[b - 2:b]] != [".", "."]:
                    continue
                c = match_close(st, b)
                body_toks = [x.text for x in st[b + 1:c]]
                if "continue" in body_toks:
                    raise RewriteError("R4j: `continue` inside RangeFrom loop")
                iv = st[i + 1].text
                a_txt = span_text(text, st, in_idx + 1, b - 2)
                body = text[st[b].end:st[c].start]
                sep = "" if (not body_toks or body_toks[-1] in (";", "}")) else ";"
                new = "{ let mut %s = %s; loop /*vx-loop*/ {%s%s %s += 1; } }" % (iv, a_txt, body.rstrip(), sep, iv)
                text = text[:t.start] + new + text[st[c].end:]
                log["R4j RangeFrom -> loop"] = log.get("R4j RangeFrom -> loop", 0) + 1
                done = False
                break
        if done:
            return text


RULES = {"R4i": r4i_iter_for, "R4j": r4j_rangefrom}
