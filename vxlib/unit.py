"""Unit templates: a Verus file with `//@` directives.  Generation = extract real items from /repo, apply the rewrite
catalogue, splice the contracts, emit one self-contained Verus file (+ a probe variant for vacuity checking).

Directives (one per line, starting with `//@`):

  //@ unit <name>
  //@ props C04 C03 ...
  //@ verus-args --rlimit 100
  //@ config NAME ...                      (R6: `*NAME` -> `NAME()`)
  //@ gsubst `<from>` => `<to>` :: reason  (unit-wide substitution applied to every extracted item; listed)
  //@ extract <relpath> [in `<container header>`] <kind> <name>
  //@   ret <ident>                        name the return value (R13)
  //@   subst `<from>` => `<to>` :: reason
  //@   optsubst ...                       same, but not finding the source text is not an error
  //@   rules R4a R4c R5                   extra catalogue rules to apply to this item
  //@   sig                                text to put in place of nothing: extra verus fn attributes before the item
  //@   contract                           following raw lines go between signature and body
  //@   loop <k>                           following raw lines go before the body of the k-th loop (1-based)
  //@   before `<anchor>` [#n]             following raw lines are inserted before the n-th match of anchor
  //@   after `<anchor>` [#n]
  //@   body-start
  //@   noprobe                            no vacuity probe for this item (e.g. spec-less helper)
  //@ end
Everything else is raw Verus text and is emitted unchanged.
"""
import hashlib
import os
import re
from . import rewrite as rw
from .extract import find_item, match_close, ExtractError, norm
from .lexer import lex, sig


class UnitError(Exception):
    pass


_bt = re.compile(r"`([^`]*)`")


_NOT_LOCAL = {"self", "Self", "crate", "super", "true", "false", "as", "break", "const", "continue", "else", "enum", "extern", "fn", "for", "if",
              "impl", "in", "let", "loop", "match", "mod", "move", "mut", "pub", "ref", "return", "static", "struct", "trait", "type", "unsafe",
              "use", "where", "while", "async", "await", "dyn", "u8", "u16", "u32", "u64", "u128", "usize", "i8", "i16", "i32", "i64", "i128",
              "isize", "bool", "char", "str", "f32", "f64", "Some", "None", "Ok", "Err"}


def _local_like(toks, name):
    """an identifier that is only ever used like a local variable or parameter in this token stream: never right after `.` or `::`
    (field, method, path segment), never right before `(`, `!`, `::` or `<` (function, macro, path, generic type), lower-case"""
    if name in _NOT_LOCAL or not (name[0].islower() or name[0] == "_"):
        return False
    for i, t in enumerate(toks):
        if t.kind != "ident" or t.text != name:
            continue
        prev = toks[i - 1].text if i > 0 else ""
        prev2 = toks[i - 2].text if i > 1 else ""
        nxt = toks[i + 1].text if i + 1 < len(toks) else ""
        nxt2 = toks[i + 2].text if i + 2 < len(toks) else ""
        if prev == "." and prev2 != ".":          # `a.name`: a field or method of that name, not this identifier (rename_idents
            continue                              # never touches an identifier after `.`); `..name` is a range bound
        if prev == ":" and prev2 == ":":
            return False
        if nxt == "(" or (nxt == "!" and nxt2 in ("(", "[", "{")):      # a call or a macro (`x != 0` is neither)
            return False
        if nxt == ":" and nxt2 == ":":
            return False
    return True


def alpha_map(old, new):
    """if `new` is `old` with LOCAL identifiers (variables, parameters) consistently renamed and the token streams otherwise
    identical, return {old_ident: new_ident} for the identifiers that changed; {} if identical; None otherwise.  A changed
    function, method, field, macro, type or path name is NOT a renaming (`min` -> `max` changes behaviour)."""
    a = sig(lex(old))
    b = sig(lex(new))
    if len(a) != len(b):
        return None
    fwd = {}
    bwd = {}
    for x, y in zip(a, b):
        if x.kind != y.kind:
            return None
        if x.kind != "ident":
            if x.text != y.text:
                return None
            continue
        if fwd.get(x.text, y.text) != y.text or bwd.get(y.text, x.text) != x.text:
            return None
        fwd[x.text] = y.text
        bwd[y.text] = x.text
    ren = {k: v for k, v in fwd.items() if k != v}
    for k, v in ren.items():
        if not _local_like(a, k) or not _local_like(b, v):
            return None
    return ren


def alpha_map_tolerant(old, new):
    """like alpha_map, for a source that was ALSO edited elsewhere (statements added, moved, reworded): the two token streams are
    aligned (difflib); an identifier pair (x, y) found at corresponding positions of equally long replaced runs is a renaming
    if x is local-like in `old` and no longer occurs in `new`, y is local-like in `new` and did not occur in `old`, and the pairing
    is one-to-one.  Returns the (possibly empty) map; never None."""
    import difflib
    a = sig(lex(old))
    b = sig(lex(new))
    ta = [t.text for t in a]
    tb = [t.text for t in b]
    def free_idents(ts):
        return set(t.text for i, t in enumerate(ts) if t.kind == "ident" and not (i > 0 and ts[i - 1].text == "." and not (i > 1 and ts[i - 2].text == ".")))
    in_a = free_idents(a)
    in_b = free_idents(b)
    votes = {}
    sm = difflib.SequenceMatcher(None, ta, tb, autojunk=False)
    for tag, i1, i2, j1, j2 in sm.get_opcodes():
        if tag != "replace" or (i2 - i1) != (j2 - j1):
            continue
        for k in range(i2 - i1):
            x, y = a[i1 + k], b[j1 + k]
            if x.kind == "ident" and y.kind == "ident" and x.text != y.text:
                votes.setdefault(x.text, {}).setdefault(y.text, 0)
                votes[x.text][y.text] += 1
    ren = {}
    used = {}
    for x, ys in votes.items():
        if len(ys) != 1:
            continue
        y = next(iter(ys))
        if x in in_b or y in in_a:
            continue
        if not _local_like(a, x) or not _local_like(b, y):
            continue
        if y in used:
            ren.pop(used[y], None)
            continue
        used[y] = x
        ren[x] = y
    return ren


def rename_idents(text, ren):
    if not ren or text is None:
        return text
    toks = lex(text)
    out = []
    prev_sig = None
    for t in toks:
        # an identifier right after `.` is a field or method name, never a local or parameter: left alone
        if t.kind == "ident" and t.text in ren and not (prev_sig is not None and prev_sig.text == "."):
            out.append(ren[t.text])
        else:
            out.append(t.text)
        if t.kind not in ("ws", "comment", "space", "newline") and t.text.strip():
            prev_sig = t
    return "".join(out)


class ItemSpec:
    def __init__(self, line_no):
        self.line_no = line_no
        self.path = None
        self.container = None
        self.kind = None
        self.name = None
        self.ret = None
        self.substs = []
        self.spans = []
        self.rules = []
        self.splices = []  # (kind, arg, nth, text_lines)
        self.prefix = ""
        self.noprobe = False
        self.tags = None
        self.region = None  # dict(from=(kind,anchor), to=(kind,anchor), sig=str, epilogue=str)


class Unit:
    def __init__(self, path):
        self.path = path
        self.name = None
        self.props = []
        self.verus_args = []
        self.config = []
        self.gsubsts = []
        self.rules_from = []
        self.parts = []  # ('raw', text) | ('item', ItemSpec)
        self._parse()

    def _parse(self):
        cur = None
        cur_splice = None
        raw = []
        with open(self.path) as f:
            lines = f.read().split("\n")
        # `//@ include <file>`: the file's lines (raw text and directives alike) are spliced in place, recursively
        def expand(ls, depth=0):
            out_ = []
            for l in ls:
                st_ = l.strip()
                if st_.startswith("//@") and st_[3:].strip().startswith("include "):
                    inc = os.path.join(os.path.dirname(self.path), st_[3:].strip()[len("include "):].strip())
                    if depth > 8:
                        raise UnitError("include nesting too deep: %s" % inc)
                    with open(inc) as f2:
                        out_.append("// vx-include %s" % os.path.basename(inc))
                        out_ += expand(f2.read().split("\n"), depth + 1)
                    continue
                out_.append(l)
            return out_
        lines = expand(lines)
        for ln, line in enumerate(lines, 1):
            s = line.strip()
            if not s.startswith("//@"):
                if cur is None:
                    raw.append(line)
                elif cur_splice is not None:
                    cur_splice[3].append(line)
                elif s:
                    raise UnitError("%s:%d: text inside extract block outside a splice" % (self.path, ln))
                continue
            d = s[3:].strip()
            if not d:
                continue
            word = d.split()[0]
            rest = d[len(word):].strip()
            if cur is None:
                if word == "unit":
                    self.name = rest
                elif word == "props":
                    self.props = rest.split()
                elif word == "verus-args":
                    self.verus_args += rest.split()
                elif word == "config":
                    self.config += rest.split()
                elif word == "rules-from":
                    self.rules_from += rest.split()
                elif word == "gsubst":
                    self.gsubsts.append(self._parse_subst(rest, ln))
                elif word == "include":
                    inc = os.path.join(os.path.dirname(self.path), rest)
                    with open(inc) as f2:
                        raw.append("// vx-include %s" % rest)
                        raw.append(f2.read())
                elif word == "extract":
                    if raw:
                        self.parts.append(("raw", "\n".join(raw)))
                        raw = []
                    cur = ItemSpec(ln)
                    m = _bt.search(rest)
                    if m:
                        cur.container = m.group(1)
                        rest = rest[:m.start()].replace(" in ", " ").strip() + " " + rest[m.end():].strip()
                    w = rest.split()
                    if len(w) != 3:
                        raise UnitError("%s:%d: bad extract directive" % (self.path, ln))
                    cur.path, cur.kind, cur.name = w
                    cur_splice = None
                else:
                    raise UnitError("%s:%d: unknown directive %s" % (self.path, ln, word))
                continue
            # inside an extract block
            if word == "end":
                self.parts.append(("item", cur))
                cur = None
                cur_splice = None
            elif word == "ret":
                cur.ret = rest
            elif word in ("from", "from-after", "to", "to-before", "block"):
                m = _bt.search(rest)
                if not m:
                    raise UnitError("%s:%d: anchor needs backticks" % (self.path, ln))
                cur.region = cur.region or {}
                nth = 0
                m2 = re.search(r"#(\d+)\s*$", rest[m.end():])
                if m2:
                    nth = int(m2.group(1))
                cur.region["from" if word.startswith("from") or word == "block" else "to"] = (word, m.group(1), nth)
            elif word == "sig":
                m = _bt.search(rest)
                cur.region = cur.region or {}
                cur.region["sig"] = m.group(1)
            elif word == "epilogue":
                m = _bt.search(rest)
                cur.region = cur.region or {}
                cur.region["epilogue"] = m.group(1)
            elif word == "replace-span":
                ms = list(_bt.finditer(rest))
                if len(ms) < 3:
                    raise UnitError("%s:%d: replace-span needs `from` `to` `replacement`" % (self.path, ln))
                why = rest[ms[2].end():].strip().lstrip(":").strip()
                cur.spans.append((ms[0].group(1), ms[1].group(1), ms[2].group(1), why))
            elif word in ("subst", "optsubst"):
                a, b, why = self._parse_subst(rest, ln)
                cur.substs.append((a, b, why, word == "subst"))
            elif word == "rules":
                cur.rules += rest.split()
            elif word == "noprobe":
                cur.noprobe = True
            elif word == "contract":
                cur_splice = ["contract", None, 1, []]
                cur.splices.append(cur_splice)
            elif word == "body-start":
                cur_splice = ["body-start", None, 1, []]
                cur.splices.append(cur_splice)
            elif word == "prefix":
                cur_splice = ["prefix", None, 1, []]
                cur.splices.append(cur_splice)
            elif word == "loop":
                cur_splice = ["loop", int(rest), 1, []]
                cur.splices.append(cur_splice)
            elif word in ("before", "after"):
                m = _bt.search(rest)
                if not m:
                    raise UnitError("%s:%d: anchor needs backticks" % (self.path, ln))
                nth = 0
                m2 = re.search(r"#(\d+)\s*$", rest[m.end():])
                if m2:
                    nth = int(m2.group(1))
                cur_splice = [word, m.group(1), nth, []]
                cur.splices.append(cur_splice)
            else:
                raise UnitError("%s:%d: unknown directive %s" % (self.path, ln, word))
        if cur is not None:
            raise UnitError("%s: unterminated extract block" % self.path)
        if raw:
            self.parts.append(("raw", "\n".join(raw)))
        if not self.name:
            raise UnitError("%s: missing //@ unit" % self.path)

    def _parse_subst(self, rest, ln):
        ms = list(_bt.finditer(rest))
        if len(ms) < 2:
            raise UnitError("%s:%d: subst needs two backticked strings" % (self.path, ln))
        why = rest[ms[1].end():].strip()
        if why.startswith("::"):
            why = why[2:].strip()
        return ms[0].group(1), ms[1].group(1), why

    # ------------------------------------------------------------------------------------------------------------
    def item_key(self, spec):
        return "%s|%s|%s|%s" % (spec.path, spec.container or "", "fn" if spec.kind == "region" else spec.kind, spec.name)

    def source_items(self, repo):
        """{item key: source text} of every extracted item (the baseline that hints are written against)"""
        out = {}
        for kind, spec in self.parts:
            if kind != "item":
                continue
            it = find_item(repo, spec.path, "fn" if spec.kind == "region" else spec.kind, spec.name, spec.container)
            out[self.item_key(spec)] = it.text
        return out

    def _load_baseline(self):
        if getattr(self, "_baseline", None) is None:
            import json
            p = os.path.join(os.path.dirname(os.path.dirname(os.path.abspath(self.path))), "baseline", self.name + ".json")
            try:
                with open(p) as f:
                    self._baseline = json.load(f)
            except (OSError, ValueError):
                self._baseline = {}
        return self._baseline

    def generate(self, repo, probe=False, drop=(), inline=(), shift=None, skip_asserts=None, iso_off=()):
        """returns (text, info) ; info lists functions under contract, rules fired, splice ids.
        drop: splice ids (proof hints) to leave out.
        inline: names of helper functions that are not part of the unit (an edit extracted them out of an item under contract):
        rule R9h (vxlib/autohelper.py) puts their bodies back at the call sites before every other rewrite."""
        import copy
        out = []
        info = {"items": [], "splices": [], "alpha_renamed": {}, "dropped_hints": sorted(drop)}
        self._last_info = info      # R9h: what was inlined / refused stays readable when generation fails half-way
        self._drop = set(drop)
        # hint relocation (driver, only on edited sources): {splice id: k} places a before/after hint k statements later (k > 0) or
        # earlier (k < 0) than its anchor says; a hint is proof text that the verifier checks wherever it stands
        self._shift = dict(shift or {})
        # {generated item id@@path: ordinals of debug assertions an edit ADDED that are erased instead of checked (driver decides)}
        self._skip_asserts = dict(skip_asserts or {})
        # generated item ids whose loops are verified WITHOUT loop isolation (they see the facts established before them): the driver
        # asks for it only on an edited item, so that a value an edit hoisted into a local before a loop needs no new invariant
        self._iso_off = set(iso_off or ())
        base = self._load_baseline()
        for kind, part in self.parts:
            if kind == "raw":
                out.append(part)
                continue
            spec = part
            log = {}
            it = find_item(repo, spec.path, "fn" if spec.kind == "region" else spec.kind, spec.name, spec.container)
            # --- R9h begin: helpers an edit extracted out of this item are inlined back, on the RAW source text
            src_text = it.text
            if inline and spec.kind in ("fn", "region"):
                from . import autohelper
                src_text = autohelper.inline_item(repo, spec.path, spec.container, it.text, [n_ for n_ in inline if n_ not in self.config], log, info, self.item_key(spec), region=(spec.kind == "region"), baseline=base.get(self.item_key(spec)))
            # --- R9h end (below, `src_text` stands where `it.text` stood)
            # proof text is written against the baseline source; if the current source is the baseline with locals/parameters
            # consistently renamed, the unit's text for this item is alpha-renamed to follow it
            btxt = base.get(self.item_key(spec))
            if btxt is not None and btxt != src_text:
                ren = alpha_map(btxt, src_text)
                if ren is None:
                    ren = alpha_map_tolerant(btxt, src_text)
                if ren:
                    spec = copy.deepcopy(spec)
                    spec.ret = spec.ret
                    spec.substs = [(rename_idents(a, ren), rename_idents(b, ren), w, m) for a, b, w, m in spec.substs]
                    spec.spans = [(rename_idents(a, ren), rename_idents(b, ren), rename_idents(r_, ren), w) for a, b, r_, w in spec.spans]
                    spec.splices = [[sp[0], rename_idents(sp[1], ren) if isinstance(sp[1], str) else sp[1], sp[2], [rename_idents(l, ren) for l in sp[3]]] for sp in spec.splices]
                    if spec.region:
                        rg = dict(spec.region)
                        for k_ in ("from", "to"):
                            if k_ in rg:
                                rg[k_] = (rg[k_][0], rename_idents(rg[k_][1], ren), rg[k_][2])
                        for k_ in ("sig", "epilogue"):
                            if k_ in rg:
                                rg[k_] = rename_idents(rg[k_], ren)
                        spec.region = rg
                    info["alpha_renamed"][self.item_key(spec)] = ren
            if spec.kind == "region":
                text = self._lift_region(src_text, spec, log)
            else:
                text = src_text
            text = rw.r10_decoration(text, log)
            text = rw.r1_async(text, log)
            _rules = all_rules(self.name, self.rules_from)
            for r in spec.rules:                       # rules marked `vx_pre` run before the always-on log erasure
                fn = _rules.get(r)
                if fn is not None and getattr(fn, "vx_pre", False):
                    text = fn(text, log)
            text = rw.r3_logs(text, log)
            _sid = "%s/%s" % (self.name, (spec.container + "::" if spec.container else "") + spec.name + (("#" + spec.region.get("name", "region")) if spec.kind == "region" else ""))
            text = rw.r2_asserts(text, log, skip_ordinals=set((getattr(self, "_skip_asserts", None) or {}).get(_sid + "@@" + spec.path, ())))
            text = rw.r6_config(text, set(self.config), log)
            for r in spec.rules:
                fn = all_rules(self.name, self.rules_from).get(r)
                if fn is None:
                    raise UnitError("unknown rule %s" % r)
                if getattr(fn, "vx_pre", False):
                    continue
                text = fn(text, log)
            for a, b, why in self.gsubsts:
                text = rw.subst(text, a, b, log, must=False)
            for a, b, rep, why in spec.spans:
                text = rw.replace_span(text, a, b, rep, log)
            for a, b, why, must in spec.substs:
                # a substitution whose source text is gone (the statement was edited) is skipped and recorded: whatever it would
                # have replaced is then submitted to the verifier as written, which either copes with it or reports that it cannot
                before_ = text
                text = rw.subst(text, a, b, log, must=False, unify=bool(must))
                if must and text == before_ and not rw.find_seq(sig(lex(text)), [t.text for t in sig(lex(b))]):
                    info.setdefault("substs_not_applied", []).append("%s: `%s`" % (self.item_key(spec), a))
            if spec.ret and spec.kind in ("fn",):
                text = rw.r13_name_ret(text, spec.ret, log)
            sid_base = "%s/%s" % (self.name, (spec.container + "::" if spec.container else "") + spec.name)
            n_probe = 0
            if spec.kind == "region":
                sid_base = "%s/%s" % (self.name, (spec.container + "::" if spec.container else "") + spec.name + "#" + spec.region.get("name", "region"))
            if src_text is not it.text and src_text != it.text:
                info.setdefault("inlined_items", []).append(sid_base)      # R9h: ids of the items that had a helper inlined
            if spec.kind in ("fn", "region"):
                text, n_probe = self._splice_fn(text, spec, sid_base, info, probe and not spec.noprobe)
            if spec.kind in ("fn", "region") and not probe and sid_base in self._iso_off and re.search(r"\b(while|for|loop)\b", text) and "{" in text \
                    and not text.startswith("#[verifier::loop_isolation(false)]"):
                text = "#[verifier::loop_isolation(false)]\n" + text
                log["loops verified without loop isolation (edited item, driver retry)"] = 1
            if spec.kind in ("fn", "region") and os.environ.get("VX_LOOP_ISO", "1") == "0" and re.search(r"\b(while|for|loop)\b", text) and "{" in text:
                # loops see the facts established before them (unmodified variables keep what is known about them): an edit
                # that introduces a local before a loop then does not need a new invariant clause
                text = "#[verifier::loop_isolation(false)]\n" + text
            if spec.kind in ("fn", "region") and not probe and self.item_key(spec) in info.get("inlined_loop_needs_context", []) and not text.startswith("#[verifier::loop_isolation(false)]"):
                # R9h: a loop came back from a helper whose PARAMETER names differ from the baseline's variable names: the invariants
                # speak about the baseline names, the parameter bindings `let p: T = a;` sit in front of the loop - the loop must see them.
                # (Only more facts for the solver; not in the probe file, where an earlier `assert(false)` would then hide the loop probes.)
                text = "#[verifier::loop_isolation(false)]\n" + text
                log["R9h loop sees the parameter bindings (loop_isolation(false))"] = 1
            a, b = it.line_span()
            sha = hashlib.sha256(it.text.encode()).hexdigest()[:16]
            header = "// vx-item %s @ %s:%d-%d sha256=%s rules=[%s]\n" % (sid_base, spec.path, a, b, sha, "; ".join("%s x%d" % kv for kv in sorted(log.items())))
            out.append(header + text + "\n// vx-end")
            info["items"].append({"id": sid_base, "kind": "fn" if spec.kind == "region" else spec.kind, "region": spec.kind == "region", "path": spec.path, "lines": [a, b], "sha256": sha, "rules": log,
                                  "has_contract": any(s[0] == "contract" for s in spec.splices), "probes": n_probe,
                                  "substs": [{"from": x[0], "to": x[1], "why": x[2]} for x in spec.substs]
                                            + [{"from": "%s ... %s" % (x[0], x[1]), "to": x[2], "why": x[3]} for x in spec.spans]})
        return "\n".join(out) + "\n", info

    def _lift_region(self, fn_text, spec, log):
        """R8: statements between two anchors of a function (or the contents of one block) become the body of a function
        whose signature the unit supplies; the region text is untouched, the optional epilogue is the only generated text."""
        rg = spec.region or {}
        if "from" not in rg or "sig" not in rg:
            raise UnitError("region %s needs from/block and sig" % spec.name)
        st = sig(lex(fn_text))
        # R9h: tokens that helper inlining generated (block braces, parameter bindings) are not occurrences of an anchor
        from .autohelper import generated_token_indices
        gen_ = generated_token_indices(fn_text)

        def locate(anchor, nth):
            pat = [t.text for t in sig(lex(anchor))]
            hits = [h_ for h_ in rw.find_seq(st, pat) if not any(k_ in gen_ for k_ in range(h_, h_ + len(pat)))]
            if nth == 0 and len(hits) != 1:
                # the anchored statement was edited (or duplicated): the region boundary is the place the baseline source's
                # anchor aligns with (token alignment); a region is only ever the real statements between two boundaries, so a
                # boundary found this way changes which real statements are checked, never what they say
                m = self._align_anchor(st, pat, spec)
                if m is not None:
                    log["R8 region anchor re-located by alignment with the baseline"] = log.get("R8 region anchor re-located by alignment with the baseline", 0) + 1
                    return m
            if (nth == 0 and len(hits) != 1) or len(hits) < max(nth, 1):
                raise UnitError("region anchor `%s` matches %d times in %s" % (anchor, len(hits), spec.name))
            h = hits[max(nth, 1) - 1]
            return h, h + len(pat) - 1
        kind, anchor, nth = rg["from"]
        a0, a1 = locate(anchor, nth)
        if kind == "block":
            if st[a1].text != "{":
                raise UnitError("block anchor must end with `{`")
            c = match_close(st, a1)
            start, end = st[a1].end, st[c].start
        else:
            start = st[a0].start if kind == "from" else st[a1].end
            if "to" not in rg:
                raise UnitError("region %s needs to/to-before" % spec.name)
            kind2, anchor2, nth2 = rg["to"]
            b0, b1 = locate(anchor2, nth2)
            end = st[b1].end if kind2 == "to" else st[b0].start
        if end < start:
            raise UnitError("region %s: end before start" % spec.name)
        body = fn_text[start:end]
        epi = rg.get("epilogue", "")
        if "$tail" in epi:
            # the region ends in a tail expression (e.g. a closure's value): it is cut off mechanically and placed where the
            # epilogue says `$tail`
            bst = sig(lex(body))
            k = len(bst) - 1
            depth = 0
            cut = None
            while k >= 0:
                t = bst[k]
                if t.kind == "punct" and t.text in ")]}":
                    depth += 1
                elif t.kind == "punct" and t.text in "([{":
                    depth -= 1
                elif t.text == ";" and depth == 0:
                    cut = t.end
                    break
                k -= 1
            if cut is None:
                cut = 0
            tail = body[cut:].strip()
            if not tail:
                raise UnitError("region %s: no tail expression for $tail" % spec.name)
            body = body[:cut]
            rg = dict(rg)
            rg["epilogue"] = epi.replace("$tail", tail)
            spec.region["name"] = spec.region.get("name", "region")
        log["R8 region-lift"] = 1
        m = re.search(r"fn\s+([A-Za-z_0-9]+)", rg["sig"])
        spec.region["name"] = m.group(1) if m else "region"
        return "%s {\n%s\n%s\n}" % (rg["sig"], body, rg.get("epilogue", ""))

    def _align_anchor(self, st, pat, spec):
        """(first, last) token index in `st` of the place where the baseline's unique occurrence of `pat` aligns; both ends must map"""
        btxt = self._load_baseline().get(self.item_key(spec))
        if btxt is None:
            return None
        import difflib
        bt = [t.text for t in sig(lex(btxt))]
        bh = [i for i in range(len(bt) - len(pat) + 1) if bt[i:i + len(pat)] == pat]
        if len(bh) != 1:
            return None
        ct = [t.text for t in st]
        sm = difflib.SequenceMatcher(None, bt, ct, autojunk=False)
        blocks = sm.get_matching_blocks()

        def mp(i):
            for a, b, n in blocks:
                if a <= i < a + n:
                    return b + (i - a)
            return None
        first = mp(bh[0])
        last = mp(bh[0] + len(pat) - 1)
        if first is None:
            # the statement's first token was edited: fall back to the token after the last aligned token before it
            k = bh[0] - 1
            while k >= 0 and mp(k) is None:
                k -= 1
            first = mp(k) + 1 if k >= 0 else None
        if last is None:
            k = bh[0] + len(pat)
            while k < len(bt) and mp(k) is None:
                k += 1
            last = mp(k) - 1 if k < len(bt) else None
        if first is None or last is None or last < first:
            return None
        return first, last

    def _disambiguate(self, st, pat, hits, spec):
        btxt = self._load_baseline().get(self.item_key(spec))
        if btxt is None:
            return None
        import difflib
        bt = [t.text for t in sig(lex(btxt))]
        bh = [i for i in range(len(bt) - len(pat) + 1) if bt[i:i + len(pat)] == pat]
        if len(bh) != 1:
            return None
        ct = [t.text for t in st]
        sm = difflib.SequenceMatcher(None, bt, ct, autojunk=False)
        for a, b, n in sm.get_matching_blocks():
            if a <= bh[0] and bh[0] + len(pat) <= a + n:
                tgt = b + (bh[0] - a)
                for h in hits:
                    if h[0] == tgt:
                        return h
        return None

    def _splice_fn(self, text, spec, sid_base, info, probe):
        """all splice positions are computed on the same (rewritten) text, then applied together"""
        st = sig(lex(text))
        # body open
        j = 0
        while j < len(st):
            t = st[j]
            if t.kind == "punct" and t.text in "([":
                j = match_close(st, j) + 1
                continue
            if t.text == "{" or t.text == ";":
                break
            j += 1
        if j >= len(st):
            raise UnitError("%s: no body" % sid_base)
        if st[j].text == ";":
            # a bodiless trait method: only a contract can be spliced (before the `;`)
            outp = text
            for sp in spec.splices:
                if sp[0] != "contract":
                    raise UnitError("%s: only `contract` applies to a bodiless method" % sid_base)
                sid = sid_base + "/contract"
                info["splices"].append(sid)
                outp = outp[:st[j].start] + "/*+vx:%s*/\n%s\n/*-vx*/ " % (sid, "\n".join(sp[3])) + outp[st[j].start:]
            return outp, 0
        body_open = j
        body_close = match_close(st, j)
        # loops, in order of appearance
        loops = []
        k = body_open + 1
        while k < body_close:
            t = st[k]
            if t.kind == "ident" and t.text in ("for", "while", "loop"):
                # skip `for<'a>` HRTB (never in bodies here)
                m = k + 1
                while m < body_close:
                    if st[m].kind == "punct" and st[m].text in "([":
                        m = match_close(st, m) + 1
                        continue
                    if st[m].text == "{":
                        break
                    m += 1
                loops.append(m)
            k += 1
        inserts = []  # (offset, order, text)
        order = 0
        n_probe = 0
        for sp in spec.splices:
            kind, arg, nth, lines = sp
            body = "\n".join(lines)
            order += 1
            if kind == "contract":
                sid = sid_base + "/contract"
                pos = st[body_open].start
            elif kind == "body-start":
                sid = sid_base + "/body-start"
                pos = st[body_open].end
            elif kind == "prefix":
                sid = sid_base + "/prefix"
                pos = 0
            elif kind == "loop":
                if arg < 1 or arg > len(loops):
                    raise UnitError("%s: loop %d not found (function has %d loops)" % (sid_base, arg, len(loops)))
                sid = sid_base + "/loop%d" % arg
                pos = st[loops[arg - 1]].start
            else:
                pat = [t.text for t in sig(lex(arg))]
                hits = [(h, h + len(pat) - 1) for h in rw.find_seq(st, pat) if h > body_open]
                if not hits and nth == 0:
                    # approximate anchor: a splice is only ever a proof hint or ghost code, every bit of which is itself
                    # checked by the verifier, so placing it next to a slightly edited statement cannot make a false
                    # proof go through; it keeps the obligations decidable when the anchored statement itself was changed.
                    # First choice: the place the baseline source's statement aligns with; second: a unique near match.
                    m_ = self._align_anchor(st, pat, spec)
                    if m_ is not None and m_[0] > body_open and m_[1] < body_close:
                        hits = [m_]
                        # the aligned statement is the anchor with identifiers renamed (token for token): the hint follows that
                        # LOCAL renaming (a name may be renamed differently in different branches, which no global map expresses)
                        new_toks = st[m_[0]:m_[1] + 1]
                        if len(new_toks) == len(pat):
                            loc_ren = {}
                            okr = True
                            for a_, b_ in zip(pat, new_toks):
                                if a_ == b_.text:
                                    continue
                                if b_.kind != "ident" or not re.match(r"^[A-Za-z_][A-Za-z_0-9]*$", a_) or loc_ren.get(a_, b_.text) != b_.text:
                                    okr = False
                                    break
                                loc_ren[a_] = b_.text
                            if okr and loc_ren:
                                body = rename_idents(body, loc_ren)
                                info.setdefault("alpha_renamed", {}).setdefault(sid_base + " (hint at `%s`)" % arg, {}).update(loc_ren)
                    else:
                        hits = fuzzy_find(st, pat, body_open, body_close)
                        if len(hits) > 1:
                            hits = []
                    if len(hits) == 1:
                        info.setdefault("approx_anchors", []).append("%s: `%s`" % (sid_base, arg))
                # an anchor without explicit #n must be unique
                if len(hits) == 0:
                    # the anchored statement is gone: the hint is dropped (it can only make a proof fail, never pass) and the
                    # fact is recorded; obligations that verified on the unchanged tree and now fail are still reported
                    info.setdefault("lost_anchors", []).append("%s: `%s`" % (sid_base, arg))
                    continue
                if nth == 0 and len(hits) > 1:
                    # the statement was unique when the hint was written and the edited source now has it several times:
                    # pick the occurrence that the baseline source aligns with (token alignment), and record the fact
                    pick = self._disambiguate(st, pat, hits, spec)
                    if pick is not None:
                        hits = [pick]
                        info.setdefault("approx_anchors", []).append("%s: `%s` (disambiguated against baseline)" % (sid_base, arg))
                if (nth == 0 and len(hits) != 1) or len(hits) < nth:
                    raise UnitError("%s: anchor `%s` matches %d times" % (sid_base, arg, len(hits)))
                nth = max(nth, 1)
                h, hend = hits[nth - 1]
                sid = sid_base + "/%s:%s#%d" % (kind, arg, nth)
                pos = st[h].start if kind == "before" else st[hend].end
                k_ = getattr(self, "_shift", {}).get(sid, 0)
                if k_:
                    pos2 = _shifted_pos(st, h, hend, kind, k_, body_open, body_close)
                    if pos2 is None:
                        raise UnitError("%s: cannot move the hint by %d statement(s)" % (sid, k_))
                    pos = pos2
                    info.setdefault("relocated", []).append("%s by %+d" % (sid, k_))
            if sid in getattr(self, "_drop", ()):
                continue
            info["splices"].append(sid)
            inserts.append((pos, order, "/*+vx:%s*/\n%s\n/*-vx*/ " % (sid, body)))
        if probe:
            inserts.append((st[body_open].end, -1, " /*+vx:%s/probe*/ assert(false); /*-vx*/ " % sid_base))
            n_probe += 1
            for li, m in enumerate(loops, 1):
                inserts.append((st[m].end, -1, " /*+vx:%s/probe-loop%d*/ assert(false); /*-vx*/ " % (sid_base, li)))
                n_probe += 1
        inserts.sort(key=lambda x: (x[0], x[1]))
        outp = []
        posn = 0
        for pos, _, txt in inserts:
            outp.append(text[posn:pos])
            outp.append(txt)
            posn = pos
        outp.append(text[posn:])
        return "".join(outp), n_probe



def _stmt_end(st, i, lo, hi):
    """token index of the last token of the statement that starts at or contains token i (at the nesting level of i): the next `;`
    at depth 0, or the `}` that closes a block-like statement (if/for/while/loop/match/unsafe/plain block) when what follows does
    not continue the expression; None if the enclosing block ends first"""
    depth = 0
    j = i
    while j < hi:
        t = st[j]
        if t.kind == "punct" and t.text in "([{":
            c = match_close(st, j)
            if t.text == "{" and depth == 0:
                nxt = st[c + 1].text if c + 1 < hi else "}"
                if nxt not in ("else", ".", "?", ";", ")", ",", "as", "=", "+", "-", "*", "/", "&", "|", "<", ">") :
                    return c
            j = c + 1
            continue
        if t.kind == "punct" and t.text in ")]}":
            return None
        if t.text == ";":
            return j
        j += 1
    return None


def _stmt_start_before(st, i, lo):
    """token index of the first token of the statement that ends right before token i; None at the start of the block"""
    j = i - 1
    if j <= lo:
        return None
    if st[j].text == "{":
        return None
    # step over the statement's own terminator
    if st[j].text == ";":
        j -= 1
    depth = 0
    while j > lo:
        t = st[j]
        if t.kind == "punct" and t.text in ")]}":
            depth += 1
        elif t.kind == "punct" and t.text in "([{":
            if depth == 0:
                return j + 1
            depth -= 1
        elif t.text == ";" and depth == 0:
            return j + 1
        j -= 1
    return None


def _shifted_pos(st, h, hend, kind, k, body_open, body_close):
    """character position for a before/after hint moved k statements; None if it cannot be moved that far inside its block"""
    if k > 0:
        # first statement to step over: for `before` the anchored statement itself, for `after` the one following it
        e = hend if st[hend].text == ";" else _stmt_end(st, hend, body_open, body_close)
        if e is None:
            return None
        n = k if kind == "after" else k - 1
        for _ in range(n):
            e2 = _stmt_end(st, e + 1, body_open, body_close) if e + 1 < body_close else None
            if e2 is None:
                return None
            e = e2
        return st[e].end
    k = -k
    b = h
    n = k - 1 if kind == "after" else k
    for _ in range(n):
        b2 = _stmt_start_before(st, b, body_open)
        if b2 is None:
            return None
        b = b2
    return st[b].start


def _lev(a, b):
    prev = list(range(len(b) + 1))
    for i, x in enumerate(a, 1):
        cur = [i]
        for j, y in enumerate(b, 1):
            cur.append(min(prev[j] + 1, cur[j - 1] + 1, prev[j - 1] + (0 if x == y else 1)))
        prev = cur
    return prev[-1]


def fuzzy_find(st, pat, lo, hi):
    """windows of the body whose token edit distance to the anchor is minimal and at most max(1, len/5); returns
    [(start,end)] of the distinct best positions (distinct start tokens)."""
    n = len(pat)
    maxd = max(1, n // 5)
    best = None
    cands = {}
    texts = [t.text for t in st]
    for i in range(lo + 1, hi):
        if texts[i] != pat[0] and (i + 1 >= hi or n < 2 or texts[i + 1] != pat[1]):
            continue  # an approximate match must still start at (or next to) the anchor's first token
        for L in range(max(1, n - maxd), n + maxd + 1):
            if i + L > hi:
                break
            d = _lev(texts[i:i + L], pat)
            if d > maxd:
                continue
            key = i
            if key not in cands or (d, abs(L - n)) < cands[key][0]:
                cands[key] = ((d, abs(L - n)), (i, i + L - 1))
    if not cands:
        return []
    dmin = min(v[0][0] for v in cands.values())
    return [v[1] for v in cands.values() if v[0][0] == dmin]


_CORE = None
_EXTRA = None


import threading
_RULES_LOCK = threading.Lock()


def _load_rules():
    global _CORE, _EXTRA
    with _RULES_LOCK:
        if _CORE is None or _EXTRA is None:
            core = {"R4a": rw.r4a_enumerate, "R4c": rw.r4c_rangefrom, "R5": rw.r5_refpattern, "R14": rw.r14_mut_self,
                    "R4b": rw.r4b_array_for, "R4e": rw.r4e_enumerate_skip, "R4f": rw.r4f_iter_for, "R4g": rw.r4g_slice_for,
                    "R12": rw.r12_tryinto_usize, "R15": rw.r15_cfg_test, "R4w": rw.r4w_iter_take_while}
            extra = {}
            import importlib
            import glob as _g
            d = os.path.join(os.path.dirname(os.path.abspath(__file__)), "rules_extra")
            for p in sorted(_g.glob(os.path.join(d, "*.py"))):
                name = os.path.basename(p)[:-3]
                if name.startswith("_"):
                    continue
                try:
                    mod = importlib.import_module("vxlib.rules_extra." + name)
                except Exception as e:  # a rule module that does not import only disables its own rules
                    import sys as _s
                    _s.stderr.write("warning: rules_extra/%s.py not loaded: %s\n" % (name, e))
                    continue
                extra[name] = dict(getattr(mod, "RULES", {}))
            _EXTRA = extra
            _CORE = core
    return _CORE, _EXTRA


def all_rules(unit_name=None, prefer=()):
    """Rule resolution for one unit.  Names may be qualified (`ujoin.R17`).  A bare name resolves, in this order, to: the
    extra-rule modules the unit names with `//@ rules-from`, the module whose file name matches the unit name
    (U-JOIN -> ujoin.py / join.py, U-RECONPLAN -> recon.py), the core catalogue, and finally an extra rule if exactly one module
    exports that name."""
    core, extra = _load_rules()
    out = {}
    for m, rs in extra.items():
        for k, f in rs.items():
            out["%s.%s" % (m, k)] = f
    counts = {}
    for m, rs in extra.items():
        for k in rs:
            counts.setdefault(k, []).append(m)
    for k, ms in counts.items():
        if len(ms) == 1:
            out[k] = extra[ms[0]][k]
    out.update(core)
    pref = list(prefer)
    if unit_name:
        base = unit_name.lower()
        if base.startswith("u-"):
            base = base[2:]
        base = base.replace("-", "")
        for m in extra:
            if m == base or m == "u" + base or base.startswith(m) or ("u" + base).startswith(m):
                pref.append(m)
    for m in reversed(pref):
        if m in extra:
            out.update(extra[m])
    return out
