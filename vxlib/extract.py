"""Locate items (fn / struct / enum / const / impl / trait / type) in Rust source by path and return their text.

Nothing here interprets Rust beyond bracket matching over the token stream of lexer.py.
"""
from .lexer import lex, sig, Tok

OPEN = {"(": ")", "[": "]", "{": "}"}
CLOSE = {")", "]", "}"}


class ExtractError(Exception):
    pass


def match_close(st, i):
    """st: significant tokens; st[i] is an opening bracket; return index of its partner."""
    depth = 0
    want = []
    for j in range(i, len(st)):
        t = st[j].text
        if st[j].kind == "punct":
            if t in OPEN:
                want.append(OPEN[t])
            elif t in CLOSE:
                if not want or want[-1] != t:
                    raise ExtractError("bracket mismatch near offset %d" % st[j].start)
                want.pop()
                if not want:
                    return j
    raise ExtractError("unclosed bracket at offset %d" % st[i].start)


def find_body_open(st, i):
    """from token index i (an item keyword) find the first `{` or `;` at paren/bracket depth 0."""
    depth = 0
    j = i
    while j < len(st):
        t = st[j]
        if t.kind == "punct":
            if t.text in "([":
                j = match_close(st, j)
            elif t.text == "{" or t.text == ";":
                return j
        j += 1
    raise ExtractError("no body found")


QUALS = {"pub", "async", "const", "unsafe", "extern", "default"}


def item_start(st, k):
    """walk back from keyword index k over qualifiers like `pub(crate) async`."""
    s = k
    while s > 0:
        p = st[s - 1]
        if p.kind == "ident" and p.text in QUALS:
            s -= 1
            continue
        if p.kind == "punct" and p.text == ")":
            # pub(crate) / pub(super)
            # find matching '('
            depth = 0
            j = s - 1
            while j >= 0:
                if st[j].text == ")":
                    depth += 1
                elif st[j].text == "(":
                    depth -= 1
                    if depth == 0:
                        break
                j -= 1
            if j >= 1 and st[j - 1].text == "pub":
                s = j - 1
                continue
        if p.kind == "str" and s >= 2 and st[s - 2].text == "extern":
            s -= 2
            continue
        break
    return s


def attrs_start(st, s):
    """walk back over `#[...]` attributes preceding token index s; returns new start index"""
    while s >= 2 and st[s - 1].text == "]":
        depth = 0
        j = s - 1
        while j >= 0:
            if st[j].text == "]":
                depth += 1
            elif st[j].text == "[":
                depth -= 1
                if depth == 0:
                    break
            j -= 1
        if j >= 1 and st[j - 1].text == "#":
            s = j - 1
        else:
            break
    return s


class Item:
    def __init__(self, path, kind, name, src, start, end, attrs_start_off, body_open, body_close, header_start):
        self.path = path
        self.kind = kind
        self.name = name
        self.src = src
        self.start = start  # offset of first qualifier token
        self.end = end  # offset one past closing brace / semicolon
        self.attrs_start = attrs_start_off
        self.body_open = body_open  # offset of `{` (or of `;`)
        self.body_close = body_close
        self.header_start = header_start

    @property
    def text(self):
        return self.src[self.start:self.end]

    def line_span(self):
        a = self.src.count("\n", 0, self.start) + 1
        b = self.src.count("\n", 0, self.end) + 1
        return a, b


def _scan_items(src, st, lo, hi, path, container, out):
    """collect items between significant-token indices [lo,hi) at this nesting level."""
    i = lo
    while i < hi:
        t = st[i]
        if t.kind == "ident" and t.text in ("fn", "struct", "enum", "trait", "impl", "mod", "const", "static", "type", "union"):
            kw = t.text
            # `const fn` / `const` qualifiers: treat const followed by fn as qualifier
            if kw == "const" and i + 1 < hi and st[i + 1].text in ("fn", "unsafe", "async", "extern"):
                i += 1
                continue
            # `impl Trait` in argument position never occurs at item level; `fn` pointer types neither
            s = item_start(st, i)
            a = attrs_start(st, s)
            b = find_body_open(st, i)
            if st[b].text == ";":
                e = b
            else:
                e = match_close(st, b)
            if kw == "impl":
                header = [x.text for x in st[i:b]]
                name = " ".join(header)
            elif kw == "mod":
                name = st[i + 1].text
            else:
                name = st[i + 1].text
            it = Item(path, kw, name, src, st[s].start, st[e].end, st[a].start, st[b].start, st[e].start, st[i].start)
            it.container = container
            it.tok_range = (s, e)
            out.append(it)
            if kw in ("impl", "trait", "mod") and st[b].text == "{":
                _scan_items(src, st, b + 1, e, path, (container + [name]), out)
            i = e + 1
            continue
        if t.kind == "punct" and t.text in OPEN:
            i = match_close(st, i) + 1
            continue
        # macro invocations like lazy_static! { ... } are skipped by the bracket rule above
        i += 1


_cache = {}


def items_of(repo, relpath):
    key = (repo, relpath)
    if key not in _cache:
        with open("%s/%s" % (repo, relpath)) as f:
            src = f.read()
        st = sig(lex(src))
        out = []
        _scan_items(src, st, 0, len(st), relpath, [], out)
        _cache[key] = (src, out)
    return _cache[key]


def norm(s):
    return " ".join(x.text for x in sig(lex(s)))


def find_item(repo, relpath, kind, name, container=None):
    src, items = items_of(repo, relpath)
    cands = []
    for it in items:
        if it.kind != kind:
            continue
        if kind == "impl":
            if norm(it.name) != norm("impl " + name if not name.startswith("impl") else name):
                continue
        elif it.name != name:
            continue
        if container is not None:
            if not it.container or norm(it.container[-1]) != norm(container):
                continue
        else:
            # top level or inside mod only (not tests)
            if it.container and any(c == "tests" for c in it.container):
                continue
            if kind == "fn" and it.container and any(norm(c).startswith("impl") or norm(c).startswith("trait") for c in it.container[-1:]) and False:
                continue
        cands.append(it)
    if container is None and kind == "fn":
        # prefer free functions when no container is given
        free = [c for c in cands if not c.container or not (norm(c.container[-1]).startswith("impl"))]
        if free:
            cands = free
    if len(cands) != 1:
        raise ExtractError("%s: %s %s%s: %d matches" % (relpath, kind, name, (" in " + container) if container else "", len(cands)))
    return cands[0]
