"""A small Rust-aware lexer: enough to find items, match braces and do token-level rewrites.

Token = (kind, text, start, end) where kind in
  'ws' 'comment' 'ident' 'lifetime' 'char' 'str' 'num' 'punct'
Positions are byte offsets into the source string.  Joining the texts of all tokens gives the source
back exactly (lossless), which the self-check in unit generation relies on.
"""
import re
from collections import namedtuple

Tok = namedtuple("Tok", "kind text start end")

_ident = re.compile(r"[A-Za-z_][A-Za-z0-9_]*")
_num = re.compile(r"0x[0-9a-fA-F_]+[A-Za-z0-9_]*|0b[01_]+[A-Za-z0-9_]*|0o[0-7_]+[A-Za-z0-9_]*|[0-9][0-9_]*(\.[0-9][0-9_]*)?([eE][+-]?[0-9_]+)?[A-Za-z0-9_]*")
_ws = re.compile(r"\s+")


class LexError(Exception):
    pass


def lex(src):
    toks = []
    i = 0
    n = len(src)
    while i < n:
        c = src[i]
        m = _ws.match(src, i)
        if m:
            toks.append(Tok("ws", m.group(0), i, m.end()))
            i = m.end()
            continue
        if src.startswith("//", i):
            j = src.find("\n", i)
            if j < 0:
                j = n
            toks.append(Tok("comment", src[i:j], i, j))
            i = j
            continue
        if src.startswith("/*", i):
            depth = 1
            j = i + 2
            while j < n and depth > 0:
                if src.startswith("/*", j):
                    depth += 1
                    j += 2
                elif src.startswith("*/", j):
                    depth -= 1
                    j += 2
                else:
                    j += 1
            if depth != 0:
                raise LexError("unterminated block comment at %d" % i)
            toks.append(Tok("comment", src[i:j], i, j))
            i = j
            continue
        # raw strings / byte strings
        m = re.match(r"(br|rb|r)(#*)\"", src[i:i + 40])
        if m and (i == 0 or not (src[i - 1].isalnum() or src[i - 1] == "_")):
            hashes = m.group(2)
            close = "\"" + hashes
            j = src.find(close, i + len(m.group(0)))
            if j < 0:
                raise LexError("unterminated raw string at %d" % i)
            j += len(close)
            toks.append(Tok("str", src[i:j], i, j))
            i = j
            continue
        if c == "\"" or (c == "b" and src.startswith("b\"", i)):
            j = i + (2 if c == "b" else 1)
            while j < n:
                if src[j] == "\\":
                    j += 2
                    continue
                if src[j] == "\"":
                    break
                j += 1
            if j >= n:
                raise LexError("unterminated string at %d" % i)
            j += 1
            toks.append(Tok("str", src[i:j], i, j))
            i = j
            continue
        if c == "'" or (c == "b" and src.startswith("b'", i)):
            k = i + (1 if c == "b" else 0)
            # char literal or lifetime
            m = re.match(r"'(\\x[0-9a-fA-F]{2}|\\u\{[0-9a-fA-F_]+\}|\\.|[^\\'])'", src[k:k + 16])
            if m:
                j = k + len(m.group(0))
                toks.append(Tok("char", src[i:j], i, j))
                i = j
                continue
            m2 = _ident.match(src, k + 1)
            if m2 and c == "'":
                toks.append(Tok("lifetime", src[i:m2.end()], i, m2.end()))
                i = m2.end()
                continue
            raise LexError("bad quote at %d" % i)
        m = _ident.match(src, i)
        if m:
            # r#ident
            toks.append(Tok("ident", m.group(0), i, m.end()))
            i = m.end()
            continue
        if c.isdigit():
            m = _num.match(src, i)
            text = m.group(0)
            # do not swallow `1..2` or `1.method()`
            if "." in text:
                dot = text.index(".")
                after = text[dot + 1:dot + 2]
                if not after.isdigit():
                    text = text[:dot]
            j = i + len(text)
            # "1..": regex requires digit after '.', so fine
            toks.append(Tok("num", text, i, j))
            i = j
            continue
        toks.append(Tok("punct", c, i, i + 1))
        i += 1
    return toks


def sig(toks):
    """significant tokens (no whitespace, no comments)"""
    return [t for t in toks if t.kind not in ("ws", "comment")]


def texts(s):
    return [t.text for t in sig(lex(s))]
