"""Run Verus on a generated unit file and turn its output into obligations / failures."""
import json
import os
import re
import shutil
import subprocess
import time

VERUS = shutil.which("verus") or "/usr/local/bin/verus"


def run_verus(path, args, log_air=False, timeout=1800, multiple_errors=40):
    d = os.path.dirname(path)
    cmd = [VERUS, os.path.basename(path), "--output-json", "--time", "--error-format=json", "--multiple-errors", str(multiple_errors)] + list(args)
    logdir = None
    if log_air:
        logdir = path + ".log"
        shutil.rmtree(logdir, ignore_errors=True)
        cmd += ["--log", "air", "--log-dir", logdir]
    t0 = time.time()
    try:
        p = subprocess.run(cmd, cwd=d, capture_output=True, text=True, timeout=timeout)
        out, err, rc = p.stdout, p.stderr, p.returncode
    except subprocess.TimeoutExpired as e:
        out, err, rc = (e.stdout or ""), (e.stderr or ""), -9
        if isinstance(out, bytes):
            out = out.decode("utf8", "replace")
        if isinstance(err, bytes):
            err = err.decode("utf8", "replace")
    wall = time.time() - t0
    res = {"cmd": " ".join(cmd), "rc": rc, "wall_s": wall, "diagnostics": [], "raw_stderr": "", "json": None, "timeout": rc == -9}
    try:
        res["json"] = json.loads(out) if out.strip() else None
    except Exception:
        res["json"] = None
    raw = []
    for line in err.split("\n"):
        s = line.strip()
        if s.startswith("{"):
            try:
                res["diagnostics"].append(json.loads(s))
                continue
            except Exception:
                pass
        if s:
            raw.append(line)
    res["raw_stderr"] = "\n".join(raw)
    if logdir:
        res["air_counts"] = count_air(os.path.join(logdir, "root.air"))
        shutil.rmtree(logdir, ignore_errors=True)
    return res


_fd = re.compile(r"^;; Function-(?:Def|Recommend|Proof|Decl|Specs|Axioms|Termination)\S* (\S+)")
_lbl = re.compile(r'^\s*\("([^"]*)"')


def count_air(path):
    """number of labelled assertion sites per function in Verus' AIR log (each is one proof obligation)"""
    counts = {}
    if not os.path.exists(path):
        return counts
    cur = None
    pending = False
    with open(path) as f:
        for line in f:
            m = _fd.match(line)
            if m:
                cur = m.group(1)
                continue
            if cur is None:
                continue
            s = line.strip()
            if s == "(assert" or s.startswith("(assert "):
                pending = True
                m2 = re.search(r'\(assert\s+\("([^"]*)"', s)
                if m2:
                    counts.setdefault(cur, {}).setdefault(m2.group(1), 0)
                    counts[cur][m2.group(1)] += 1
                    pending = False
                continue
            if pending:
                m2 = _lbl.match(line)
                if m2:
                    counts.setdefault(cur, {}).setdefault(m2.group(1), 0)
                    counts[cur][m2.group(1)] += 1
                pending = False
    return counts


def function_results(j):
    """{function name: {success, time_ms, rlimit, mode}} from --output-json --time"""
    out = {}
    if not j:
        return out
    for mod in j.get("times-ms", {}).get("smt", {}).get("smt-run-module-times", []):
        for fb in mod.get("function-breakdown", []):
            name = fb["function"]
            r = out.setdefault(name, {"success": True, "time_ms": 0, "rlimit": 0, "mode": fb.get("mode:", fb.get("mode", ""))})
            r["success"] = r["success"] and bool(fb.get("success", False))
            r["time_ms"] += fb.get("time", 0)
            r["rlimit"] += fb.get("rlimit", 0)
    return out


def errors_of(res):
    """verification errors (not compile errors) as dicts: message, primary span, secondary spans"""
    errs = []
    compile_errs = []
    for d in res["diagnostics"]:
        if d.get("level") != "error":
            continue
        msg = d.get("message", "")
        if msg.startswith("aborting due to"):
            continue
        spans = d.get("spans", [])
        e = {"message": msg, "spans": [{"line_start": s["line_start"], "line_end": s["line_end"], "primary": s["is_primary"], "label": s.get("label"),
                                         "text": " ".join(t["text"].strip() for t in s.get("text", []))[:400]} for s in spans],
             "notes": [c.get("message", "") for c in d.get("children", [])]}
        if is_verification_message(msg):
            errs.append(e)
        else:
            compile_errs.append(e)
    return errs, compile_errs


_VER_MSG = ("postcondition not satisfied", "precondition not satisfied", "assertion failed", "invariant not satisfied",
            "possible arithmetic underflow/overflow", "possible division by zero", "decreases not satisfied",
            "loop invariant", "could not prove termination", "recommendation not met", "possible bit shift underflow/overflow",
            "unable to prove assertion safety condition", "assertion not satisfied", "index out of bounds", "cannot show invariant holds",
            "trigger", "Resource limit (rlimit) exceeded", "while loop: not all errors may have been reported", "possible truncation",
            "constructed value may fail to meet its declared type invariant", "split", "failed this", "could not show termination",
            "function body check: not all errors may have been reported", "bitvector", "nonlinear", "assert_by", "possible", "unable to prove")


def is_verification_message(msg):
    return any(k in msg for k in _VER_MSG)


def is_rlimit(e):
    m = e["message"]
    return "Resource limit" in m or "not all errors may have been reported" in m


def errors_of_all(res):
    """every error-level diagnostic of a run whose JSON says verification (not compilation) failed"""
    errs = []
    for d in res["diagnostics"]:
        if d.get("level") != "error":
            continue
        msg = d.get("message", "")
        if msg.startswith("aborting due to"):
            continue
        spans = d.get("spans", [])
        errs.append({"message": msg, "spans": [{"line_start": s["line_start"], "line_end": s["line_end"], "primary": s["is_primary"], "label": s.get("label"),
                                                 "text": " ".join(t["text"].strip() for t in s.get("text", []))[:400]} for s in spans],
                     "notes": [c.get("message", "") for c in d.get("children", [])]})
    return errs
