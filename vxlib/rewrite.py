"""The fixed rewrite catalogue (DESIGN.md section 2.2).  Every rule is syntactic, works on the token stream of one
extracted item, and reports how many times it fired.  Nothing here touches arithmetic, conditions, indices,
field updates or call order.
"""
import re
from .lexer import lex, sig
from .extract import match_close, ExtractError


class RewriteError(Exception):
    pass


def apply_edits(text, edits):
    """edits: list of (start, end, replacement) with non-overlapping spans"""
    edits = sorted(edits, key=lambda e: (e[0], e[1]))
    out = []
    pos = 0
    for s, e, r in edits:
        if s < pos:
            raise RewriteError("overlapping edits")
        out.append(text[pos:s])
        out.append(r)
        pos = e
    out.append(text[pos:])
    return "".join(out)


def split_args(st, o, c):
    """top-level comma separated argument token ranges between st[o]=='(' and st[c]==')' (exclusive)."""
    args = []
    j = o + 1
    start = j
    while j < c:
        t = st[j]
        if t.kind == "punct" and t.text in "([{":
            j = match_close(st, j) + 1
            continue
        if t.kind == "punct" and t.text == "," :
            args.append((start, j))
            start = j + 1
        # closures `|a, b| ...` : commas inside pipes would be split wrongly; none occur in assertion macros
        j += 1
    if start < c:
        args.append((start, c))
    return args


def span_text(text, st, a, b):
    """text of tokens st[a:b]"""
    if a >= b:
        return ""
    return text[st[a].start:st[b - 1].end]


def find_seq(st, pat, start=0):
    """indices i where st[i:i+len(pat)] texts equal pat"""
    out = []
    n = len(pat)
    for i in range(start, len(st) - n + 1):
        ok = True
        for k in range(n):
            if st[i + k].text != pat[k]:
                ok = False
                break
        if ok:
            out.append(i)
    return out


# ------------------------------------------------------------------------------------------------------------------
# R10 decoration: drop attributes, doc comments, visibility

def r10_decoration(text, log):
    toks = lex(text)
    edits = []
    n = 0
    # comments: all comments are dropped (doc comments and ordinary comments carry no semantics)
    for t in toks:
        if t.kind == "comment":
            edits.append((t.start, t.end, " " if t.text.startswith("/*") else ""))
    st = sig(toks)
    i = 0
    while i < len(st):
        t = st[i]
        if t.text == "#" and i + 1 < len(st) and st[i + 1].text in ("[", "!"):
            j = i + 1
            if st[j].text == "!":
                j += 1
            c = match_close(st, j)
            inner = " ".join(x.text for x in st[j + 1:c])
            if inner.startswith("cfg ( debug_assertions )") or inner.startswith("cfg ( test )") or inner.startswith("cfg ("):
                # handled by R2 / left for rustc to complain about
                i = c + 1
                continue
            edits.append((st[i].start, st[c].end, ""))
            n += 1
            i = c + 1
            continue
        if t.kind == "ident" and t.text == "pub":
            e = t.end
            if i + 1 < len(st) and st[i + 1].text == "(":
                c = match_close(st, i + 1)
                e = st[c].end
                i = c
            edits.append((t.start, e, ""))
            n += 1
        i += 1
    if n:
        log["R10 decoration"] = log.get("R10 decoration", 0) + n
    return apply_edits(text, edits)


# ------------------------------------------------------------------------------------------------------------------
# R1 async erasure

def r1_async(text, log):
    st = sig(lex(text))
    edits = []
    n = 0
    for i, t in enumerate(st):
        if t.kind == "ident" and t.text == "async" and i + 1 < len(st) and st[i + 1].text in ("fn", "unsafe"):
            edits.append((t.start, t.end, ""))
            n += 1
        if t.text == "." and i + 1 < len(st) and st[i + 1].text == "await":
            edits.append((t.start, st[i + 1].end, ""))
            n += 1
    if n:
        log["R1 async-erasure"] = log.get("R1 async-erasure", 0) + n
    return apply_edits(text, edits)


# ------------------------------------------------------------------------------------------------------------------
# R2 debug assertions -> proof obligations; assert! -> abort-if-false

_CMP = {"debug_assert_eq": "==", "debug_assert_ne": "!=", "debug_assert_le": "<=", "debug_assert_lt": "<",
        "debug_assert_ge": ">=", "debug_assert_gt": ">",
        "assert_eq": "==", "assert_ne": "!=", "assert_le": "<=", "assert_lt": "<", "assert_ge": ">=", "assert_gt": ">"}


def r2_asserts(text, log, skip_ordinals=()):
    """`skip_ordinals`: 0-based ordinals (in source order, counted over the debug_assert*! macros of this item) of debug assertions
    that are NOT turned into obligations but erased - used by the driver only for a debug assertion that an edit ADDED (absent from the
    generated baseline) and that cannot be stated in spec mode or cannot be proved: a debug assertion is not part of release builds,
    and erasing it (unlike a failed `assert`, which the verifier assumes afterwards) assumes nothing."""
    n_debug_seen = 0
    changed = True
    while changed:
        changed = False
        st = sig(lex(text))
        for i, t in enumerate(st):
            if t.kind != "ident" or i + 2 >= len(st) or st[i + 1].text != "!" or st[i + 2].text != "(":
                continue
            name = t.text
            if name not in _CMP and name not in ("debug_assert", "assert"):
                continue
            o = i + 2
            c = match_close(st, o)
            args = split_args(st, o, c)
            if name in ("debug_assert", "assert"):
                if len(args) < 1:
                    raise RewriteError("assert without argument")
                e = span_text(text, st, *args[0])
            else:
                if len(args) < 2:
                    raise RewriteError("%s needs two arguments" % name)
                e = "(%s) %s (%s)" % (span_text(text, st, *args[0]), _CMP[name], span_text(text, st, *args[1]))
            if name.startswith("debug_"):
                if n_debug_seen in skip_ordinals:
                    rep = "{ /* vx-skipped-new-debug-assert */ }"
                    key = "R2s new debug assertion erased (not checked)"
                else:
                    rep = "assert(%s)" % e
                    key = "R2 debug-assert -> obligation"
                n_debug_seen += 1
            else:
                rep = "if !(%s) { vx_abort(); }" % e
                key = "R2b assert! -> abort-if-false"
                # swallow a trailing `;`
            end = st[c].end
            if not name.startswith("debug_") and c + 1 < len(st) and st[c + 1].text == ";":
                end = st[c + 1].end
            text = text[:t.start] + rep + text[end:]
            log[key] = log.get(key, 0) + 1
            changed = True
            break
    # #[cfg(debug_assertions)] { ... }  -> keep block, drop attribute
    st = sig(lex(text))
    edits = []
    for i in find_seq(st, ["#", "[", "cfg", "(", "debug_assertions", ")", "]"]):
        edits.append((st[i].start, st[i + 6].end, ""))
        log["R2 cfg(debug_assertions) block kept"] = log.get("R2 cfg(debug_assertions) block kept", 0) + 1
    return apply_edits(text, edits)


# ------------------------------------------------------------------------------------------------------------------
# R3 log erasure

_LOG_MACROS = {"debug", "info", "warn", "error", "trace"}
_LOG_ADAPTORS = {"log_error", "debug_error", "info_error", "warn_error", "debug_none", "info_none", "warn_none", "error_none"}


def r3_logs(text, log):
    st = sig(lex(text))
    edits = []
    n = 0
    i = 0
    while i < len(st):
        t = st[i]
        if t.kind == "ident" and t.text in _LOG_MACROS and i + 2 < len(st) and st[i + 1].text == "!" and st[i + 2].text == "(":
            # optional path prefix: `tracing::debug!(..)`, `log::warn!(..)`
            s0 = i
            while s0 >= 3 and st[s0 - 1].text == ":" and st[s0 - 2].text == ":" and st[s0 - 3].kind == "ident":
                s0 -= 3
            prev = st[s0 - 1].text if s0 > 0 else "{"
            c = match_close(st, i + 2)
            if prev in ("{", ";", "}") and c + 1 < len(st) and st[c + 1].text == ";":
                edits.append((st[s0].start, st[c + 1].end, ""))
                n += 1
                i = c + 2
                continue
        if t.text == "." and i + 2 < len(st) and st[i + 1].text in _LOG_ADAPTORS and st[i + 2].text == "(":
            c = match_close(st, i + 2)
            edits.append((t.start, st[c].end, ""))
            n += 1
            i = c + 1
            continue
        i += 1
    if n:
        log["R3 log-erasure"] = log.get("R3 log-erasure", 0) + n
    return apply_edits(text, edits)


# ------------------------------------------------------------------------------------------------------------------
# R6 configuration constants: `*NAME` -> `NAME()`

def r6_config(text, names, log):
    """`*NAME` -> `NAME()` in executable code, `spec_NAME()` inside a proof `assert(..)` produced by R2"""
    if not names:
        return text
    st = sig(lex(text))
    edits = []
    n = 0
    # token index ranges that are inside `assert ( ... )`
    spec_ranges = []
    for i, t in enumerate(st):
        if t.kind == "ident" and t.text == "assert" and i + 1 < len(st) and st[i + 1].text == "(" and (i == 0 or st[i - 1].text != "!"):
            spec_ranges.append((i + 1, match_close(st, i + 1)))
    for i, t in enumerate(st):
        if t.text == "*" and i + 1 < len(st) and st[i + 1].kind == "ident" and st[i + 1].text in names:
            prev = st[i - 1] if i > 0 else None
            if prev is not None and (prev.kind in ("ident", "num") and prev.text not in ("return", "in", "as", "if", "else", "match") or prev.text in (")", "]")):
                continue
            in_spec = any(a < i < b for a, b in spec_ranges)
            edits.append((t.start, st[i + 1].end, ("spec_%s()" if in_spec else "%s()") % st[i + 1].text))
            n += 1
    if n:
        log["R6 config-constant"] = log.get("R6 config-constant", 0) + n
    return apply_edits(text, edits)


# ------------------------------------------------------------------------------------------------------------------
# R4 loop desugarings

def _stmt_for_header(st, i):
    """st[i] == 'for'; returns (in_idx, body_open_idx)"""
    j = i + 1
    in_idx = None
    while j < len(st):
        t = st[j]
        if t.kind == "punct" and t.text in "([":
            j = match_close(st, j) + 1
            continue
        if t.kind == "ident" and t.text == "in" and in_idx is None:
            in_idx = j
        if t.text == "{":
            return in_idx, j
        j += 1
    raise RewriteError("for without body")


def r4a_enumerate(text, log):
    """for (i, x) in E.iter().enumerate() { B }  ->  for i in 0..E.len() { let x = &E[i]; B }"""
    while True:
        st = sig(lex(text))
        done = True
        for i, t in enumerate(st):
            if t.kind == "ident" and t.text == "for" and st[i + 1].text == "(":
                in_idx, b = _stmt_for_header(st, i)
                pc = match_close(st, i + 1)
                if pc + 1 != in_idx:
                    continue
                pat = split_args(st, i + 1, pc)
                if len(pat) != 2:
                    continue
                if [x.text for x in st[b - 8:b]] != [".", "iter", "(", ")", ".", "enumerate", "(", ")"]:
                    continue
                e_txt = span_text(text, st, in_idx + 1, b - 8)
                iv = span_text(text, st, *pat[0])
                xv = span_text(text, st, *pat[1])
                new_head = "for %s in 0..%s.len() { let %s = &%s[%s];" % (iv, e_txt, xv, e_txt, iv)
                text = text[:t.start] + new_head + text[st[b].end:]
                log["R4a enumerate -> index loop"] = log.get("R4a enumerate -> index loop", 0) + 1
                done = False
                break
        if done:
            return text


def r4c_rangefrom(text, log):
    """for i in A.. { B }  (no `continue` in B)  ->  { let mut i = A; loop { B; i += 1; } }"""
    while True:
        st = sig(lex(text))
        done = True
        for i, t in enumerate(st):
            if t.kind == "ident" and t.text == "for":
                in_idx, b = _stmt_for_header(st, i)
                if in_idx is None or in_idx != i + 2:
                    continue
                if [x.text for x in st[b - 2:b]] != [".", "."]:
                    continue
                c = match_close(st, b)
                body_toks = [x.text for x in st[b + 1:c]]
                if "continue" in body_toks:
                    raise RewriteError("R4c: `continue` inside RangeFrom loop")
                iv = st[i + 1].text
                a_txt = span_text(text, st, in_idx + 1, b - 2)
                body = text[st[b].end:st[c].start]
                new = "{ let mut %s = %s; loop /*vx-loop*/ {%s %s += 1; } }" % (iv, a_txt, body, iv)
                text = text[:t.start] + new + text[st[c].end:]
                log["R4c RangeFrom -> loop"] = log.get("R4c RangeFrom -> loop", 0) + 1
                done = False
                break
        if done:
            return text


def r5_refpattern(text, log):
    """`Some(&x) = e` in if-let / while-let  ->  `Some(x) = e` plus `let x = *x;` at the start of the block"""
    while True:
        st = sig(lex(text))
        done = True
        for i in find_seq(st, ["Some", "(", "&"]):
            if st[i + 3].kind != "ident" or st[i + 4].text != ")" or st[i + 5].text != "=":
                continue
            if st[i - 1].text != "let":
                continue
            x = st[i + 3].text
            # find the block `{` of the if-let
            j = i + 6
            while j < len(st):
                if st[j].kind == "punct" and st[j].text in "([":
                    j = match_close(st, j) + 1
                    continue
                if st[j].text == "{":
                    break
                j += 1
            text = text[:st[i + 2].start] + text[st[i + 2].end:st[j].end] + " let %s = *%s;" % (x, x) + text[st[j].end:]
            log["R5 ref-pattern"] = log.get("R5 ref-pattern", 0) + 1
            done = False
            break
        if done:
            return text


# ------------------------------------------------------------------------------------------------------------------
# unit-local substitutions (R11 type paths, R7 outlines): token-sequence replace, every use is listed in evidence

def subst(text, frm, to, log, must=True, unify=False):
    pat = [t.text for t in sig(lex(frm))]
    st = sig(lex(text))
    hits = find_seq(st, pat)
    if not hits:
        # the same statement with only the TEXT of string literals reworded (an error / log message): still the statement the
        # substitution was written for, provided the replacement does not mention those literals
        lits = [x for x in pat if len(x) >= 2 and x[0] == '"' and x[-1] == '"']
        if lits and not any(l in to for l in lits):
            n = len(pat)
            for i in range(0, len(st) - n + 1):
                if all((st[i + k].text == pat[k]) or (pat[k] in lits and len(st[i + k].text) >= 2 and st[i + k].text[0] == '"' and st[i + k].text[-1] == '"') for k in range(n)):
                    hits.append(i)
            if hits:
                log["subst matched with reworded string literal(s)"] = log.get("subst matched with reworded string literal(s)", 0) + len(hits)
    per_hit_to = {}
    if not hits and unify and len(pat) >= 8:
        # the same statement with LOCAL names changed that no global renaming expresses (a shadowed variable renamed differently at its
        # two bindings): identifiers of the pattern that no longer occur anywhere in the item, and that are not callee / path / field /
        # macro names, unify with whatever identifier stands there (consistently within one match); the replacement follows
        present = set(t.text for t in st)
        import re as _re
        var = set()
        for k, x in enumerate(pat):
            if _re.match(r"^[a-z_][a-z_0-9]*$", x) and x not in present and x not in ("self", "mut", "let", "ref", "move", "as", "in", "if", "else", "match", "return"):
                nxt = pat[k + 1] if k + 1 < len(pat) else ""
                prv = pat[k - 1] if k > 0 else ""
                if nxt in ("(", "!", "::") or (nxt == ":" and k + 2 < len(pat) and pat[k + 2] == ":") or prv in (".", "::") or (prv == ":" and k > 1 and pat[k - 2] == ":"):
                    continue
                var.add(x)
        lits = [x for x in pat if len(x) >= 2 and x[0] == '"' and x[-1] == '"' and x not in to]
        if var:
            n = len(pat)
            for i in range(0, len(st) - n + 1):
                bind = {}
                ok = True
                for k in range(n):
                    a, b = pat[k], st[i + k]
                    if a in var:
                        if b.kind != "ident" or bind.get(a, b.text) != b.text or (b.text in present and b.text in pat):
                            ok = False
                            break
                        bind[a] = b.text
                    elif a == b.text or (a in lits and len(b.text) >= 2 and b.text[0] == '"' and b.text[-1] == '"'):
                        continue
                    else:
                        ok = False
                        break
                if ok and len(set(bind.values())) == len(bind):
                    hits.append(i)
                    per_hit_to[i] = "".join(bind.get(t.text, t.text) if t.kind == "ident" else t.text for t in lex(to))
            if hits:
                log["subst matched with locally renamed identifier(s)"] = log.get("subst matched with locally renamed identifier(s)", 0) + len(hits)
    if not hits:
        if must:
            raise RewriteError("substitution source not found: `%s`" % frm)
        return text
    edits = []
    last_end = -1
    for i in hits:
        if st[i].start < last_end:
            continue
        edits.append((st[i].start, st[i + len(pat) - 1].end, per_hit_to.get(i, to)))
        last_end = st[i + len(pat) - 1].end
    key = "subst `%s` => `%s`" % (frm, to)
    log[key] = log.get(key, 0) + len(edits)
    return apply_edits(text, edits)


# ------------------------------------------------------------------------------------------------------------------
# R13 name the return value

def r13_name_ret(text, name, log):
    st = sig(lex(text))
    # signature: up to the first `{` at paren depth 0
    j = 0
    arrow = None
    while j < len(st):
        t = st[j]
        if t.kind == "punct" and t.text in "([":
            j = match_close(st, j) + 1
            continue
        if t.text == "-" and j + 1 < len(st) and st[j + 1].text == ">":
            arrow = j
        if t.text in ("{", ";") or (t.kind == "ident" and t.text == "where"):
            break
        j += 1
    if arrow is None:
        return text
    ty = text[st[arrow + 2].start:st[j - 1].end]
    new = "-> (%s: %s) " % (name, ty)
    log["R13 name-result"] = log.get("R13 name-result", 0) + 1
    return text[:st[arrow].start] + new + text[st[j - 1].end:]


def r14_mut_self(text, log):
    """fn f(mut self, ..) { B }  ->  fn f(self, ..) { let mut vx_self = self; B[self := vx_self] }   (alpha renaming)"""
    st = sig(lex(text))
    hits = find_seq(st, ["(", "mut", "self"])
    if not hits:
        return text
    i = hits[0]
    # body open
    j = 0
    while j < len(st):
        t = st[j]
        if t.kind == "punct" and t.text in "([":
            j = match_close(st, j) + 1
            continue
        if t.text == "{":
            break
        j += 1
    edits = [(st[i + 1].start, st[i + 1].end, "")]
    edits.append((st[j].end, st[j].end, " let mut vx_self = self;"))
    for k in range(j + 1, len(st)):
        if st[k].kind == "ident" and st[k].text == "self":
            edits.append((st[k].start, st[k].end, "vx_self"))
    log["R14 mut-self"] = log.get("R14 mut-self", 0) + 1
    return apply_edits(text, edits)


# ------------------------------------------------------------------------------------------------------------------
# R4b/R4e/R4f/R4g: `for` loops over arrays / slices become `while` loops over an index (Verus for-loops have no
# `continue`, no array IntoIter, no ref patterns).  The element binding and the index increment are the first statements
# of the body, so `continue` and `break` inside B keep their meaning.

def _fresh(text, base):
    k = 1
    while "%s%d" % (base, k) in text:
        k += 1
    return "%s%d" % (base, k)


def _for_loops(st):
    for i, t in enumerate(st):
        if t.kind == "ident" and t.text == "for" and (i == 0 or st[i - 1].text not in ("impl", "<", ",")):
            try:
                in_idx, b = _stmt_for_header(st, i)
            except RewriteError:
                continue
            if in_idx is None:
                continue
            yield i, in_idx, b


def r4b_array_for(text, log):
    """for x in [a, b, ..] { B }  ->  { let vx_arr = [a, b, ..]; let mut vx_n = 0; while vx_n < N { let x = vx_arr[vx_n]; vx_n += 1; B } }"""
    while True:
        st = sig(lex(text))
        done = True
        for i, in_idx, b in _for_loops(st):
            if st[in_idx + 1].text != "[" or match_close(st, in_idx + 1) != b - 1:
                continue
            args = split_args(st, in_idx + 1, b - 1)
            pat = span_text(text, st, i + 1, in_idx)
            arr = text[st[in_idx + 1].start:st[b - 1].end]
            c = match_close(st, b)
            n = _fresh(text, "vx_n")
            a = _fresh(text, "vx_arr")
            body = text[st[b].end:st[c].start]
            new = "{ let %s = %s; let mut %s = 0; while %s < %d { let %s = %s[%s]; %s += 1; %s} }" % (a, arr, n, n, len(args), pat, a, n, n, body)
            text = text[:st[i].start] + new + text[st[c].end:]
            log["R4b array-for -> while"] = log.get("R4b array-for -> while", 0) + 1
            done = False
            break
        if done:
            return text


def _tail_is(st, b, pat):
    return [x.text for x in st[b - len(pat):b]] == pat


def r4e_enumerate_skip(text, log):
    """for (i, x) in E.iter().enumerate().skip(K) { B } -> { let mut vx_n = K; while vx_n < E.len() { let i = vx_n; let x = &E[i]; vx_n += 1; B } }
    (also without .skip: K = 0)"""
    while True:
        st = sig(lex(text))
        done = True
        for i, in_idx, b in _for_loops(st):
            if st[i + 1].text != "(":
                continue
            pc = match_close(st, i + 1)
            if pc + 1 != in_idx:
                continue
            pat = split_args(st, i + 1, pc)
            if len(pat) != 2:
                continue
            k_txt = "0"
            e_end = None
            if st[b - 1].text == ")" and True:
                # find `.skip(` ... `)` at the tail
                o = None
                depth = 0
                for j in range(b - 1, in_idx, -1):
                    if st[j].text == ")":
                        depth += 1
                    elif st[j].text == "(":
                        depth -= 1
                        if depth == 0:
                            o = j
                            break
                if o is not None and st[o - 1].text == "skip" and st[o - 2].text == "." and _tail_is(st, o - 2, [".", "iter", "(", ")", ".", "enumerate", "(", ")"]):
                    k_txt = span_text(text, st, o + 1, b - 1)
                    e_end = o - 2 - 8
                elif _tail_is(st, b, [".", "iter", "(", ")", ".", "enumerate", "(", ")"]):
                    e_end = b - 8
            if e_end is None:
                continue
            e_txt = span_text(text, st, in_idx + 1, e_end)
            iv = span_text(text, st, *pat[0])
            xv = span_text(text, st, *pat[1])
            c = match_close(st, b)
            n = _fresh(text, "vx_n")
            body = text[st[b].end:st[c].start]
            new = "{ let mut %s = %s; while %s < %s.len() { let %s = %s; let %s = &%s[%s]; %s += 1; %s} }" % (n, k_txt, n, e_txt, iv, n, xv, e_txt, iv, n, body)
            text = text[:st[i].start] + new + text[st[c].end:]
            log["R4e enumerate[.skip] -> while"] = log.get("R4e enumerate[.skip] -> while", 0) + 1
            done = False
            break
        if done:
            return text


def r4f_iter_for(text, log):
    """for &x in E.iter() { B }  -> index while loop with `let x = E[n];`
       for x in E.iter() { B } / for x in &E { B } -> index while loop with `let x = &E[n];`"""
    while True:
        st = sig(lex(text))
        done = True
        for i, in_idx, b in _for_loops(st):
            deref = False
            if st[i + 1].text == "&" and in_idx == i + 3:
                deref = True
                xv = st[i + 2].text
            elif in_idx == i + 2 and st[i + 1].kind == "ident":
                xv = st[i + 1].text
            else:
                continue
            if _tail_is(st, b, [".", "iter", "(", ")"]):
                e_txt = span_text(text, st, in_idx + 1, b - 4)
            elif st[in_idx + 1].text == "&" and st[in_idx + 2].text != "mut":
                e_txt = span_text(text, st, in_idx + 2, b)
            else:
                continue
            if not e_txt or ".." in e_txt:
                continue
            c = match_close(st, b)
            n = _fresh(text, "vx_n")
            body = text[st[b].end:st[c].start]
            bind = "let %s = %s[%s];" % (xv, e_txt, n) if deref else "let %s = &%s[%s];" % (xv, e_txt, n)
            new = "{ let mut %s = 0; while %s < %s.len() { %s %s += 1; %s} }" % (n, n, e_txt, bind, n, body)
            text = text[:st[i].start] + new + text[st[c].end:]
            log["R4f iter-for -> while"] = log.get("R4f iter-for -> while", 0) + 1
            done = False
            break
        if done:
            return text


def r4g_slice_for(text, log):
    """for x in S { B }  where S is a plain identifier naming a `&[T]` (enable per item only where that is the case)
       -> { let mut vx_n = 0; while vx_n < S.len() { let x = &S[vx_n]; vx_n += 1; B } }"""
    while True:
        st = sig(lex(text))
        done = True
        for i, in_idx, b in _for_loops(st):
            if in_idx != i + 2 or b != in_idx + 2 or st[i + 1].kind != "ident" or st[in_idx + 1].kind != "ident":
                continue
            xv = st[i + 1].text
            e_txt = st[in_idx + 1].text
            c = match_close(st, b)
            n = _fresh(text, "vx_n")
            body = text[st[b].end:st[c].start]
            new = "{ let mut %s = 0; while %s < %s.len() { let %s = &%s[%s]; %s += 1; %s} }" % (n, n, e_txt, xv, e_txt, n, n, body)
            text = text[:st[i].start] + new + text[st[c].end:]
            log["R4g slice-for -> while"] = log.get("R4g slice-for -> while", 0) + 1
            done = False
            break
        if done:
            return text


# ------------------------------------------------------------------------------------------------------------------
# R15: `#[cfg(test)] <field-init or statement>` is dropped, `#[cfg(not(test))]` is resolved to the plain item
# (the verified text is the non-test build).

def r15_cfg_test(text, log):
    while True:
        st = sig(lex(text))
        hits = find_seq(st, ["#", "[", "cfg", "(", "test", ")", "]"])
        if not hits:
            break
        i = hits[0]
        # the attributed thing ends at the next `,` or `;` at depth 0, or at a matching brace block
        j = i + 7
        end = None
        while j < len(st):
            t = st[j]
            if t.kind == "punct" and t.text in "([{":
                c = match_close(st, j)
                if t.text == "{":
                    end = c
                    # a block item: `fn .. { }` or `mod .. { }` ends here unless followed by `,`/`;`
                    if c + 1 < len(st) and st[c + 1].text in (",", ";"):
                        end = c + 1
                    break
                j = c + 1
                continue
            if t.text in (",", ";"):
                end = j
                break
            if t.text in (")", "]", "}"):
                end = j - 1
                break
            j += 1
        if end is None:
            raise RewriteError("R15: cannot find the end of a #[cfg(test)] item")
        text = text[:st[i].start] + text[st[end].end:]
        log["R15 cfg(test) item dropped"] = log.get("R15 cfg(test) item dropped", 0) + 1
    st = sig(lex(text))
    edits = []
    for i in find_seq(st, ["#", "[", "cfg", "(", "not", "(", "test", ")", ")", "]"]):
        edits.append((st[i].start, st[i + 9].end, ""))
        log["R15 cfg(not(test)) resolved"] = log.get("R15 cfg(not(test)) resolved", 0) + 1
    return apply_edits(text, edits)


# ------------------------------------------------------------------------------------------------------------------
# R12 generic narrowing: `fn new<I: TryInto<u32> ..>(.. x: I ..) where .. { .. x.try_into().unwrap() .. }` is specified at
# the instantiation I = usize: generics and where clause dropped, `I` -> usize, `E.try_into().unwrap()` -> `vx_usize_to_u32(E)`
# whose precondition `E <= u32::MAX` turns the possible panic into a proof obligation at every call site.

def r12_tryinto_usize(text, log):
    st = sig(lex(text))
    # locate fn name and generic list
    try:
        f = next(i for i, t in enumerate(st) if t.kind == "ident" and t.text == "fn")
    except StopIteration:
        return text
    if st[f + 2].text != "<":
        return text
    depth = 0
    j = f + 2
    while j < len(st):
        if st[j].text == "<":
            depth += 1
        elif st[j].text == ">" and st[j - 1].text != "-":
            depth -= 1
            if depth == 0:
                break
        j += 1
    gen_toks = st[f + 3:j]
    names = []
    k = 0
    expect_name = True
    d2 = 0
    for t in gen_toks:
        if t.text in "<(":
            d2 += 1
        elif t.text in ">)":
            d2 -= 1
        elif t.text == "," and d2 == 0:
            expect_name = True
            continue
        if expect_name and t.kind == "ident":
            names.append(t.text)
            expect_name = False
    gtxt = " ".join(t.text for t in gen_toks)
    if "TryInto < u32 >" not in gtxt:
        return text
    edits = [(st[f + 2].start, st[j].end, "")]
    # where clause: from `where` to body `{`
    w = None
    for i in range(j, len(st)):
        if st[i].kind == "punct" and st[i].text == "(":
            pass
        if st[i].kind == "ident" and st[i].text == "where":
            w = i
        if st[i].text == "{":
            if w is not None:
                edits.append((st[w].start, st[i].start, ""))
            body_open = i
            break
    for i in range(j, len(st)):
        if st[i].kind == "ident" and st[i].text in names and (w is None or not (w <= i < body_open)):
            edits.append((st[i].start, st[i].end, "usize"))
    # E.try_into().unwrap()  where E is a single identifier
    for i in find_seq(st, [".", "try_into", "(", ")", ".", "unwrap", "(", ")"]):
        e = st[i - 1]
        if e.kind != "ident":
            raise RewriteError("R12: try_into receiver is not an identifier")
        edits.append((e.start, st[i + 7].end, "vx_usize_to_u32(%s)" % e.text))
    log["R12 generic-narrowing (TryInto<u32> at usize)"] = log.get("R12 generic-narrowing (TryInto<u32> at usize)", 0) + 1
    return apply_edits(text, edits)


def replace_span(text, a, b, rep, log):
    """R7 outline of a statement span: the tokens from the unique match of `a` through the first following match of `b` are
    replaced by `rep` (the replaced text is verified separately as a lifted region, or assumed - the unit says which)"""
    st = sig(lex(text))
    pa = [t.text for t in sig(lex(a))]
    pb = [t.text for t in sig(lex(b))]
    ha = find_seq(st, pa)
    if len(ha) != 1:
        raise RewriteError("replace-span: start `%s` matches %d times" % (a, len(ha)))
    hb = [h for h in find_seq(st, pb) if h >= ha[0] + len(pa)]
    if not hb:
        raise RewriteError("replace-span: end `%s` not found after start" % b)
    s0 = st[ha[0]].start
    e0 = st[hb[0] + len(pb) - 1].end
    key = "R7 outline span `%s` .. `%s`" % (a, b)
    log[key] = log.get(key, 0) + 1
    return text[:s0] + rep + text[e0:]


def r4w_iter_take_while(text, log):
    """`for [&]x in E.iter().take(N) { B }` -> `{ let vx_limK = (N).min(E.len()); let mut vx_tkK = 0; while vx_tkK < vx_limK {
    let x = [&]E[vx_tkK]; vx_tkK += 1; B } }` - the while form of the take-loop, so that `continue`/`break` in B keep their meaning
    (Verus for-loops have no `continue`).  E must be a plain place path; N is evaluated once."""
    k = 0
    while True:
        st = sig(lex(text))
        hit = None
        for i, t in enumerate(st):
            if not (t.kind == "ident" and t.text == "for"):
                continue
            j = i + 1
            deref = False
            if st[j].text == "&":
                deref = True
                j += 1
            if st[j].kind != "ident" or st[j + 1].text != "in":
                continue
            x = st[j].text
            e0 = j + 2
            e1 = e0
            if st[e1].kind != "ident":
                continue
            while st[e1 + 1].text == "." and st[e1 + 2].kind == "ident" and st[e1 + 3].text != "(":
                e1 += 2
            if [y.text for y in st[e1 + 1:e1 + 8]] != [".", "iter", "(", ")", ".", "take", "("]:
                continue
            o = e1 + 7
            c = match_close(st, o)
            if st[c + 1].text != "{":
                continue
            hit = (i, x, deref, e0, e1, o, c)
            break
        if hit is None:
            return text
        i, x, deref, e0, e1, o, c = hit
        k += 1
        iv = "vx_tk%d" % k
        lim = "vx_lim%d" % k
        e_txt = text[st[e0].start:st[e1].end]
        n_txt = text[st[o].end:st[c].start].strip()
        b_open = c + 1
        b_close = match_close(st, b_open)
        body = text[st[b_open].end:st[b_close].start]
        new = "{ let %s = (%s).min(%s.len()); let mut %s = 0; while %s < %s { let %s = %s%s[%s]; %s += 1; %s} }" % (
            lim, n_txt, e_txt, iv, iv, lim, x, "" if deref else "&", e_txt, iv, iv, body)
        text = text[:st[i].start] + new + text[st[b_close].end:]
        log["R4w iter().take() -> while"] = log.get("R4w iter().take() -> while", 0) + 1
