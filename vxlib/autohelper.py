"""R9h — mechanical inlining of helper functions that an edit of the source extracted out of a function under contract.

A unit names the functions it extracts.  When an edit moves part of such a function into a NEW private helper, the unit no
longer compiles (`cannot find function `X` in this scope`, `no method named `X` found ...`): the helper is not part of the
unit.  This module puts the helper's body back where it is called, so that the unit sees again (nearly) the text it was
written against:

    CALLEE(a1, a2)      ->      { let p1: T1 = a1; let p2: T2 = a2; BODY_STATEMENTS let vx_h_ret: RET = TAIL; vx_h_ret }

This is beta-reduction of a first-order, non-recursive function: arguments are evaluated once, in order, before the body,
exactly as for the call; the body is the helper's REAL text (nothing is dropped or re-worded); declared parameter and return
types are kept as `let` annotations so that every coercion / inference the signature drove still happens.  The rule is purely
syntactic and refuses (CannotInline -> the text is left unchanged -> the unit stays undecided, never wrong) whenever a side
condition below is not evidently met.

  missing_names(msgs)                      helper names out of the four rustc/Verus message shapes
  find_helper(repo, path, name, container) the `fn name` of the same source file (same impl preferred, else free fn)
  inline_calls(item_text, helper, log)     the rewrite
  inline_item(...)                         what Unit.generate calls: iterate over the requested names, depth <= 3

Side conditions (see inline_calls): supported call shapes are `f(..)` (free helper), `Self::f(..)` / `Type::f(..)` (associated
helper of the caller's own type), `self.f(..)` (method; the body's `self` is the caller's `self`), `a.b.f(..)` for a `&self`
method of the caller's own impl (bound as `let vx_h_self: &Self = &a.b;`); plain `ident` / `mut ident` parameters; no generic
that a parameter/return type or the body mentions (one exception, see _check_generics); no `return` except a trailing one and
guard clauses `if c { ..; return e; }` at statement level of the body (turned into `if c { ..; e } else { REST }`); a body with
`?` only at call sites `let P = f(..)?;` / `place = f(..)?;` / `f(..)?;` / tail `f(..)` of a function whose return type has the
same outer constructor and the same error type, outside closures and async blocks; no capture in either direction.
"""
import re

from .lexer import lex, sig
from .extract import items_of, match_close, ExtractError

MAX_DEPTH = 3
PREFIX = "vx_h_"
# `a.b.name(..)` with a receiver other than `self`: the receiver's type is unknown to a syntactic rule; it is bound as
# `let vx_h_self: &Self = &a.b;`, so rustc rejects the unit (undecided) when `a.b` is something else that happens to have a method of
# that name.  The repo-wide sweep (tests_autohelper/sweep_repo.py) switches this shape off to get a tree that compiles.
ALLOW_RECV = True


# the tokens this rule GENERATES (braces of the block, parameter bindings, the typed binding of the tail) are bracketed by these
# comments in the inlined text; everything else inside the block is the helper's real text.  Region anchors with an occurrence
# number (`to-before `}` #11`) do not count generated tokens (Unit._lift_region); R10 drops the comments afterwards.
MARK_O = "/*vxh[*/"
MARK_C = "/*]vxh*/"


class CannotInline(Exception):
    pass


def generated_token_indices(text):
    """indices, in sig(lex(text)), of the tokens that lie between MARK_O and MARK_C comments"""
    out = set()
    depth = 0
    k = 0
    for t in lex(text):
        if t.kind == "comment":
            if t.text == MARK_O:
                depth += 1
            elif t.text == MARK_C and depth > 0:
                depth -= 1
            continue
        if t.kind == "ws":
            continue
        if depth > 0:
            out.add(k)
        k += 1
    return out


def strip_marks(text):
    return text.replace(MARK_O, "").replace(MARK_C, "")


# ----------------------------------------------------------------------------------------------------------------------
# 1. names

_MISSING = [
    re.compile(r"cannot find function `([A-Za-z_][A-Za-z0-9_]*)` in this scope"),
    re.compile(r"no method named `([A-Za-z_][A-Za-z0-9_]*)` found"),
    re.compile(r"no function or associated item named `([A-Za-z_][A-Za-z0-9_]*)` found"),
    re.compile(r"no associated function or constant named `([A-Za-z_][A-Za-z0-9_]*)` found"),
]


_MISSING_VALUE = re.compile(r"cannot find value `([A-Z][A-Z0-9_]*)` in this scope")


def missing_names(error_messages):
    """helper names mentioned by `cannot find function `X` in this scope` / `no method named `X` found ...` / `no function or
    associated item named `X` found ...` / `no associated function or constant named `X` found ...`; in order, no duplicates"""
    out = []
    for m in error_messages or []:
        if not isinstance(m, str):
            continue
        for rx in _MISSING:
            for g in rx.finditer(m):
                if g.group(1) not in out:
                    out.append(g.group(1))
        # an ALL_CAPS value: a module-level `const` / `static` the edit introduced (find_const / inline_const)
        for g in _MISSING_VALUE.finditer(m):
            if g.group(1) not in out and any(c.isalpha() for c in g.group(1)):
                out.append(g.group(1))
    return out


# ----------------------------------------------------------------------------------------------------------------------
# 2. token helpers

_KW = {"as", "async", "await", "break", "const", "continue", "crate", "dyn", "else", "enum", "extern", "false", "fn", "for",
       "if", "impl", "in", "let", "loop", "match", "mod", "move", "mut", "pub", "ref", "return", "self", "Self", "static",
       "struct", "super", "trait", "true", "type", "unsafe", "use", "where", "while", "yield", "_"}
_QUALS = {"pub", "async", "const", "unsafe", "extern", "default"}
_OPEN = "([{"
_CLOSE = ")]}"


def _path_sep_before(st, i):
    """st[i-2], st[i-1] == `:` `:` (adjacent)"""
    return i >= 2 and st[i - 1].text == ":" and st[i - 2].text == ":" and st[i - 1].kind == "punct" and st[i - 2].kind == "punct" \
        and st[i - 2].end == st[i - 1].start


def _path_sep_after(st, i):
    return i + 2 < len(st) and st[i + 1].text == ":" and st[i + 2].text == ":" and st[i + 1].end == st[i + 2].start


def _match_angle(st, i):
    """st[i] == '<' in TYPE context; index of the closing '>' (`->` is skipped)"""
    depth = 0
    j = i
    while j < len(st):
        t = st[j]
        if t.kind == "punct":
            if t.text in "([{":
                j = match_close(st, j) + 1
                continue
            if t.text == "<":
                depth += 1
            elif t.text == ">" and not (j > 0 and st[j - 1].text == "-" and st[j - 1].end == t.start):
                depth -= 1
                if depth == 0:
                    return j
        j += 1
    raise CannotInline("unbalanced `<`")


def _split_commas(st, lo, hi, types):
    """top-level comma separated token ranges [(a, b)) of st[lo:hi]; types=True: `<..>` are brackets; otherwise only the
    turbofish `::<..>` is, and a closure parameter list `|a, b|` at the start of an argument is skipped"""
    out = []
    j = lo
    start = lo
    while j < hi:
        t = st[j]
        if t.kind == "punct":
            if t.text in _OPEN:
                j = match_close(st, j) + 1
                continue
            if t.text == "<" and (types or _path_sep_before(st, j)):
                j = _match_angle(st, j) + 1
                continue
            if not types and t.text == "|" and (j == start or (j == start + 1 and st[start].text == "move")):
                k = j + 1
                while k < hi and st[k].text != "|":
                    if st[k].text in _OPEN:
                        k = match_close(st, k)
                    k += 1
                j = k + 1
                continue
            if t.text == ",":
                out.append((start, j))
                start = j + 1
        j += 1
    if start < hi:
        out.append((start, hi))
    return out


def _txt(src, st, a, b):
    return src[st[a].start:st[b - 1].end] if a < b else ""


def _norm_toks(st, a, b):
    return " ".join(t.text for t in st[a:b])


def _match_open_back(st, j):
    """st[j] is a closing bracket; index of its partner, scanning backwards"""
    depth = 0
    k = j
    while k >= 0:
        t = st[k]
        if t.kind == "punct":
            if t.text in _CLOSE:
                depth += 1
            elif t.text in _OPEN:
                depth -= 1
                if depth == 0:
                    return k
        k -= 1
    raise CannotInline("unbalanced bracket")


# ----------------------------------------------------------------------------------------------------------------------
# 3. signatures

class FnSig:
    """what the rule needs to know about a `fn` item text"""
    pass


def parse_fn(text, strict=True):
    """-> FnSig(name, is_async, is_unsafe, generics [(kind, name)], receiver, params [(name, is_mut, type_text)], ret (text or
    None), has_where, body_open/body_close (offsets of the braces), st)"""
    st = sig(lex(text))
    i = 0
    f = FnSig()
    f.text = text
    f.st = st
    f.is_async = f.is_unsafe = False
    # attributes in front (the extractor's item text starts after them, synthetic texts may have them)
    while i < len(st) and st[i].text == "#":
        if i + 1 < len(st) and st[i + 1].text == "[":
            i = match_close(st, i + 1) + 1
        else:
            raise CannotInline("unexpected `#`")
    while i < len(st) and st[i].kind == "ident" and st[i].text in _QUALS or (i < len(st) and st[i].kind == "str"):
        if st[i].text == "async":
            f.is_async = True
        if st[i].text in ("unsafe", "extern"):
            f.is_unsafe = True
        i += 1
        if i < len(st) and st[i].text == "(" and st[i - 1].text == "pub":
            i = match_close(st, i) + 1
    if i >= len(st) or st[i].text != "fn":
        raise CannotInline("not a fn item")
    f.name = st[i + 1].text
    i += 2
    f.generics = []
    if st[i].text == "<":
        c = _match_angle(st, i)
        for a, b in _split_commas(st, i + 1, c, True):
            if st[a].kind == "lifetime":
                f.generics.append(("lifetime", st[a].text))
            elif st[a].text == "const":
                f.generics.append(("const", st[a + 1].text))
            else:
                f.generics.append(("type", st[a].text))
        i = c + 1
    if st[i].text != "(":
        raise CannotInline("no parameter list")
    pc = match_close(st, i)
    f.receiver = None
    f.params = []
    f.pattern_names = set()
    for k, (a, b) in enumerate(_split_commas(st, i + 1, pc, True)):
        toks = st[a:b]
        # attributes on parameters are not handled
        if toks[0].text == "#":
            raise CannotInline("attribute on a parameter")
        words = [t.text for t in toks]
        if k == 0 and "self" in words[:4] and (words[-1] == "self" or (len(words) > words.index("self") + 1 and words[words.index("self") + 1] == ":")):
            s_at = words.index("self")
            pre = words[:s_at]
            if s_at + 1 < len(words):
                f.receiver = "self: " + _txt(text, st, a + s_at + 2, b)
                if pre:
                    f.receiver = "mut " + f.receiver
            elif pre == []:
                f.receiver = "self"
            elif pre == ["mut"]:
                f.receiver = "mut self"
            elif pre[0] == "&" and pre[-1] == "mut":
                f.receiver = "&mut self"
            elif pre[0] == "&" and all(w == "&" or w.startswith("'") for w in pre):
                f.receiver = "&self"
            else:
                raise CannotInline("unsupported receiver `%s`" % " ".join(words))
            continue
        j = 0
        is_mut = False
        if words[j] == "mut":
            is_mut = True
            j += 1
        if toks[j].kind != "ident" or words[j] in _KW or j + 1 >= len(toks) or words[j + 1] != ":" or (j + 2 < len(toks) and words[j + 2] == ":"):
            if not strict:
                # the calling item: only the names its parameter patterns bind matter
                f.pattern_names |= set(t.text for t in toks if t.kind == "ident" and t.text not in _KW and (t.text[0].islower() or t.text[0] == "_"))
                continue
            raise CannotInline("parameter `%s` is not a plain identifier" % _txt(text, st, a, b))
        f.params.append((words[j], is_mut, _txt(text, st, a + j + 2, b), (a + j + 2, b)))
    i = pc + 1
    f.ret = None
    f.ret_range = None
    f.has_where = False
    if st[i].text == "-" and st[i + 1].text == ">":
        j = i + 2
        while j < len(st) and st[j].text not in ("{", ";") and st[j].text != "where":
            if st[j].text in "([":
                j = match_close(st, j)
            elif st[j].text == "<":
                j = _match_angle(st, j)
            j += 1
        f.ret = _txt(text, st, i + 2, j)
        f.ret_range = (i + 2, j)
        i = j
    if st[i].text == "where":
        f.has_where = True
        while i < len(st) and st[i].text not in ("{", ";"):
            if st[i].text in "([":
                i = match_close(st, i)
            i += 1
    if i >= len(st) or st[i].text != "{":
        raise CannotInline("fn without a body")
    f.body_open_idx = i
    f.body_close_idx = match_close(st, i)
    f.body_open = st[i].start
    f.body_close = st[f.body_close_idx].start
    return f


def _impl_self_type(header):
    """`impl<T: X> Tr for Foo<T> where ..` -> (`Foo < T >`, last path identifier `Foo`, has_generics); non-impl containers
    (a trait name) -> (name, name, False)"""
    if header is None:
        return None, None, False
    st = sig(lex(header))
    if not st or st[0].text != "impl":
        return _norm_toks(st, 0, len(st)), (st[-1].text if st else None), False
    i = 1
    if i < len(st) and st[i].text == "<":
        i = _match_angle(st, i) + 1
    j = i
    type_start = i
    end = len(st)
    while j < len(st):
        t = st[j]
        if t.text in "([":
            j = match_close(st, j) + 1
            continue
        if t.text == "<":
            j = _match_angle(st, j) + 1
            continue
        if t.kind == "ident" and t.text == "for":
            type_start = j + 1
        if t.kind == "ident" and t.text == "where":
            end = j
            break
        j += 1
    ty = st[type_start:end]
    last = None
    has_gen = False
    for t in ty:
        if t.text == "<":
            has_gen = True
            break
        if t.kind == "ident":
            last = t.text
    return " ".join(t.text for t in ty), last, has_gen


def _norm(s):
    return " ".join(t.text for t in sig(lex(s))) if s is not None else None


class HelperDef:
    """a helper function as found in the source: text, parsed signature, where it lives, and where its caller lives"""

    def __init__(self, text, container=None, caller_container=None, path=None, attrs="", lines=None):
        self.text = text
        self.path = path
        self.attrs = attrs or ""
        self.lines = lines
        self.container = container                  # header of the impl/trait the helper is defined in, None = free fn
        self.caller_container = caller_container    # header of the impl/trait the calling item lives in
        self.sig = parse_fn(text)
        self.name = self.sig.name
        self.kind = "free" if container is None else "assoc"
        self.self_type, self.self_type_name, self.self_type_generic = _impl_self_type(container)
        cst, _, _ = _impl_self_type(caller_container)
        self.same_container = container is not None and caller_container is not None and _norm(container) == _norm(caller_container)
        self.same_self_type = self.same_container or (container is not None and caller_container is not None and cst == self.self_type
                                                       and _norm(container).startswith("impl") and _norm(caller_container).startswith("impl")
                                                       and _impl_generics(container) == _impl_generics(caller_container))

    @property
    def body(self):
        return self.text[self.sig.body_open + 1:self.sig.body_close]


def _impl_generics(header):
    st = sig(lex(header))
    if len(st) > 1 and st[0].text == "impl" and st[1].text == "<":
        return _norm_toks(st, 1, _match_angle(st, 1) + 1)
    return ""


def parse_helper(text, container=None, caller_container=None):
    """HelperDef from a text (unit tests, and the driver after find_helper located the item)"""
    return HelperDef(text, container, caller_container)


def find_helper(repo, path, name, container=None):
    """the `fn name` defined in source file `path` of `repo`: in an impl with the same header as `container` (the calling
    item's impl), else in another impl of the same type with the same generics, else a free fn of the file.  Items inside
    `#[cfg(test)]` modules (or carrying `#[cfg(..)]` / `#[test]` themselves) are ignored.  None if absent or ambiguous."""
    try:
        src, items = items_of(repo, path)
    except (OSError, ExtractError):
        return None
    mods = [it for it in items if it.kind == "mod"]

    def attrs_of(it):
        return " ".join(t.text for t in sig(lex(src[it.attrs_start:it.start])))

    def in_test_code(it):
        a = attrs_of(it)
        if "cfg (" in a or "# [ test ]" in a or "tokio :: test" in a:
            return True
        for m in mods:
            if m.start <= it.start and it.end <= m.end and m is not it:
                if m.name == "tests" or "cfg ( test )" in attrs_of(m) or "cfg ( all ( test" in attrs_of(m):
                    return True
        return False

    cands = [it for it in items if it.kind == "fn" and it.name == name and src[it.body_open] == "{" and not in_test_code(it)]
    if not cands:
        return None

    def cont(it):
        c = it.container[-1] if it.container else None
        if c is not None and not (_norm(c).startswith("impl") or any(x.kind == "trait" and x.name == c for x in items)):
            c = None        # a module
        return c

    def mk(it):
        a, b = it.line_span()
        return HelperDef(it.text, cont(it), container, path, attrs_of(it), (a, b))

    same = [it for it in cands if cont(it) is not None and container is not None and _norm(cont(it)) == _norm(container)]
    if len(same) == 1:
        return _try(mk, same[0])
    if len(same) > 1:
        return None
    if container is not None:
        rel = []
        for it in cands:
            if cont(it) is None:
                continue
            h = _try(mk, it)
            if h is not None and h.same_self_type:
                rel.append(h)
        if len(rel) == 1:
            return rel[0]
        if len(rel) > 1:
            return None
    free = [it for it in cands if cont(it) is None]
    if len(free) == 1:
        return _try(mk, free[0])
    if not free:
        # an associated fn of some other type of the file, called `Type::name(..)`
        other = [it for it in cands if cont(it) is not None]
        if len(other) == 1:
            return _try(mk, other[0])
    return None


def _try(mk, it):
    try:
        return mk(it)
    except (CannotInline, ExtractError, IndexError):
        return _Unparsed(it)


class _Unparsed:
    """a helper whose signature the rule does not handle: found, but inline_calls refuses it with the reason"""

    def __init__(self, it):
        self.name = it.name
        self.it = it
        self.same_self_type = False
        try:
            parse_fn(it.text)
            self.reason = "signature not handled"
        except (CannotInline, ExtractError, IndexError) as e:
            self.reason = str(e) or "signature not handled"


# ----------------------------------------------------------------------------------------------------------------------
# 4. statements of a block

_BLOCKLIKE = {"if", "match", "while", "for", "loop", "unsafe"}
_NESTED_ITEMS = {"struct", "enum", "impl", "trait", "mod", "union", "macro_rules", "use", "static", "type", "extern"}


def _block_end(st, i, hi):
    """st[i] starts a block-like expression at statement position; index of its last token (a `}`)"""
    t = st[i]
    j = i
    if t.kind == "lifetime":       # 'label: loop {..}
        j = i + 2
        t = st[j]
    if t.text == "{":
        return match_close(st, j)
    if t.text == "unsafe" or t.text == "loop":
        if st[j + 1].text != "{":
            raise CannotInline("unexpected token after `%s`" % t.text)
        return match_close(st, j + 1)
    # if / match / while / for: the first `{` at depth 0 opens the block
    k = j + 1
    while k < hi:
        if st[k].text in "([":
            k = match_close(st, k) + 1
            continue
        if st[k].text == "{":
            break
        k += 1
    if k >= hi:
        raise CannotInline("block of `%s` not found" % t.text)
    c = match_close(st, k)
    if t.text == "if":
        while c + 1 < hi and st[c + 1].text == "else":
            if st[c + 2].text == "if":
                k = c + 3
                while k < hi:
                    if st[k].text in "([":
                        k = match_close(st, k) + 1
                        continue
                    if st[k].text == "{":
                        break
                    k += 1
                c = match_close(st, k)
            elif st[c + 2].text == "{":
                c = match_close(st, c + 2)
            else:
                raise CannotInline("unexpected token after `else`")
    return c


def split_stmts(st, lo, hi):
    """statements of the block contents st[lo:hi] -> [(first, last_exclusive, has_semi, blocklike)]"""
    out = []
    i = lo
    while i < hi:
        t = st[i]
        if t.text == ";":
            i += 1
            continue
        if t.text == "#":
            raise CannotInline("attribute on a statement of the helper body")
        if t.kind == "ident" and (t.text in _NESTED_ITEMS or t.text == "fn" or (t.text in ("const", "async", "pub") and st[i + 1].text in ("fn", "unsafe", "async"))) \
                and not (t.text in ("unsafe", "async") and st[i + 1].text == "{"):
            if not (t.text == "use" or t.text == "const" or t.text == "static" or t.text == "type"):
                raise CannotInline("nested item in the helper body")
        blocklike = (t.kind == "ident" and t.text in _BLOCKLIKE) or t.text == "{" or (t.kind == "lifetime" and st[i + 1].text == ":")
        if blocklike:
            e = _block_end(st, i, hi)
            nxt = st[e + 1] if e + 1 < hi else None
            if nxt is not None and (nxt.text in (".", "?") or (nxt.text == "as" and nxt.kind == "ident")):
                blocklike = False       # `match x {..}.foo()`, `if c {a} else {b} as u64`: an ordinary expression statement
            else:
                semi = nxt is not None and nxt.text == ";"
                out.append((i, e + 1 + (1 if semi else 0), semi, True))
                i = e + 1 + (1 if semi else 0)
                continue
        j = i
        while j < hi and st[j].text != ";":
            if st[j].text in _OPEN:
                j = match_close(st, j)
            j += 1
        semi = j < hi
        out.append((i, j + (1 if semi else 0), semi, False))
        i = j + 1
    return out


# ----------------------------------------------------------------------------------------------------------------------
# 5. `return` lowering

def _count(st, lo, hi, word):
    return sum(1 for t in st[lo:hi] if t.kind == "ident" and t.text == word)


def _lower_returns(src, st, lo, hi, lo_off, hi_off):
    """text of the block contents st[lo:hi] (source offsets lo_off..hi_off) with `return` removed:
         ..; return e;            (last statement)                 ->  ..; e
         if c { ..; return e; }  REST   (statement level, no else) ->  if c { ..; e } else { REST }
    anything else -> CannotInline"""
    if _count(st, lo, hi, "return") == 0:
        return src[lo_off:hi_off]
    stmts = split_stmts(st, lo, hi)
    for idx, (a, b, semi, blk) in enumerate(stmts):
        n = _count(st, a, b, "return")
        if n == 0:
            continue
        last = idx == len(stmts) - 1
        if st[a].text == "return" and st[a].kind == "ident":
            if not last or n != 1:
                raise CannotInline("`return` followed by further statements")
            e_hi = b - 1 if semi else b
            expr = _txt(src, st, a + 1, e_hi)
            return src[lo_off:st[a].start] + expr + src[st[b - 1].end:hi_off]
        if st[a].text == "if" and blk:
            k = a + 1
            while st[k].text != "{":
                if st[k].text in "([":
                    k = match_close(st, k)
                k += 1
            c = match_close(st, k)
            e = b - 1 if semi else b      # one past `}`
            if c != e - 1:
                raise CannotInline("`return` inside an if/else chain")
            if _count(st, a, k, "return") or _count(st, a, k, "let"):
                raise CannotInline("`return` guarded by an `if let` or inside a condition")
            inner = split_stmts(st, k + 1, c)
            if not inner or st[inner[-1][0]].text != "return" or n != 1:
                raise CannotInline("`return` nested inside a guard clause")
            ra, rb, rsemi, _ = inner[-1]
            expr = _txt(src, st, ra + 1, rb - 1 if rsemi else rb)
            rest_lo = b
            rest_off = st[b - 1].end
            rest = _lower_returns(src, st, rest_lo, hi, rest_off, hi_off)
            return src[lo_off:st[ra].start] + expr + src[st[rb - 1].end:st[c].start] + "}" + MARK_O + " else {" + MARK_C + rest + MARK_O + "}" + MARK_C + "\n"
        raise CannotInline("`return` in a position the rule does not handle (only a trailing `return e;` and statement-level guard clauses `if c { ..; return e; }` are)")
    return src[lo_off:hi_off]


# ----------------------------------------------------------------------------------------------------------------------
# 6. identifiers: renaming, bound names, capture checks

def _rename(text, ren):
    """token-level renaming of variable occurrences: never after `.` / `::`, never before `::`"""
    if not ren:
        return text
    toks = lex(text)
    st = sig(toks)
    pos = {id(t): k for k, t in enumerate(st)}
    out = []
    for t in toks:
        if t.kind == "ident" and t.text in ren:
            k = pos[id(t)]
            prev = st[k - 1] if k > 0 else None
            prev2 = st[k - 2] if k > 1 else None
            if prev is not None and prev.text == "." and not (prev2 is not None and prev2.text == "." and prev2.end == prev.start):
                out.append(t.text)
                continue
            if _path_sep_before(st, k) or _path_sep_after(st, k):
                out.append(t.text)
                continue
            out.append(ren[t.text])
        else:
            out.append(t.text)
    return "".join(out)


def _rename_safe(body, names):
    """can `names` be renamed in `body` by _rename without changing anything but variable occurrences?"""
    st = sig(lex(body))
    for k, t in enumerate(st):
        if t.kind == "str":
            for n in names:
                if re.search(r"\{\s*%s\s*[:}]" % re.escape(n), t.text):
                    raise CannotInline("`%s` must be renamed but is captured by a format string" % n)
        if t.kind != "ident" or t.text not in names:
            continue
        prev = st[k - 1].text if k > 0 else ""
        nxt = st[k + 1].text if k + 1 < len(st) else ""
        nxt2 = st[k + 2].text if k + 2 < len(st) else ""
        if prev in ("{", ",") and (nxt in (",", "}") or (nxt == ":" and nxt2 != ":")):
            # `Foo { name }` / `Foo { name: name }` (field) cannot be told from a block `{ name }` here
            raise CannotInline("`%s` must be renamed but occurs in struct-literal field position" % t.text)


def _idents(st, lo, hi):
    return set(t.text for t in st[lo:hi] if t.kind == "ident")


def _free_idents(st, lo, hi):
    """identifiers of st[lo:hi] that can denote a variable: not after `.`, not a path segment after `::`"""
    out = set()
    for k in range(lo, hi):
        t = st[k]
        if t.kind != "ident" or t.text in _KW:
            continue
        if k > lo and st[k - 1].text == "." and not (k > lo + 1 and st[k - 2].text == "."):
            continue
        if _path_sep_before(st, k):
            continue
        out.add(t.text)
    return out


def _caller_bound_names(fsig):
    """names the calling item binds locally (parameters, `let`, `for`, closure parameters, `ref`/`mut` patterns): a superset is
    fine, it only makes the rule refuse"""
    st = fsig.st
    out = set(p[0] for p in fsig.params) | set(fsig.pattern_names)
    for k, t in enumerate(st):
        if t.kind != "ident" or t.text in _KW:
            continue
        prev = st[k - 1].text if k > 0 else ""
        nxt_ = st[k + 1].text if k + 1 < len(st) else ""
        if nxt_ == "!":
            continue
        if prev == "mut" and k > 1 and st[k - 2].text == "&":
            continue                                      # `&mut x` borrows x, it does not bind it
        if prev in ("let", "mut", "for", "ref", "|"):
            out.add(t.text)
        elif prev in ("(", ",") and k + 1 < len(st) and st[k + 1].text in (")", ",", "|") and k > 1:
            # tuple / closure-parameter patterns: `let (a, b) =`, `|a, b|`, `Some(x) =>`
            out.add(t.text)
        elif prev == "(" and k > 1 and st[k - 2].kind == "ident" and st[k - 2].text in ("Some", "Ok", "Err") and st[k + 1].text == ")":
            out.add(t.text)
    return out


def _fnlike_free_names(st, lo, hi, own):
    """lower-case identifiers the helper body uses as functions / macros / path heads (module-level names)"""
    out = set()
    for k in range(lo, hi):
        t = st[k]
        if t.kind != "ident" or t.text in _KW or t.text in own:
            continue
        if k > lo and st[k - 1].text == ".":
            continue
        if _path_sep_before(st, k):
            continue
        nxt = st[k + 1].text if k + 1 < hi else ""
        if nxt == "(" or _path_sep_after(st, k):        # (macros live in their own namespace: a local cannot capture `name!`)
            if t.text[0].islower() or t.text[0] == "_":
                out.add(t.text)
    return out


# ----------------------------------------------------------------------------------------------------------------------
# 7. the rewrite

class _Site:
    pass


def _occurs(st, k, helper):
    """token k is an occurrence of the helper's name that can denote the helper.  Not the helper:
       `x.name` / `x.name(..)` when the helper has no receiver (a field, or a method of something else);
       plain `name(..)` when the helper is an associated function (a plain call never resolves to one);
       `Q::name` with Q an identifier other than `Self` / the helper's type (`Vec::new`, `Arc::new`, `MerkleHash::default`), and for
       a free helper any `Q::name` except through `self::` / `super::` / `crate::`."""
    if st[k].kind != "ident" or st[k].text != helper.name:
        return False
    if k > 0 and st[k - 1].text == "." and not (k > 1 and st[k - 2].text == "."):
        return helper.sig.receiver is not None
    if _path_sep_before(st, k):
        q = st[k - 3] if k >= 3 else None
        if q is not None and q.kind == "ident":
            if helper.kind == "assoc":
                return q.text in ("Self", helper.self_type_name)
            return q.text in ("self", "super", "crate")
        return True
    if helper.kind == "assoc" and k + 1 < len(st) and st[k + 1].text == "(":
        return False
    return True


def _find_call(st, helper, start=0, limit=None):
    """index of the LAST occurrence of the helper's name at or after token `start` that begins before source offset `limit`.
    Call sites are rewritten right to left, `limit` moving to the start of each rewritten site: text the rule has inserted (a
    helper body may itself call a method of that name on something else) is never looked at again."""
    for k in range(len(st) - 1, start - 1, -1):
        if (limit is None or st[k].start < limit) and _occurs(st, k, helper):
            return k
    return None


def _recursive(bst, helper):
    """the helper body calls the helper itself: `self.name(..)`, `Self::name(..)` / `Type::name(..)`, or plain `name(..)` for a free
    helper.  `other.name(..)` is a method of something else (or of another object: inlining one level is still exact)."""
    for k, t in enumerate(bst):
        if not _occurs(bst, k, helper):
            continue
        if k > 0 and bst[k - 1].text == ".":
            if k > 1 and bst[k - 2].text == "self" and not (k > 2 and bst[k - 3].text == "."):
                return True
            continue
        if _path_sep_before(bst, k) or (k + 1 < len(bst) and bst[k + 1].text == "("):
            return True
    return False


def _classify_site(src, st, k, helper):
    """st[k] is an occurrence of the helper's name in the calling item; -> _Site or CannotInline"""
    name = helper.name
    s = _Site()
    if k + 1 >= len(st) or st[k + 1].text != "(":
        if k > 0 and st[k - 1].text == "fn":
            raise CannotInline("the calling item defines its own `fn %s`" % name)
        raise CannotInline("`%s` is mentioned without being called (function value, turbofish, field or local of that name)" % name)
    if k > 0 and st[k - 1].text == "fn":
        raise CannotInline("the calling item defines its own `fn %s`" % name)
    s.open = k + 1
    s.close = match_close(st, k + 1)
    s.args = _split_commas(st, s.open + 1, s.close, False)
    s.first = k
    s.shape = "free"
    s.receiver = None
    fs = helper.sig
    if k > 0 and st[k - 1].text == "." and not (k > 1 and st[k - 2].text == "."):
        if helper.kind != "assoc" or fs.receiver is None:
            raise CannotInline("method call `.%s(..)` but the helper found is not a method" % name)
        # receiver: ident(.ident)* chain
        j = k - 2
        if j < 0 or st[j].kind not in ("ident",) :
            raise CannotInline("method call on a receiver that is not a plain path")
        while j >= 2 and st[j - 1].text == "." and st[j - 2].kind == "ident" and not (j >= 3 and st[j - 3].text == "." and st[j - 2].kind != "ident"):
            if st[j - 2].kind != "ident":
                break
            j -= 2
        if j >= 1 and (st[j - 1].text in (".", ")", "]", "?") or _path_sep_before(st, j)):
            raise CannotInline("method call on a receiver that is not a plain path")
        for q in range(j, k - 1):
            if st[q].kind == "ident" and st[q].text in _KW and st[q].text != "self":
                raise CannotInline("method call on a receiver that is not a plain path")
            if st[q].kind == "num":
                raise CannotInline("method call on a receiver that is not a plain path")
        s.first = j
        if k - 1 - j == 1 and st[j].text == "self":
            s.shape = "self"
            if not helper.same_self_type:
                raise CannotInline("`self.%s(..)` but the helper found is not a method of the calling item's type" % name)
            if fs.receiver == "mut self":
                raise CannotInline("helper takes `mut self`")
        else:
            s.shape = "recv"
            s.receiver = _txt(src, st, j, k - 1)
            if not ALLOW_RECV:
                raise CannotInline("method call on `%s`: other receivers switched off" % s.receiver)
            if fs.receiver != "&self":
                raise CannotInline("method call on `%s`: only a `&self` helper can be bound to another receiver" % s.receiver)
            s.self_ty = "Self"
            if not helper.same_container:
                # a method of ANOTHER type of the same file (`shard_col.truncated_lookup_hash(..)`): bound with the type's own name, which
                # needs an inherent, non-generic impl and a helper that does not say `Self`
                hdr = sig(lex(helper.container or ""))
                inherent = bool(hdr) and hdr[0].text == "impl" and not any(t.kind == "ident" and t.text in ("for", "where") for t in hdr) and not any(t.text == "<" for t in hdr)
                if not inherent or helper.self_type_generic or "Self" in _idents(fs.st, 0, len(fs.st)):
                    raise CannotInline("method call on `%s`: helper is not in the calling item's own impl block (`Self` would differ)" % s.receiver)
                s.self_ty = helper.self_type
    elif _path_sep_before(st, k):
        j = k - 3
        if j < 0 or st[j].kind != "ident" or _path_sep_before(st, j) or (j > 0 and st[j - 1].text == ">"):
            raise CannotInline("call through a path that is longer than `Type::%s`" % name)
        q = st[j].text
        s.first = j
        if helper.kind != "assoc":
            raise CannotInline("call `%s::%s(..)` but the helper found is a free function" % (q, name))
        if fs.receiver is not None:
            raise CannotInline("method `%s` called through a path (`%s::%s(..)`)" % (name, q, name))
        if q == "Self":
            if not helper.same_self_type:
                raise CannotInline("`Self::%s(..)` but the helper found belongs to another type than the calling item" % name)
        elif q == helper.self_type_name:
            if not helper.same_self_type and (helper.self_type_generic or "Self" in _idents(fs.st, 0, len(fs.st))):
                raise CannotInline("`%s::%s(..)`: the helper mentions `Self` / generics of its impl and the calling item is outside it" % (q, name))
        else:
            raise CannotInline("call `%s::%s(..)` does not name the helper's type `%s`" % (q, name, helper.self_type_name))
        s.shape = "path"
    else:
        if helper.kind != "free":
            raise CannotInline("plain call `%s(..)` but the helper found is an associated function" % name)
        if fs.receiver is not None:
            raise CannotInline("free function with a receiver")
    # `.await`
    s.last = s.close
    s.awaited = False
    if s.close + 2 < len(st) and st[s.close + 1].text == "." and st[s.close + 2].text == "await":
        s.awaited = True
        s.last = s.close + 2
    if fs.is_async and not s.awaited:
        raise CannotInline("async helper called without `.await`")
    if s.awaited and not fs.is_async:
        raise CannotInline("`.await` on a helper that is not an `async fn`")
    s.question = s.last + 1 < len(st) and st[s.last + 1].text == "?"
    if len(s.args) != len(fs.params):
        raise CannotInline("%d argument(s) for %d parameter(s)" % (len(s.args), len(fs.params)))
    return s


def _result_parts(ret):
    """`Result<T, E>` / `io::Result<T>` / `Option<T>` -> (path, [arg texts]) ; None when the type has another shape"""
    if ret is None:
        return None
    st = sig(lex(ret))
    i = 0
    while i < len(st) and (st[i].kind == "ident" or st[i].text == ":"):
        i += 1
    if i == 0 or i >= len(st) or st[i].text != "<" or st[i - 1].kind != "ident":
        return None
    c = _match_angle(st, i)
    if c != len(st) - 1:
        return None
    args = [_norm_toks(st, a, b) for a, b in _split_commas(st, i + 1, c, True)]
    return _norm_toks(st, 0, i), st[i - 1].text, args


def _stmt_start(st, k, floor):
    """index of the first token of the statement that contains token k (walk back over bracket groups)"""
    j = k - 1
    while j > floor:
        t = st[j]
        if t.text in (";", "{", "}"):
            if t.text == "}":
                # `}` may end a block-like statement or be part of this statement (`match x {..}.f()`): treat as boundary
                return j + 1
            return j + 1
        if t.text in (")", "]"):
            j = _match_open_back(st, j)
        j -= 1
    return floor + 1


def _enclosing_blocks_ok(st, k, body_open):
    """the call at token k sits, within the function body opened at body_open, only inside blocks of control-flow constructs:
    no enclosing parenthesis/bracket, no closure, no async block (a `?` there would leave a different scope)"""
    stack = []
    j = body_open
    while j < k:
        t = st[j]
        if t.kind == "punct" and t.text in _OPEN:
            c = match_close(st, j)
            if c < k:
                j = c + 1
                continue
            stack.append(j)
        j += 1
    for b in stack[1:]:
        if st[b].text != "{":
            return False
        h = b - 1
        while h > body_open:
            t = st[h]
            if t.text in (";", "{", "}"):
                break
            if t.text in (")", "]"):
                h = _match_open_back(st, h)
            h -= 1
        head = st[h + 1:b]
        if not head:
            continue                                    # a plain `{ .. }` statement
        first = head[1] if head[0].kind == "lifetime" and len(head) > 2 else head[0]
        if head[0].kind == "lifetime" and len(head) > 2:
            first = head[2]
        if first.kind == "ident" and first.text in ("if", "while", "for", "loop", "match", "else", "unsafe"):
            continue                                    # control flow (its condition may hold closures, `if let` a `=`)
        if len(head) >= 2 and head[-1].text == ">" and head[-2].text == "=":
            continue                                    # a match arm; the `match` itself is the next enclosing block
        return False                                    # closure, async block, `let x = {`, struct literal, ...
    return True


def _check_generics(helper, caller, site, src_st, rebound=None):
    """generic helpers are refused when a parameter type, the return type or the body mentions one of their generics.
    One exception: a type parameter G whose every mentioning parameter receives, as argument, a plain parameter of the calling
    item declared with the textually identical type, the calling item declaring a generic G itself — G then denotes the caller's
    G (`fn f<R: Read>(r: &mut R)` calling `h(r, n)` with `fn h<R: Read>(reader: &mut R, n: u32)`); the `let` annotations are kept,
    so rustc re-checks the binding.  Returns {lifetime: '_} replacements for the annotations."""
    fs = helper.sig
    life = {}
    body_ids = None
    for kind, g in fs.generics:
        if kind == "lifetime":
            bst = sig(lex(helper.body))
            if any(t.kind == "lifetime" and t.text == g for t in bst):
                raise CannotInline("helper body mentions its lifetime parameter %s" % g)
            life[g] = "'_"
            continue
        if kind == "const":
            raise CannotInline("const-generic helper")
        if body_ids is None:
            bst = sig(lex(helper.body))
            body_ids = _idents(bst, 0, len(bst))
        in_ret = fs.ret_range is not None and g in _idents(fs.st, *fs.ret_range)
        mention = [i for i, p in enumerate(fs.params) if g in _idents(fs.st, *p[3])]
        if not mention and not in_ret and g not in body_ids:
            continue
        if in_ret or not mention:
            raise CannotInline("generic helper: type parameter `%s` occurs in the return type or only in the body" % g)
        if caller is None or not any(k_ == "type" and n_ == g for k_, n_ in caller.generics + getattr(caller, "outer_generics", [])):
            raise CannotInline("generic helper: a parameter type mentions type parameter `%s`" % g)
        cparams = {p[0]: _norm(p[2]) for p in caller.params}
        # names the calling item re-binds (`let r = ..`): taken from the item as it was BEFORE this rule inserted any binding
        bound = rebound if rebound is not None else _caller_let_names(caller)
        for i in mention:
            a, b = site.args[i]
            if b - a != 1 or src_st[a].kind != "ident" or cparams.get(src_st[a].text) != _norm(fs.params[i][2]) or src_st[a].text in bound:
                raise CannotInline("generic helper: a parameter type mentions type parameter `%s` and the argument is not a parameter of the "
                                   "calling item with the identical declared type" % g)
    for p in fs.params:
        if "impl" in _idents(fs.st, *p[3]):
            raise CannotInline("helper parameter of `impl Trait` type")
    if fs.ret_range is not None and "impl" in _idents(fs.st, *fs.ret_range):
        raise CannotInline("helper returns `impl Trait`")
    return life


def _caller_let_names(fsig, skip=()):
    """names the item's body binds (`let x`, `for x`, closure parameters); skip: token indices to ignore (bindings this rule generated)"""
    st = fsig.st
    out = set()
    for k, t in enumerate(st):
        if k in skip:
            continue
        if t.kind == "ident" and k > fsig.body_open_idx and st[k - 1].text in ("let", "mut", "for", "ref", "|") and t.text not in _KW \
                and not (st[k - 1].text == "mut" and st[k - 2].text == "&"):
            out.add(t.text)
        elif t.kind == "ident" and k > fsig.body_open_idx and st[k - 1].text in ("(", ",") and k + 1 < len(st) and st[k + 1].text in (")", ",", "|") \
                and t.text not in _KW and st[k - 1].text == "," and st[k + 1].text == "|":
            out.add(t.text)
    return out


def _with_lifetimes(ty, life):
    if not life:
        return ty
    return "".join(life.get(t.text, t.text) if t.kind == "lifetime" else t.text for t in lex(ty))


# macros known not to `return` / `?` out of the enclosing function; any other macro in a helper body makes the rule refuse
# (`bail!`, `ensure!`, `ready!`, `try!` and project macros can expand to `return ..`, which must not move into the caller)
_PLAIN_MACROS = {"vec", "format", "print", "println", "eprint", "eprintln", "write", "writeln", "format_args", "panic", "unreachable",
                 "unimplemented", "todo", "assert", "assert_eq", "assert_ne", "debug_assert", "debug_assert_eq", "debug_assert_ne",
                 "debug_assert_le", "debug_assert_lt", "debug_assert_ge", "debug_assert_gt", "assert_le", "assert_lt", "assert_ge",
                 "assert_gt", "matches", "cfg", "concat", "stringify", "line", "file", "column", "module_path", "env", "option_env",
                 "include_str", "include_bytes", "dbg", "debug", "info", "warn", "error", "trace", "anyhow", "info_span", "debug_span",
                 "trace_span", "warn_span", "error_span", "span", "event", "json", "join", "try_join", "pin_mut", "const_assert"}


def _prepare_body(helper):
    """call-site independent part: the body text with `return` lowered; flags"""
    fs = helper.sig
    body = helper.body
    bst = sig(lex(body))
    if _recursive(bst, helper):
        raise CannotInline("helper mentions itself (recursion)")
    for k, t in enumerate(bst):
        if t.kind == "ident" and k + 1 < len(bst) and bst[k + 1].text == "!" and k + 2 < len(bst) and bst[k + 2].text in _OPEN \
                and t.text not in _PLAIN_MACROS:
            raise CannotInline("helper body invokes the macro `%s!`, which may `return` from the function" % t.text)
    if _count(bst, 0, len(bst), "return"):
        if any(t.text == "?" for t in bst):
            raise CannotInline("helper body has both `return` and `?`")
        body = _lower_returns(body, bst, 0, len(bst), 0, len(body))
        bst = sig(lex(body))
        if _count(bst, 0, len(bst), "return"):
            raise CannotInline("`return` left after lowering")
    has_q = any(t.text == "?" and t.kind == "punct" for t in bst)
    return body, has_q


def _bind_tail(body, ret_ty, unwrap=None, question=False):
    """`STMTS TAIL` -> `STMTS let vx_h_ret: RET = TAIL; vx_h_ret` (the declared return type is kept as an annotation).
    unwrap='Ok'|'Some': the tail must be literally `Ok(E)` and becomes `E`; with question=True any other tail becomes `(TAIL)?`."""
    st = sig(lex(body))
    stmts = split_stmts(st, 0, len(st))
    if not stmts or stmts[-1][2] or (stmts[-1][3] and st[stmts[-1][0]].text in ("loop", "while", "for")) or st[stmts[-1][0]].kind == "lifetime":
        if unwrap:
            raise CannotInline("helper body with `?` has no tail expression")
        return body
    a, b, _, _ = stmts[-1]
    tail = _txt(body, st, a, b)
    if unwrap:
        if st[a].text == unwrap and st[a + 1].text == "(" and match_close(st, a + 1) == b - 1 and st[a].kind == "ident":
            tail = _txt(body, st, a + 2, b - 1)
            if not tail.strip():
                tail = "()"
        elif question:
            tail = "(%s)?" % tail
        else:
            raise CannotInline("tail of the helper body is not literally `%s(..)`" % unwrap)
    if ret_ty is None:
        return body[:st[a].start] + tail + body[st[b - 1].end:]
    return body[:st[a].start] + MARK_O + "let %sret: %s = " % (PREFIX, ret_ty) + MARK_C + tail + MARK_O + "; %sret" % PREFIX + MARK_C + body[st[b - 1].end:]


def _inline_one(item_text, helper, body0, has_q, limit, orig_rebound=None):
    """replace the last call of the helper in item_text that begins before offset `limit`; returns (new text, new limit), or None
    if there is none"""
    fs = helper.sig
    toks = lex(item_text)
    st = sig(toks)
    try:
        caller = parse_fn(item_text, strict=False)
    except (CannotInline, IndexError, ExtractError):
        raise CannotInline("the calling item is not a function the rule understands")
    lo = caller.body_open_idx
    k = _find_call(st, helper, lo, limit)
    if k is None:
        if _find_call(st, helper, 0, st[lo].start) is not None:
            raise CannotInline("`%s` occurs in the signature of the calling item" % helper.name)
        return None
    if caller.name == helper.name:
        raise CannotInline("calling item has the helper's own name")
    s = _classify_site(item_text, st, k, helper)
    life = _check_generics(helper, caller, s, st, orig_rebound)
    # ---- capture, direction 1: module-level names of the body vs. locals of the calling item
    bst = sig(lex(body0))
    own = set(p[0] for p in fs.params) | _caller_let_names_of_body(bst)
    if True:
        cb = _caller_bound_names(caller)
        clash = sorted(_fnlike_free_names(bst, 0, len(bst), own) & cb)
        if clash:
            raise CannotInline("the helper body calls `%s`, which the calling item binds as a local" % clash[0])
        cgen = set(n for k_, n in caller.generics if k_ == "type")
        hgen = set(n for k_, n in fs.generics)
        clash = sorted((_idents(bst, 0, len(bst)) | _idents(fs.st, 0, fs.body_open_idx)) & (cgen - hgen))
        if clash and not all(any(g == n for _, n in fs.generics) for g in clash):
            raise CannotInline("the helper mentions `%s`, which is a type parameter of the calling item" % clash[0])
    if not helper.same_self_type and "Self" in (_idents(bst, 0, len(bst)) | _idents(fs.st, 0, fs.body_open_idx)) and helper.kind == "assoc":
        raise CannotInline("helper mentions `Self` and is called from outside its type")
    # ---- `?`
    body = body0
    ret_ty = _with_lifetimes(fs.ret, life) if fs.ret is not None and _norm(fs.ret) != "( )" else None
    end = s.last
    if has_q:
        hp = _result_parts(fs.ret)
        cp = _result_parts(caller.ret)
        if hp is None or cp is None or hp[1] not in ("Result", "Option") or hp[0] != cp[0] or len(hp[2]) != len(cp[2]) or hp[2][1:] != cp[2][1:]:
            raise CannotInline("helper body uses `?`: return types `%s` (helper) and `%s` (calling item) do not have the same constructor and error type" % (fs.ret, caller.ret))
        if not _enclosing_blocks_ok(st, s.first, caller.body_open_idx):
            raise CannotInline("helper body uses `?` and the call sits inside a closure, async block or expression block")
        ss = _stmt_start(st, s.first, caller.body_open_idx)
        if s.question:
            nxt = st[s.last + 2].text if s.last + 2 < len(st) else ""
            if nxt != ";":
                raise CannotInline("helper body uses `?`: call is not of the form `let P = f(..)?;` / `place = f(..)?;` / `f(..)?;`")
            if ss == s.first:
                pass
            elif st[ss].text == "let" and st[s.first - 1].text == "=" and st[s.first - 2].text not in ("=", "!", "<", ">", "+", "-", "*", "/", "%", "^", "&", "|"):
                pass
            elif st[s.first - 1].text == "=" and _is_place(_strip_assign_op(st[ss:s.first - 1])):
                pass            # `place = f(..)?;` and `place += f(..)?;` (any compound assignment operator)
            else:
                raise CannotInline("helper body uses `?`: call is not of the form `let P = f(..)?;` / `place = f(..)?;` / `f(..)?;`")
            wrap = "Ok" if hp[1] == "Result" else "Some"
            inner_ty = _with_lifetimes(_ret_first_arg(fs), life)
            body = _bind_tail(body, inner_ty, unwrap=wrap, question=True)
            end = s.last + 1        # swallow the `?`
        else:
            # tail of the function body: `f(..)` directly before the closing brace of the calling item
            if ss != s.first or not _is_fn_tail(st, s, caller):
                raise CannotInline("helper body uses `?`: call is neither followed by `?` nor the tail expression of the calling item")
            body = _bind_tail(body, ret_ty)
    else:
        body = _bind_tail(body, ret_ty)
    # ---- parameters, capture direction 2: a parameter bound before a later argument that mentions the same name
    ren = {}
    arg_ids = [_free_idents(st, a, b) for a, b in s.args]
    for i, p in enumerate(fs.params):
        later = set()
        for ids in arg_ids[i + 1:]:
            later |= ids
        if p[0] in later:
            ren[p[0]] = PREFIX + p[0]
    if ren:
        body_ids = _idents(sig(lex(body)), 0, 10 ** 9)
        for old, new in ren.items():
            if new in body_ids or any(new in ids for ids in arg_ids):
                raise CannotInline("fresh name `%s` is already in use" % new)
        _rename_safe(body, set(ren))
        body = _rename(body, ren)
    binds = []
    if s.shape == "recv":
        if any(PREFIX + "self" in ids for ids in arg_ids) or PREFIX + "self" in _idents(sig(lex(body0)), 0, 10 ** 9):
            raise CannotInline("fresh name `vx_h_self` is already in use")
        for tk in sig(lex(body)):
            if tk.kind == "str" and re.search(r"\{\s*self\b", tk.text):
                raise CannotInline("`self` inside a format string")
        binds.append("let %sself: &%s = &%s;" % (PREFIX, s.self_ty, s.receiver))
        body = _rename(body, {"self": PREFIX + "self"})
    for (pname, is_mut, pty, _), (a, b) in zip(fs.params, s.args):
        binds.append("let %s%s: %s = %s;" % ("mut " if is_mut else "", ren.get(pname, pname), _with_lifetimes(pty, life), _txt(item_text, st, a, b)))
    block = _in_context(MARK_O + "{ " + " ".join(binds) + MARK_C + body + MARK_O + "}" + MARK_C, st, s.first, end)
    return item_text[:st[s.first].start] + block + item_text[st[end].end:], st[s.first].start


def _in_context(block, st, first, end):
    """a bare block is not an expression everywhere (statement start + `.`/operator, operand position): parenthesise unless the
    replaced tokens st[first..end] are a whole initialiser / argument / statement"""
    prev = st[first - 1].text if first > 0 else "{"
    nxt = st[end + 1].text if end + 1 < len(st) else "}"
    safe_prev = prev in ("=", "(", ",", "{", ";", "}", "return") or (prev == ">" and st[first - 2].text == "=")
    if prev == "=" and first >= 2 and st[first - 2].text in ("=", "!", "<", ">") and st[first - 2].end == st[first - 1].start:
        safe_prev = False       # `a == f(x)` etc.
    safe_next = nxt in (";", ",", ")", "}")
    if not (safe_prev and safe_next):
        block = MARK_O + "(" + MARK_C + block + MARK_O + ")" + MARK_C
    return block


def _strip_assign_op(toks):
    """tokens before the `=` of an assignment statement, without the operator of a compound assignment (`+ - * / % ^ & | << >>`)"""
    if toks and toks[-1].kind == "punct" and toks[-1].text in "+-*/%^&|":
        return toks[:-1]
    if len(toks) >= 2 and toks[-1].text == toks[-2].text and toks[-1].text in "<>" and toks[-2].end == toks[-1].start:
        return toks[:-2]
    return toks


def _is_place(toks):
    """`a`, `a.b.c`, `self.a`: identifiers and dots only"""
    return bool(toks) and all((t.kind == "ident" and (t.text not in _KW or t.text == "self")) or t.text == "." for t in toks) and toks[0].kind == "ident" and toks[-1].kind == "ident"


def _is_fn_tail(st, s, caller):
    return s.last + 1 == caller.body_close_idx and st[s.first - 1].text in (";", "{", "}")


def _ret_first_arg(fs):
    st = fs.st
    a, b = fs.ret_range
    i = a
    while st[i].text != "<":
        i += 1
    c = _match_angle(st, i)
    parts = _split_commas(st, i + 1, c, True)
    return _txt(fs.text, st, parts[0][0], parts[0][1])


def _caller_let_names_of_body(bst):
    """names the helper body evidently binds itself (`let x`, `mut x`, `for x`, `ref x`, closure parameters, tuple-pattern members):
    an UNDER-approximation is the safe direction here - these names are exempt from the capture check of module-level names"""
    out = set()
    for k, t in enumerate(bst):
        if t.kind != "ident" or t.text in _KW or k == 0:
            continue
        nxt = bst[k + 1].text if k + 1 < len(bst) else ""
        if nxt in ("(", "!") or _path_sep_after(bst, k):
            continue
        if bst[k - 1].text in ("let", "mut", "for", "ref") and not (bst[k - 1].text == "mut" and k > 1 and bst[k - 2].text == "&"):
            out.add(t.text)
        elif bst[k - 1].text == "|" and nxt in ("|", ",", ":"):
            out.add(t.text)
    return out


def count_calls(text, name):
    """occurrences of identifier `name` directly followed by `(` (not a definition)"""
    st = sig(lex(text))
    return sum(1 for k, t in enumerate(st) if t.kind == "ident" and t.text == name and k + 1 < len(st) and st[k + 1].text == "("
               and not (k > 0 and st[k - 1].text == "fn"))


def refers_to(text, name):
    """`name(`, `::name`, `.name(` : the text uses `name` as a function (called, or passed as a function value through a path)"""
    st = sig(lex(text))
    for k, t in enumerate(st):
        if t.kind == "ident" and t.text == name and not (k > 0 and st[k - 1].text == "fn"):
            if (k + 1 < len(st) and st[k + 1].text == "(") or _path_sep_before(st, k) or (_path_sep_after(st, k) and k + 3 < len(st) and st[k + 3].text == "<"):
                return True
    return False


def occurrences(text, helper):
    """number of occurrences of the helper's name in `text` that can denote the helper"""
    st = sig(lex(text))
    return sum(1 for k in range(len(st)) if _occurs(st, k, helper))


def mentions(text, name):
    return any(t.kind == "ident" and t.text == name for t in lex(text))


def inline_calls(item_text, helper, log):
    """every call of `helper` inside `item_text` replaced by a block that binds the parameters and contains the helper's body.
    Raises CannotInline(reason) when a side condition is not met (nothing is changed then)."""
    if isinstance(helper, _Unparsed):
        raise CannotInline(helper.reason)
    fs = helper.sig
    if fs.is_unsafe:
        raise CannotInline("unsafe / extern helper")
    if "cfg" in helper.attrs:
        raise CannotInline("helper under #[cfg(..)]")
    if fs.receiver is not None and (fs.receiver.startswith("self:") or fs.receiver.startswith("mut self:")):
        raise CannotInline("helper with a typed `self` receiver")
    body0, has_q = _prepare_body(helper)
    text = item_text
    n = 0
    limit = None
    try:
        rebound = _caller_let_names(parse_fn(item_text, strict=False), generated_token_indices(item_text))
    except (CannotInline, IndexError, ExtractError):
        raise CannotInline("the calling item is not a function the rule understands")
    while True:
        new = _inline_one(text, helper, body0, has_q, limit, rebound)
        if new is None:
            break
        text, limit = new
        n += 1
        if n > 40:
            raise CannotInline("too many call sites")
    if n == 0:
        raise CannotInline("no call of `%s` found" % helper.name)
    key = "R9h inline %s at %d call site(s)" % (helper.name, n)
    log[key] = log.get(key, 0) + 1
    return text


# ----------------------------------------------------------------------------------------------------------------------
# 8. constants an edit introduced next to the helpers (`const HASH_WINDOW_SIZE: usize = 64;` moved out of a fn body)

class ConstDef:
    def __init__(self, text, container=None, caller_container=None):
        self.text = text
        self.container = container
        self.caller_container = caller_container
        st = sig(lex(text))
        i = 0
        while i < len(st) and st[i].text not in ("const", "static"):
            if st[i].text == "(":
                i = match_close(st, i)
            i += 1
        if i + 3 >= len(st) or st[i + 1].kind != "ident" or st[i + 2].text != ":" or st[-1].text != ";":
            raise CannotInline("constant declaration not understood")
        self.is_static = st[i].text == "static"
        if self.is_static:
            # a `static` read like a constant: immutable, no interior mutability, initialiser a literal / constant expression
            ids = _idents(st, i, len(st))
            if st[i + 1].text == "mut" or any(t.text in ("{", "!") for t in st[i:]) or \
                    any(any(w in x for w in ("Mutex", "RwLock", "Atomic", "Cell", "Lazy", "Once", "Lock")) for x in ids):
                raise CannotInline("static is mutable, lazily initialised or has interior mutability")
        self.name = st[i + 1].text
        self.decl = text[st[i].start:]        # `const NAME: T = EXPR;` without visibility
        if self.is_static:
            # Verus has no function-local `static` ("internal item statements"); an immutable static without interior mutability and
            # with a constant initialiser is, read by value, the constant of the same declaration: only the keyword changes
            self.decl = "const" + text[st[i].end:]
        if "Self" in _idents(st, i, len(st)):
            raise CannotInline("constant mentions `Self`")
        self.kind = "free" if container is None else "assoc"
        self.self_type, self.self_type_name, self.self_type_generic = _impl_self_type(container)
        cst, _, _ = _impl_self_type(caller_container)
        self.same_self_type = container is not None and caller_container is not None and cst == self.self_type


def find_const(repo, path, name, container=None):
    """`const NAME: T = E;` of the same file: in an impl of the calling item's type, else at module level (not in cfg(test) code)"""
    try:
        src, items = items_of(repo, path)
    except (OSError, ExtractError):
        return None
    mods = [it for it in items if it.kind == "mod"]
    out = []
    for it in items:
        if it.kind not in ("const", "static") or it.name != name:
            continue
        a = " ".join(t.text for t in sig(lex(src[it.attrs_start:it.start])))
        if "cfg (" in a or any(m.start <= it.start and it.end <= m.end and (m.name == "tests" or "cfg ( test )" in " ".join(t.text for t in sig(lex(src[m.attrs_start:m.start])))) for m in mods):
            continue
        c = it.container[-1] if it.container else None
        if c is not None and not _norm(c).startswith("impl"):
            c = None if any(m.name == c for m in mods) else "trait"
        if c == "trait":
            continue
        try:
            out.append(ConstDef(it.text, c, container))
        except (CannotInline, IndexError):
            return None
    same = [c for c in out if c.kind == "assoc" and c.same_self_type]
    if len(same) == 1:
        return same[0]
    free = [c for c in out if c.kind == "free"]
    if not same and len(free) == 1:
        return free[0]
    return None


def inline_const(item_text, cdef, log, at_fn_start=True):
    """uses `Self::NAME` / `Type::NAME` (associated constant of the calling item's type) or `NAME` (module-level constant) of a
    constant the unit does not know.  at_fn_start: the REAL declaration `const NAME: T = EXPR;` becomes the first item of the
    calling function's body and the uses become plain `NAME` (for a constant that an edit moved out of the function this restores
    the original text).  Otherwise (regions: the function's first statement is not part of the region) every use becomes
    `{ const VX_H_<k>_NAME: T = EXPR; VX_H_<k>_NAME }` (Verus wants distinct names for the items of one function)."""
    st = sig(lex(item_text))
    f = parse_fn(item_text)
    uses = []
    for k in range(f.body_open_idx + 1, f.body_close_idx):
        t = st[k]
        if t.kind != "ident" or t.text != cdef.name:
            continue
        if k > 0 and st[k - 1].text == "." and not (k > 1 and st[k - 2].text == "."):
            continue
        if st[k - 1].text in ("const", "static"):
            raise CannotInline("the calling item declares its own `const %s`" % cdef.name)
        if st[k - 1].text == "*" and not (st[k - 2].kind in ("ident", "num") and st[k - 2].text not in ("return", "in", "as", "if", "else", "match") or st[k - 2].text in (")", "]")):
            # `*NAME`: a deref of a lazy / configurable constant (rule R6, `//@ config`), a different shape - left alone
            raise CannotInline("`*%s` is a deref of a lazy/configurable constant (rule R6), not a plain constant" % cdef.name)
        nxt = st[k + 1].text if k + 1 < len(st) else ""
        if nxt in ("(", "!", "{", "|") or _path_sep_after(st, k) or (nxt == ":" and st[k - 1].text in ("{", ",")) or (nxt == "=" and st[k + 2].text == ">"):
            raise CannotInline("`%s` is used other than as a constant value" % cdef.name)
        first = k
        if _path_sep_before(st, k):
            q = st[k - 3]
            if cdef.kind != "assoc" or q.kind != "ident" or _path_sep_before(st, k - 3):
                raise CannotInline("`..::%s` does not name the constant found" % cdef.name)
            if not ((q.text == "Self" and cdef.same_self_type) or (q.text == cdef.self_type_name and not cdef.self_type_generic)):
                raise CannotInline("`%s::%s` does not name the constant found" % (q.text, cdef.name))
            first = k - 3
        elif cdef.kind != "free":
            raise CannotInline("plain `%s` but the constant found is an associated constant" % cdef.name)
        if st[first - 1].text in ("|", "=>", "let"):
            raise CannotInline("`%s` in pattern position" % cdef.name)
        uses.append((first, k))
    if not uses:
        raise CannotInline("no use of `%s` found" % cdef.name)
    edits = []
    if at_fn_start:
        edits.append((st[f.body_open_idx].end, st[f.body_open_idx].end, " %s" % cdef.decl))
        for first, k in uses:
            if first != k:
                edits.append((st[first].start, st[k].end, cdef.name))
    else:
        for n_, (first, k) in enumerate(uses, 1):
            fresh = "VX_H_%d_%s" % (n_, cdef.name)
            if any(t.text == fresh for t in st):
                raise CannotInline("fresh name `%s` is already in use" % fresh)
            decl = _rename(cdef.decl, {cdef.name: fresh})
            edits.append((st[first].start, st[k].end, _in_context(MARK_O + "{ %s %s }" % (decl, fresh) + MARK_C, st, first, k)))
    edits.sort()
    out = []
    pos = 0
    for a, b, r in edits:
        out.append(item_text[pos:a])
        out.append(r)
        pos = b
    out.append(item_text[pos:])
    key = "R9h inline %s %s at %d site(s)" % ("static (re-declared as const)" if getattr(cdef, "is_static", False) else "const", cdef.name, len(uses))
    log[key] = log.get(key, 0) + 1
    return "".join(out)


def _helper_loops(helper):
    """token sequences (texts, kinds) of the outermost loops of the helper body"""
    bst = sig(lex(helper.body))
    out = []
    k = 0
    while k < len(bst):
        t = bst[k]
        if t.kind == "ident" and t.text in ("for", "while", "loop") and not (t.text == "for" and k + 1 < len(bst) and bst[k + 1].text == "<") \
                and not (k > 0 and bst[k - 1].text == "." ):
            try:
                e = _block_end(bst, k, len(bst))
            except (CannotInline, ExtractError, IndexError):
                e = len(bst) - 1
            out.append(bst[k:e + 1])
            k = e + 1
            continue
        k += 1
    return out


def _alpha_window(seq, base, keep=()):
    """does `seq` occur in the token list `base` up to a consistent one-to-one renaming of variable-like identifiers?  Names in
    `keep` must stay as they are."""
    n = len(seq)

    def fixed(ts, i):
        t = ts[i]
        if t.kind != "ident":
            return True
        if t.text in _KW or not (t.text[0].islower() or t.text[0] == "_"):
            return True
        prev = ts[i - 1].text if i > 0 else ""
        nxt = ts[i + 1].text if i + 1 < len(ts) else ""
        return prev == "." or nxt in ("(", "!") or _path_sep_before(ts, i) or _path_sep_after(ts, i)
    for s0 in range(0, len(base) - n + 1):
        if base[s0].text != seq[0].text:
            continue
        fwd, bwd = {}, {}
        ok = True
        for i in range(n):
            a, b = seq[i], base[s0 + i]
            if a.kind != b.kind:
                ok = False
                break
            if a.text == b.text:
                if a.kind == "ident" and (fwd.get(a.text, b.text) != b.text or bwd.get(b.text, a.text) != a.text):
                    ok = False
                    break
                if a.kind == "ident":
                    fwd[a.text] = b.text
                    bwd[b.text] = a.text
                continue
            if a.kind != "ident" or fixed(seq, i) or fixed(base, s0 + i) or a.text in keep or b.text in keep:
                ok = False
                break
            if fwd.get(a.text, b.text) != b.text or bwd.get(b.text, a.text) != a.text:
                ok = False
                break
            fwd[a.text] = b.text
            bwd[b.text] = a.text
        if ok:
            return True
    return False


def loops_fit_baseline(helper, baseline_text):
    """Driver policy, not a semantic side condition: a unit's loop invariants are attached by POSITION (`//@ loop k`) and were
    written for the loops of the baseline source.  A helper body whose loop is not one of the baseline item's loops (moved verbatim,
    up to renaming of locals) is a new or restructured loop: the invariants would land on a loop they were not written for, fail,
    and be reported as a violation of the property.  Such a helper is not inlined (the unit stays undecided, as it was before the
    rule existed).  Returns None if every loop of the helper fits, else the reason."""
    loops_fit_baseline.needs_context = False
    loops = _helper_loops(helper)
    if not loops:
        return None
    if baseline_text is None:
        return "helper body contains a loop and the unit has no baseline text for the calling item to compare it with"
    base = sig(lex(baseline_text))
    # parameters must be called in the baseline loop what they are called in the helper: the verifier's loops know only their
    # invariants, and the invariants speak about the baseline's names - a binding `let keys: &[u64] = &file_lookup_keys;` made before
    # the loop is not known inside it (patch B09, U-SHWRITE: every invariant about `file_lookup_keys` failed on the loop over `keys`)
    keep = set(p[0] for p in helper.sig.params)
    for lp in loops:
        if not _alpha_window(lp, base, keep):
            if _alpha_window(lp, base):
                # the baseline loop with a PARAMETER renamed: the invariants fit once the loop sees the parameter binding made in
                # front of it, i.e. with `#[verifier::loop_isolation(false)]` on the item (the caller of this function asks for it)
                loops_fit_baseline.needs_context = True
                continue
            return "helper body contains a loop (`%s ..`) that is not a loop of the item's baseline source (up to renaming of the helper's own locals; parameters keep their names): positional loop invariants would not fit" % " ".join(t.text for t in lp[:6])
    return None


def inline_item(repo, path, container, item_text, names, log, info, item_key, region=False, baseline=None, check_loops=True):
    """Unit.generate's entry point.  For every requested name the item's raw text calls: look the helper up in the same source
    file and inline it; bodies that call further requested names are inlined in turn (depth <= MAX_DEPTH).  Failures are
    recorded in info['inline_failed'] (text unchanged for that helper), successes in info['inlined']."""
    text = item_text
    failed = set()
    for depth in range(MAX_DEPTH + 1):
        todo = [n for n in names if n not in failed and (refers_to(_body_of(text), n) or (n.isupper() and _uses_const(_body_of(text), n)))]
        if not todo:
            break
        if depth == MAX_DEPTH:
            for n in todo:
                _note(info, "inline_failed", "%s: %s: nesting deeper than %d" % (item_key, n, MAX_DEPTH))
            break
        for n in todo:
            h = find_helper(repo, path, n, container)
            if h is None:
                c = find_const(repo, path, n, container)
                if c is not None:
                    try:
                        text = inline_const(text, c, log, at_fn_start=not region)
                        _note(info, "inlined", "%s: const %s" % (item_key, n))
                        continue
                    except (CannotInline, ExtractError, IndexError) as e:
                        failed.add(n)
                        _note(info, "inline_failed", "%s: const %s: %s" % (item_key, n, str(e) or e.__class__.__name__))
                        continue
                failed.add(n)
                _note(info, "inline_failed", "%s: %s: no (unique) `fn %s` in %s" % (item_key, n, n, path))
                continue
            try:
                why = loops_fit_baseline(h, baseline) if check_loops and not isinstance(h, _Unparsed) else None
                if why:
                    raise CannotInline(why)
                text = inline_calls(text, h, log)
                _note(info, "inlined", "%s: %s" % (item_key, n))
                if check_loops and getattr(loops_fit_baseline, "needs_context", False):
                    _note(info, "inlined_loop_needs_context", item_key)
            except (CannotInline, ExtractError, IndexError) as e:
                failed.add(n)
                _note(info, "inline_failed", "%s: %s: %s" % (item_key, n, str(e) or e.__class__.__name__))
            except Exception as e:  # noqa: a defect of this rule must never take the driver down: refuse
                failed.add(n)
                _note(info, "inline_failed", "%s: %s: internal error %s: %s" % (item_key, n, e.__class__.__name__, e))
    return text


def new_callees(unit, repo):
    """names that the unit's extracted items call in the CURRENT source but did not mention in the baseline source (the text the
    unit was written against), and for which a helper `fn` exists in the item's own source file: what an edit extracted.  Used by
    the driver when generation itself fails (e.g. `loop 2 not found`: the loop now lives in the helper), where no compiler
    message names the helper."""
    from .extract import find_item
    base = unit._load_baseline()
    own = set(spec.name for kind, spec in unit.parts if kind == "item" and spec.kind in ("fn", "region"))
    out = []
    for kind, spec in unit.parts:
        if kind != "item" or spec.kind not in ("fn", "region"):
            continue
        try:
            it = find_item(repo, spec.path, "fn", spec.name, spec.container)
        except (ExtractError, OSError):
            continue
        btxt = base.get(unit.item_key(spec))
        if btxt is None or btxt == it.text:
            continue
        bnames = set(t.text for t in lex(btxt) if t.kind == "ident")
        st = sig(lex(_body_of(it.text)))
        for k, t in enumerate(st):
            if t.kind != "ident" or t.text in _KW or t.text in bnames or t.text in own or t.text in out:
                continue
            if k + 1 < len(st) and st[k + 1].text == "(" and not (k > 0 and st[k - 1].text == "fn") and (t.text[0].islower() or t.text[0] == "_"):
                if find_helper(repo, spec.path, t.text, spec.container) is not None:
                    out.append(t.text)
    return out


def _uses_const(text, name):
    """`name` is used and not declared in the text"""
    st = sig(lex(text))
    used = False
    for k, t in enumerate(st):
        if t.kind == "ident" and t.text == name:
            if k > 0 and st[k - 1].text in ("const", "static"):
                return False
            if not (k > 0 and st[k - 1].text == "."):
                used = True
    return used


def _body_of(text):
    """the text after the signature (a name in `inline` that only matches a parameter name must not trigger anything)"""
    try:
        f = parse_fn(text)
        return text[f.body_open:]
    except (CannotInline, IndexError, ExtractError):
        return text


def _note(info, key, line):
    lst = info.setdefault(key, [])
    if line not in lst:
        lst.append(line)
