"""Kani units: bounded/complete model checking of small, loop-free or fixed-size pieces of /repo (DESIGN.md sections 2.1, 4).

A unit lives in  <here>/kani/<K-NAME>/  and consists of
  unit.json    what to extract from the repository, how the generated crate is laid out, the harness list
  harness.rs   the #[kani::proof] functions (written by hand; they only *call* the extracted code)
  *.rs shims   optional hand-written stand-ins for non-std dependencies (every one is listed as trusted)

`run_kani_unit(here, repo, name, tier)` regenerates a crate under <here>/build/kani/<K-NAME>/ from the CURRENT text of
`repo` (never from a cached copy), runs `cargo kani --harness <h>` once per harness (at most 3 cargo-kani processes at a
time on the whole machine), parses CBMC's per-check results and classifies:

  ok         every check of every harness SUCCESS, every cover SATISFIED
  violation  at least one check FAILED (a concrete counterexample is attached by a --concrete-playback=print re-run)
  undecided  extraction failed, the crate does not compile, timeout, out of memory, an unwinding assertion failed
             (bound too small), a cover is unreachable / missing (vacuous harness), no checks were produced

Harnesses of tier "thorough" are skipped in the quick tier, listed in `skipped_in_quick`, and never counted.
Nothing is cached across runs that could mask a source change: the crate text is regenerated from `repo`, and the build
products of the generated crate and of every path dependency are deleted before each compile.

See kani/README.md for the file formats.
"""
import concurrent.futures as cf
import fcntl
import glob
import hashlib
import json
import os
import re
import resource
import shutil
import signal
import subprocess
import time

from . import extract as X
from . import rewrite as R
from .lexer import LexError

MAX_PROCS = 3  # machine-wide limit of concurrently running cargo-kani processes
SLOT_DIR = "/tmp/KANI/slots"
MEM_LIMIT_BYTES = 24 * 1024 ** 3  # address-space limit per cargo-kani process tree member (CBMC reports "out of memory")


class KaniUnitError(Exception):
    pass


# ----------------------------------------------------------------------------------------------------------------------
# machine-wide slots (flock), so that several `vx check` processes together never run more than MAX_PROCS cargo-kani
class _Slot:
    def __enter__(self):
        os.makedirs(SLOT_DIR, exist_ok=True)
        self.fd = None
        while self.fd is None:
            for k in range(MAX_PROCS):
                fd = os.open(os.path.join(SLOT_DIR, "slot%d.lock" % k), os.O_CREAT | os.O_RDWR, 0o666)
                try:
                    fcntl.flock(fd, fcntl.LOCK_EX | fcntl.LOCK_NB)
                    self.fd = fd
                    break
                except OSError:
                    os.close(fd)
            if self.fd is None:
                time.sleep(0.5)
        return self

    def __exit__(self, *a):
        try:
            fcntl.flock(self.fd, fcntl.LOCK_UN)
        finally:
            os.close(self.fd)


# ----------------------------------------------------------------------------------------------------------------------
# generation
def _sha(s):
    return hashlib.sha256(s.encode()).hexdigest()


def _line_of(src, off):
    return src.count("\n", 0, off) + 1


def _item_text(it):
    """verbatim text of an item INCLUDING its attributes (#[repr(C, packed)], #[derive(..)], #[inline] matter to Kani)"""
    return it.src[it.attrs_start:it.end]


def _fns_inside(repo, relpath, it):
    """fn items lying inside the span of item `it` (an impl / trait block)"""
    _, items = X.items_of(repo, relpath)
    return [f for f in items if f.kind == "fn" and f.start >= it.start and f.end <= it.end and f is not it]


_RULES = {"R1": R.r1_async, "R3": R.r3_logs}


def _extract_source(repo, spec, gsubst, log):
    rel = spec["file"]
    kind = spec["kind"]
    name = spec["name"]
    cont = spec.get("container")
    it = X.find_item(repo, rel, kind, name, cont)
    raw = _item_text(it)
    a, b = _line_of(it.src, it.attrs_start), _line_of(it.src, it.end)
    text = raw
    fired = {}
    for rn in spec.get("rules", []):
        if rn not in _RULES:
            raise KaniUnitError("unknown rewrite rule %s (available for Kani units: %s)" % (rn, sorted(_RULES)))
        text = _RULES[rn](text, fired)
    for s in list(spec.get("subst", [])) + list(gsubst):
        text = R.subst(text, s["from"], s["to"], fired, must=not s.get("optional", s in gsubst))
    reasons = {"subst `%s` => `%s`" % (x["from"], x["to"]): x.get("reason", "") for x in list(spec.get("subst", [])) + list(gsubst)}
    for k, v in fired.items():
        log.append("%s:%s %s: %s x%d%s" % (rel, kind, name, k, v, (" -- " + reasons[k]) if reasons.get(k) else ""))
    ident = "%s::%s%s%s" % (rel, (cont + "::") if cont else "", "" if kind == "fn" else kind + " ", name)
    rec = {"id": ident, "kind": kind, "name": name, "container": cont, "path": rel, "lines": [a, b], "sha256": _sha(raw),
           "rewritten": text != raw, "observe_only": bool(spec.get("observe_only"))}
    fns = []
    if kind == "fn":
        fns.append({"function": ident, "source": "%s:%d-%d" % (rel, a, b), "sha256": _sha(raw), "under_contract": True})
    elif kind in ("impl", "trait"):
        for f in _fns_inside(repo, rel, it):
            ft = _item_text(f)
            fa, fb = _line_of(f.src, f.attrs_start), _line_of(f.src, f.end)
            fns.append({"function": "%s::%s::%s" % (rel, " ".join(it.name.split()), f.name), "source": "%s:%d-%d" % (rel, fa, fb),
                        "sha256": _sha(ft), "under_contract": True})
    return text, rec, fns


def _read(p):
    with open(p) as f:
        return f.read()


def build_dir(here, repo, name):
    """/repo -> build/kani/<name>; any other tree (mutated scratch copy) gets its own directory so runs cannot collide"""
    rp = os.path.realpath(repo)
    tag = "" if rp == "/repo" else "@" + _sha(rp)[:8]
    return os.path.join(here, "build", "kani", name + tag)


def generate(here, repo, name):
    """-> (crate_dir, meta).  Raises KaniUnitError / ExtractError / RewriteError / LexError / OSError."""
    X._cache.clear()  # always re-read the repository: `repo` may be a scratch copy that was edited since the last call
    udir = os.path.join(here, "kani", name)
    try:
        cfg = json.loads(_read(os.path.join(udir, "unit.json")))
    except (OSError, ValueError) as e:
        raise KaniUnitError("cannot read %s/unit.json: %s" % (udir, e))
    crate = cfg.get("crate", name.lower().replace("-", "_"))
    out = build_dir(here, repo, name)
    os.makedirs(os.path.join(out, "src"), exist_ok=True)
    os.makedirs(os.path.join(out, ".cargo"), exist_ok=True)
    os.makedirs(os.path.join(out, "logs"), exist_ok=True)

    log = []
    items = []
    functions = []
    gsubst = cfg.get("gsubst", [])
    # modules, in declared order; "" is the crate root
    mods = []
    for m in cfg.get("modules", []):
        mods.append({"name": m["name"], "preamble": m.get("preamble", []), "shims": m.get("shims", []), "parts": []})

    def mod_of(n):
        for m in mods:
            if m["name"] == n:
                return m
        m = {"name": n, "preamble": [], "shims": [], "parts": []}
        mods.append(m)
        return m

    for spec in cfg.get("sources", []):
        text, rec, fns = _extract_source(repo, spec, gsubst, log)
        items.append(rec)
        functions += fns
        if spec.get("observe_only"):
            continue  # recorded (path, span, hash) but not copied: the harness links the real crate through a path dependency
        mod_of(spec.get("module", ""))["parts"].append((spec, text, rec))

    harness_mod = cfg.get("harness_module", "")
    hsrc = _read(os.path.join(udir, cfg.get("harness_file", "harness.rs")))

    def render_module(m):
        lines = []
        for p in m["preamble"]:
            lines.append(p)
        for sh in m["shims"]:
            lines.append("// ---- shim %s (hand-written, trusted; see unit.json `trusted`) ----" % sh)
            lines.append(_read(os.path.join(udir, sh)).rstrip("\n"))
            lines.append("// ---- end shim %s ----" % sh)
        open_cont = None
        for spec, text, rec in m["parts"]:
            cont = spec.get("container") if spec["kind"] in ("fn", "const", "type") else None
            if cont != open_cont:
                if open_cont is not None:
                    lines.append("}")
                if cont is not None:
                    lines.append("%s {" % cont)
                open_cont = cont
            lines.append("// vx-item %s @ %s:%d-%d sha256=%s%s" % (rec["id"], rec["path"], rec["lines"][0], rec["lines"][1], rec["sha256"][:16],
                                                                 " (rewritten, see trusted)" if rec["rewritten"] else ""))
            lines.append(text)
            lines.append("// vx-end")
        if open_cont is not None:
            lines.append("}")
        if m["name"] == harness_mod:
            lines.append("#[cfg(kani)]")
            lines.append("mod kani_harness {")
            lines.append("#[allow(unused_imports)] use super::*;")
            lines.append("// ---- harness.rs ----")
            lines.append(hsrc.rstrip("\n"))
            lines.append("// ---- end harness.rs ----")
            lines.append("}")
        return lines

    if harness_mod and not any(m["name"] == harness_mod for m in mods):
        mod_of(harness_mod)
    if not harness_mod and not any(m["name"] == "" for m in mods):
        mods.insert(0, {"name": "", "preamble": [], "shims": [], "parts": []})

    # nest modules a::b
    tree = {}

    def node(path):
        cur = tree
        for seg in path:
            cur = cur.setdefault("children", {}).setdefault(seg, {})
        return cur

    order = []
    for m in mods:
        path = [s for s in m["name"].split("::") if s]
        n = node(path)
        n.setdefault("mods", []).append(m)
        order.append(path)

    def emit(n, depth):
        out_l = []
        for m in n.get("mods", []):
            out_l += render_module(m)
        for seg, ch in n.get("children", {}).items():
            out_l.append("pub mod %s {" % seg)
            out_l += emit(ch, depth + 1)
            out_l.append("}")
        return out_l

    header = ["// GENERATED by vxlib/kani.py for unit %s from %s -- do not edit; regenerated on every run." % (name, repo),
              "#![allow(dead_code, unused_imports, unused_variables, unused_mut, unused_macros, non_snake_case, clippy::all)]"]
    for ln in cfg.get("crate_attrs", []):
        header.append(ln)
    lib = "\n".join(header + emit(tree, 0)) + "\n"
    with open(os.path.join(out, "src", "lib.rs"), "w") as f:
        f.write(lib)

    deps = []
    path_deps = cfg.get("path_deps", {})
    for dn, rel in path_deps.items():
        p = os.path.join(repo, rel)
        if not os.path.isdir(p):
            raise KaniUnitError("path dependency %s: %s does not exist" % (dn, p))
        deps.append('%s = { path = "%s" }' % (dn, p))
    # registry dependencies at the exact version the repository's Cargo.lock pins (offline: must be in the local registry cache)
    registry_deps = cfg.get("registry_deps", {})
    for dn, spec in registry_deps.items():
        if isinstance(spec, str):
            deps.append('%s = "=%s"' % (dn, spec))
        else:
            feats = ", ".join('"%s"' % x for x in spec.get("features", []))
            deps.append('%s = { version = "=%s", default-features = %s, features = [%s] }' % (dn, spec["version"], "true" if spec.get("default_features", True) else "false", feats))
    cargo = ["[package]", 'name = "%s"' % crate, 'version = "0.0.0"', 'edition = "2021"', "publish = false", "", "[lib]", 'path = "src/lib.rs"', "",
             "[dependencies]"] + deps + ["", "[workspace]", "", "[lints.rust]", "unexpected_cfgs = { level = \"allow\", check-cfg = ['cfg(kani)'] }", ""]
    with open(os.path.join(out, "Cargo.toml"), "w") as f:
        f.write("\n".join(cargo))
    with open(os.path.join(out, ".cargo", "config.toml"), "w") as f:
        f.write("[net]\noffline = true\n")
    lock = os.path.join(out, "Cargo.lock")
    if path_deps or registry_deps:
        src_lock = os.path.join(repo, "Cargo.lock")
        if not os.path.exists(src_lock):
            raise KaniUnitError("%s missing (needed to pin the path dependencies' own dependencies offline)" % src_lock)
        shutil.copyfile(src_lock, lock)
    elif os.path.exists(lock):
        os.remove(lock)

    # static vacuity rule: every #[kani::proof] function must contain a kani::cover!
    hfns = _harness_fns(hsrc)
    full_prefix = (harness_mod + "::" if harness_mod else "") + "kani_harness::"  # Kani's fully-qualified harness names omit the crate
    meta = {"cfg": cfg, "crate": crate, "dir": out, "lib": lib, "items": items, "functions": functions, "rewrites": log, "harness_fns": hfns,
            "full_prefix": full_prefix, "udir": udir}
    return out, meta


def _harness_fns(hsrc):
    """name -> body text of every fn in harness.rs carrying #[kani::proof]"""
    st = X.sig(X.lex(hsrc))
    items = []
    X._scan_items(hsrc, st, 0, len(st), "harness.rs", [], items)
    fns = {it.name: it for it in items if it.kind == "fn"}

    def has_cover(nm, depth=0):
        body = hsrc[fns[nm].body_open:fns[nm].end]
        if "kani::cover!" in body:
            return True
        if depth >= 3:
            return False
        # a helper of harness.rs named in the body (the dynamic check on CBMC's cover results is what finally decides)
        return any(h != nm and re.search(r"\b%s\s*(::\s*<|\()" % re.escape(h), body) and has_cover(h, depth + 1) for h in fns)

    out = {}
    for it in fns.values():
        attrs = hsrc[it.attrs_start:it.header_start]
        if "kani::proof" in attrs:
            out[it.name] = {"text": hsrc[it.attrs_start:it.end], "has_cover": has_cover(it.name), "attrs": attrs}
    return out


# ----------------------------------------------------------------------------------------------------------------------
# running
def _limits():
    os.setsid()
    try:
        resource.setrlimit(resource.RLIMIT_AS, (MEM_LIMIT_BYTES, MEM_LIMIT_BYTES))
    except (ValueError, OSError):
        pass


def _run(cmd, cwd, timeout, target_dir):
    env = dict(os.environ, CARGO_NET_OFFLINE="true", CARGO_TERM_COLOR="never", NO_COLOR="1")
    env.pop("RUSTFLAGS", None)
    t0 = time.time()
    with _Slot():
        p = subprocess.Popen(cmd, cwd=cwd, env=env, stdout=subprocess.PIPE, stderr=subprocess.PIPE, text=True, preexec_fn=_limits)
        try:
            so, se = p.communicate(timeout=timeout)
            to = False
        except subprocess.TimeoutExpired:
            try:
                os.killpg(p.pid, signal.SIGKILL)  # the whole group: cargo, kani-driver, cbmc
            except OSError:
                pass
            so, se = p.communicate()
            to = True
    return {"rc": p.returncode, "stdout": so or "", "stderr": se or "", "timeout": to, "wall_s": time.time() - t0}


FAIL = ("FAILURE", "FAILED")  # Kani 0.68 prints FAILURE; older/other formats FAILED
_CHECK_HEAD = re.compile(r"^Check (\d+): (.+?)[ \t]*$", re.M)


def parse_output(text):
    """per-check results of `--output-format=regular` (check ids may contain spaces, descriptions may span lines)"""
    checks = []
    heads = list(_CHECK_HEAD.finditer(text))
    for k, m in enumerate(heads):
        end = heads[k + 1].start() if k + 1 < len(heads) else len(text)
        blk = text[m.end():end]
        stop = blk.find("\n\n")
        if stop >= 0:
            blk = blk[:stop + 1]
        sm = re.search(r"^\s*- Status: (\w+)", blk, re.M)
        if not sm:
            continue
        dm = re.search(r"^\s*- Description: \"(.*?)\"[ \t]*(?:\n\s*- Location:|\n?\Z)", blk, re.M | re.S)
        lm0 = re.search(r"^\s*- Location: (.*)$", blk, re.M)
        cid = m.group(2)
        loc = (lm0.group(1) if lm0 else "").strip()
        fn = None
        file_line = None
        lm = re.match(r"(\S+?):(\d+):(\d+)(?: in function (.+))?$", loc)
        if lm:
            file_line = (lm.group(1), int(lm.group(2)))
            fn = lm.group(4)
        else:
            lm = re.match(r"(?:Unknown file|<builtin-library-[^>]*>)(?: in function (.+))?$", loc)
            if lm:
                fn = lm.group(1)
        parts = cid.split(".")
        kind = parts[-2] if len(parts) >= 2 else cid
        desc = re.sub(r"\s+", " ", dm.group(1)) if dm else ""
        if len(desc) >= 2 and desc[0] == '"' and desc[-1] == '"':
            desc = desc[1:-1]  # assert!(c, "msg") is printed with its own quotes
        checks.append({"n": int(m.group(1)), "id": cid, "status": sm.group(1), "description": desc, "location": loc, "function": fn,
                       "file_line": file_line, "class": kind})
    res = {"checks": checks}
    m = re.search(r"VERIFICATION:- (\w+)", text)
    res["verdict"] = m.group(1) if m else None
    m = re.search(r"Verification Time: ([0-9.]+)s", text)
    res["time_s"] = float(m.group(1)) if m else 0.0
    m = re.search(r"\*\* (\d+) of (\d+) failed", text)
    res["summary_failed"] = (int(m.group(1)), int(m.group(2))) if m else None
    m = re.search(r"\*\* (\d+) of (\d+) cover properties satisfied", text)
    res["summary_cover"] = (int(m.group(1)), int(m.group(2))) if m else None
    res["oom"] = bool(re.search(r"[Oo]ut of memory|std::bad_alloc|memory exhausted|Cannot allocate memory|SIGKILL|signal: 9", text))
    return res


def _is_cover(c):
    return c["class"] == "cover" or c["status"] in ("SATISFIED", "UNSATISFIABLE", "UNREACHABLE") and ".cover." in c["id"]


def _is_unwind(c):
    return c["class"] == "unwind" or "unwinding assertion" in c["description"]


def _playback_blocks(text):
    """every `Concrete playback unit test` Kani printed: [{kind, description, unit_test}] (one per failed check / satisfied cover)"""
    out = []
    for m in re.finditer(r"Concrete playback unit test for `[^`]*`:\s*\n```\n(.*?)\n```", text, re.S):
        blk = m.group(1)
        h = re.search(r"/// Check for `([^`]*)`: \"(.*)\"\s*$", blk, re.M)
        out.append({"kind": h.group(1) if h else None, "description": h.group(2) if h else None, "unit_test": blk})
    return out


def _decode_playback(block):
    """the `// value` comments Kani prints next to each byte vector, in harness order of kani::any() calls"""
    vals = []
    if not block:
        return vals
    for m in re.finditer(r"^\s*//\s*(.+?)\s*\n\s*vec!\[([^\]]*)\]", block, re.M):
        vals.append({"value": m.group(1), "bytes": [int(x) for x in re.findall(r"\d+", m.group(2))]})
    return vals


def _item_at(lib_lines, ln):
    """the `// vx-item` header enclosing generated line ln, if any"""
    for k in range(min(ln, len(lib_lines)) - 1, -1, -1):
        s = lib_lines[k]
        if s.startswith("// vx-end") and k < ln - 1:
            return None
        m = re.match(r"// vx-item (.+?) @ (\S+):(\d+)-(\d+)", s)
        if m:
            off = ln - (k + 2)  # first text line of the item is generated line k+2
            return {"id": m.group(1), "path": m.group(2), "lines": [int(m.group(3)), int(m.group(4))], "src_line": int(m.group(3)) + off, "gen_start": k + 2}
    return None


def run_harness(meta, h, tier):
    cfg = meta["cfg"]
    name = h["name"]
    over = h.get("thorough", {}) if tier == "thorough" else {}
    unwind = over.get("unwind", h.get("unwind"))
    timeout = over.get("timeout", h.get("timeout", 240))
    full = meta["full_prefix"] + name
    flags = list(cfg.get("kani_flags", [])) + list(h.get("kani_flags", []))
    # concrete playback is requested in the SAME run: it costs nothing when all checks pass (CBMC prints traces only for failed
    # checks and satisfied covers) and saves a second, equally long run when a check fails
    base = ["cargo", "kani", "--output-format=regular", "--harness", full, "--exact", "-Z", "concrete-playback", "--concrete-playback=print"] + flags
    if unwind is not None:
        base += ["--unwind", str(unwind)]
    cmd_s = "cd %s && CARGO_NET_OFFLINE=true %s" % (meta["dir"], " ".join(base))
    r = _run(base, meta["dir"], timeout, None)
    text = r["stdout"] + "\n" + r["stderr"]
    with open(os.path.join(meta["dir"], "logs", name + ".txt"), "w") as f:
        f.write("$ %s\n# rc=%s timeout=%s wall=%.1fs\n" % (cmd_s, r["rc"], r["timeout"], r["wall_s"]))
        f.write(text)
    res = parse_output(text)
    res.update({"harness": name, "cmd": cmd_s, "rc": r["rc"], "timeout": r["timeout"], "wall_s": round(r["wall_s"], 1),
                "playback": [b for b in _playback_blocks(text) if b["kind"] != "cover"],
                "unwind": unwind, "timeout_s": timeout, "raw_tail": text[-3000:]})
    return res


def run_kani_unit(here, repo, name, tier, only_harnesses=None):
    """see module docstring; serialised per build directory (two `vx check` of different properties may share a unit).
    `only_harnesses` (sensitivity runs only): run exactly these harnesses whatever their tier; the result is marked partial."""
    bd = build_dir(here, repo, name)
    os.makedirs(os.path.dirname(bd), exist_ok=True)
    fd = os.open(bd + ".lock", os.O_CREAT | os.O_RDWR, 0o666)
    try:
        fcntl.flock(fd, fcntl.LOCK_EX)
        return _run_kani_unit(here, repo, name, tier, only_harnesses)
    finally:
        try:
            fcntl.flock(fd, fcntl.LOCK_UN)
        finally:
            os.close(fd)


def _run_kani_unit(here, repo, name, tier, only_harnesses=None):
    t0 = time.time()
    r = {"unit": name, "status": "ok", "undecided_reason": None, "failures": [], "obligations": 0, "discharged": 0, "trusted": [], "samples": [],
         "bounded": [], "cmd": "", "solver_ms": 0, "functions": [], "harnesses": [], "covers": {"expected": 0, "satisfied": 0}}
    reasons = []

    def undecided(why):
        reasons.append(why)

    try:
        out, meta = generate(here, repo, name)
    except (KaniUnitError, X.ExtractError, R.RewriteError, LexError, OSError, KeyError) as e:
        r["status"] = "undecided"
        r["undecided_reason"] = "generation failed (%s): %s" % (type(e).__name__, e)
        return r
    cfg = meta["cfg"]
    r["generated"] = os.path.join(out, "src", "lib.rs")
    r["functions"] = meta["functions"]
    r["items"] = meta["items"]
    r["props"] = cfg.get("props", [])
    r["trusted"] = list(cfg.get("trusted", [])) + ["rewrite: " + x for x in meta["rewrites"]] + ["Kani 0.68 / CBMC 6.11 / rustc MIR semantics as modelled by Kani are trusted"]
    lib_lines = meta["lib"].split("\n")

    hs = []
    r["tier"] = tier
    r["skipped_in_quick"] = []
    if only_harnesses:
        r["partial"] = sorted(only_harnesses)
    for h in cfg.get("harnesses", []):
        if only_harnesses:
            if h["name"] in only_harnesses:
                hs.append(h)
            continue
        if h.get("tier", "quick") == "thorough" and tier != "thorough":
            # not run, not counted: obligations/discharged/bounded only ever describe harnesses that were executed in this run
            r["skipped_in_quick"].append({"harness": "%s/%s" % (name, h["name"]), "complete": bool(h.get("complete")), "props": h.get("props") or cfg.get("props"),
                                          "claim": h.get("claim"), "bound": h.get("bound")})
            continue
        hs.append(h)
    declared = set(h["name"] for h in cfg.get("harnesses", []))
    for hn, hf in meta["harness_fns"].items():
        if hn not in declared:
            undecided("harness.rs defines #[kani::proof] fn %s that unit.json does not list" % hn)
    for h in hs:
        hf = meta["harness_fns"].get(h["name"])
        if hf is None:
            undecided("harness %s listed in unit.json is not a #[kani::proof] fn in harness.rs" % h["name"])
        elif not hf["has_cover"]:
            undecided("harness %s contains no kani::cover!(..) reachability check" % h["name"])
    if not hs:
        undecided("no harness selected for tier %s" % tier)
    if reasons:
        r["status"] = "undecided"
        r["undecided_reason"] = "; ".join(reasons)
        return r

    # cargo decides freshness of a path dependency by file mtimes; a scratch tree restored with `rsync -a` / `cp -p` can carry an
    # OLDER mtime than the previous build and would be taken as fresh.  Drop the fingerprints of the path dependencies (and of the
    # generated crate) so that they are rebuilt from the current text on every run; registry dependencies stay cached.
    for dn in list(cfg.get("path_deps", {})) + [meta["crate"]]:
        pats = [os.path.join(meta["dir"], "target", "**", ".fingerprint", dn + "-*"),  # classic target layout
                os.path.join(meta["dir"], "target", "**", "debug", "build", dn)]  # per-package layout of the toolchain Kani 0.68 ships
        for pat in pats:
            for fp in glob.glob(pat, recursive=True):
                shutil.rmtree(fp, ignore_errors=True)
    # step 0: compile once (crate + path dependencies); a compile error is a tool limit, never an alarm
    cc = ["cargo", "kani", "--only-codegen"] + _z_flags(cfg.get("kani_flags", []))
    c0 = _run(cc, meta["dir"], cfg.get("compile_timeout", 900), None)
    ctext = c0["stdout"] + "\n" + c0["stderr"]
    with open(os.path.join(meta["dir"], "logs", "_compile.txt"), "w") as f:
        f.write("$ %s\n# rc=%s timeout=%s wall=%.1fs\n%s" % (" ".join(cc), c0["rc"], c0["timeout"], c0["wall_s"], ctext))
    r["compile_s"] = round(c0["wall_s"], 1)
    if c0["timeout"] or c0["rc"] != 0:
        r["status"] = "undecided"
        r["undecided_reason"] = "generated crate %s does not compile under cargo kani (rc=%s timeout=%s): %s" % (meta["dir"], c0["rc"], c0["timeout"], _errors_of(ctext))
        r["cmd"] = "cd %s && CARGO_NET_OFFLINE=true %s" % (meta["dir"], " ".join(cc))
        return r
    with cf.ThreadPoolExecutor(MAX_PROCS) as ex:
        results = list(ex.map(lambda h: run_harness(meta, h, tier), hs))

    cmds = []
    for h, res in zip(hs, results):
        if res is None:
            continue
        cmds.append(res["cmd"])
        complete = bool(h.get("complete"))
        tags = h.get("props") or cfg.get("props") or None
        checks = [c for c in res["checks"] if not _is_cover(c)]
        covers = [c for c in res["checks"] if _is_cover(c)]
        failed = [c for c in checks if c["status"] in FAIL]
        unwind_failed = [c for c in failed if _is_unwind(c)]
        real_failed = [c for c in failed if not _is_unwind(c)]
        # UNREACHABLE = the check sits in code CBMC proved dead (e.g. the panic arm of a match): discharged, counted separately
        n_ok = sum(1 for c in checks if c["status"] in ("SUCCESS", "UNREACHABLE"))
        n_dead = sum(1 for c in checks if c["status"] == "UNREACHABLE")
        hstat = "ok"
        why = None
        if res["timeout"]:
            hstat, why = "undecided", "timeout after %ss" % res["timeout_s"]
        elif res["oom"] and res["verdict"] != "SUCCESSFUL" and not real_failed:
            hstat, why = "undecided", "out of memory"
        elif not res["checks"] or res["verdict"] is None:
            hstat, why = "undecided", "cargo kani produced no verification result (compile error or tool failure, rc=%s): %s" % (res["rc"], _errors_of(res["raw_tail"]))
        elif res["summary_failed"] and (res["summary_failed"][1] != len(checks) or res["summary_failed"][0] != len(failed)):
            # the parser and Kani's own summary line disagree: never guess
            hstat, why = "undecided", "output parse mismatch: parsed %d checks / %d failed, Kani reports %d / %d" % (
                len(checks), len(failed), res["summary_failed"][1], res["summary_failed"][0])
        elif real_failed:
            hstat = "violation"
        elif unwind_failed:
            hstat, why = "undecided", "unwinding assertion failed: unwind bound %s is too small for %s" % (res["unwind"], sorted(set(c["function"] or "?" for c in unwind_failed))[:4])
        elif any(c["status"] not in ("SUCCESS", "UNREACHABLE") for c in checks):
            bad = [c for c in checks if c["status"] not in ("SUCCESS", "UNREACHABLE")][:3]
            hstat, why = "undecided", "checks with status %s: %s" % (sorted(set(c["status"] for c in bad)), [c["id"] for c in bad])
        elif res["verdict"] != "SUCCESSFUL":
            hstat, why = "undecided", "verdict %s without a failed check" % res["verdict"]
        r["covers"]["expected"] += len(covers)
        r["covers"]["satisfied"] += sum(1 for c in covers if c["status"] == "SATISFIED")
        if hstat == "ok":
            if not covers:
                hstat, why = "undecided", "no cover check reported: harness may be vacuous"
            elif any(c["status"] != "SATISFIED" for c in covers):
                bad = [c for c in covers if c["status"] != "SATISFIED"]
                hstat, why = "undecided", "cover not satisfied (vacuous harness or contradictory kani::assume): %s" % [(c["description"], c["status"]) for c in bad][:4]
        r["solver_ms"] += int(res["time_s"] * 1000)
        summary = {"harness": h["name"], "complete": complete, "status": hstat, "why": why, "checks": len(checks), "success": n_ok, "in_dead_code": n_dead, "covers": len(covers),
                   "covers_satisfied": sum(1 for c in covers if c["status"] == "SATISFIED"), "cbmc_s": res["time_s"], "wall_s": res["wall_s"],
                   "unwind": res["unwind"], "claim": h.get("claim"), "props": tags}
        r["harnesses"].append(summary)
        if complete:
            if hstat in ("ok", "violation"):
                r["obligations"] += len(checks)
                r["discharged"] += n_ok
        else:
            r["bounded"].append({"harness": "%s/%s" % (name, h["name"]), "bound": h.get("bound", "unwind %s" % res["unwind"]), "checks": len(checks), "status": hstat,
                                 "claim": h.get("claim")})
        if hstat == "undecided":
            undecided("%s: %s" % (h["name"], why))
        for c in real_failed:
            site = ""
            fn_id = c["function"] or h["name"]
            source = None
            if c["file_line"] and c["file_line"][0] == "src/lib.rs":
                ln = c["file_line"][1]
                if 1 <= ln <= len(lib_lines):
                    site = lib_lines[ln - 1].strip()
                it = _item_at(lib_lines, ln)
                if it:
                    source = "%s:%d (item %s, lines %d-%d)" % (it["path"], it["src_line"], it["id"], it["lines"][0], it["lines"][1])
            blk = None
            for b in res["playback"]:
                if b["description"] is not None and (b["description"] == c["description"] or b["description"].strip('"') == c["description"]):
                    blk = b
                    break
            note = None
            if blk is None and res["playback"]:
                blk = res["playback"][0]
                note = "no playback test is labelled with this check; showing the one Kani printed for: %s" % blk["description"]
            elif blk is None:
                note = "Kani printed no concrete playback test for this harness"
            vo = {"check": c["id"], "status": c["status"], "description": c["description"], "location": c["location"], "harness": h["name"],
                  "harness_claim": h.get("claim"), "complete": complete, "bound": None if complete else h.get("bound"),
                  "counterexample": _decode_playback(blk["unit_test"]) if blk else None, "concrete_playback_unit_test": blk["unit_test"] if blk else None,
                  "playback_note": note, "cmd": res["cmd"],
                  "all_failed_checks_of_harness": [{"id": x["id"], "description": x["description"], "location": x["location"]} for x in real_failed][:12]}
            r["failures"].append({"id": "%s/%s | %s | %s" % (name, h["name"], c["class"], c["description"][:160]), "function": "%s/%s" % (name, fn_id),
                                  "kind": c["class"], "clause": c["description"][:300], "clause_origin": "%s harness %s" % (name, h["name"]), "site": site[:300],
                                  "source": source, "tags": tags, "verifier_output": vo})
        # samples: the harness claim and the first few written-out checks
        if len(r["samples"]) < 6:
            ex_checks = [c for c in checks if c["file_line"] and c["file_line"][0] == "src/lib.rs"][:2]
            r["samples"].append({"harness": "%s/%s" % (name, h["name"]), "complete": complete, "claim": h.get("claim"),
                                 "checks": [{"id": c["id"], "description": c["description"], "location": c["location"], "status": c["status"]} for c in ex_checks],
                                 "source": (meta["harness_fns"].get(h["name"]) or {}).get("text", "")[:1200]})
    r["cmd"] = _condense(cmds)
    if "@" in os.path.basename(out):
        # a scratch tree (sensitivity run, replay of a violation): keep src/ and logs/, drop the 50-250 MB of build products
        shutil.rmtree(os.path.join(out, "target"), ignore_errors=True)
    r["wall_s"] = round(time.time() - t0, 1)
    # de-duplicate failures that several harnesses report identically
    seen = set()
    uniq = []
    for fl in r["failures"]:
        if fl["id"] in seen:
            continue
        seen.add(fl["id"])
        uniq.append(fl)
    r["failures"] = uniq
    if r["failures"]:
        r["status"] = "violation"
        r["undecided_reason"] = "; ".join(reasons) if reasons else None
    elif reasons:
        r["status"] = "undecided"
        r["undecided_reason"] = "; ".join(reasons)
    elif r["obligations"] == 0 and not r["bounded"]:
        r["status"] = "undecided"
        r["undecided_reason"] = "no obligations were generated"
    return r


def _condense(cmds):
    """one shell line per distinct flag set: `cd D && for h in a b c; do cargo kani ... --harness P::$h --exact ...; done`"""
    groups = {}
    order = []
    for c in cmds:
        m = re.match(r"(.* --harness )(\S*?::)?([A-Za-z0-9_]+)( --exact.*)$", c)
        if not m:
            groups.setdefault(c, [])
            order.append(c) if c not in order else None
            continue
        key = (m.group(1), m.group(2) or "", m.group(4))
        if key not in groups:
            groups[key] = []
            order.append(key)
        groups[key].append(m.group(3))
    out = []
    for key in order:
        if isinstance(key, tuple):
            pre, mod, post = key
            cd, rest = pre.split(" && ", 1)
            out.append("%s && for h in %s; do %s%s$h%s; done" % (cd, " ".join(groups[key]), rest, mod, post))
        else:
            out.append(key)
    return "; ".join(out)


def _z_flags(flags):
    """the `-Z feature` pairs of a flag list (needed for compilation as well as for verification)"""
    out = []
    k = 0
    while k < len(flags):
        if flags[k] == "-Z" and k + 1 < len(flags):
            out += flags[k:k + 2]
            k += 2
        else:
            k += 1
    return out


def _errors_of(text):
    errs = re.findall(r"^(error(?:\[E\d+\])?: .*(?:\n\s+-->.*)?)", text, re.M)
    if errs:
        return " | ".join(e.replace("\n", " ") for e in errs[:4])[:900]
    return text[-600:]
