"""Kani units (filled in later)."""


def run_kani_unit(here, repo, name, tier):
    return {"unit": name, "status": "undecided", "undecided_reason": "kani runner not built", "failures": [], "obligations": 0, "discharged": 0}
