#!/bin/bash
# seedregress.sh [name-prefix...] — re-run the property's quick check against every stored seeded change (seeded/*/patch.diff, or
# patch_on_*.diff when the original no longer applies), each applied to a scratch worktree of /repo HEAD. Expected: rc=1 for all.
cd /verif
for D in seeded/*/; do
  N=$(basename $D)
  if [ $# -gt 0 ]; then ok=0; for p in "$@"; do case $N in $p*) ok=1;; esac; done; [ $ok = 1 ] || continue; fi
  PROP=$(python3 -c "import json;print(json.load(open('$D/meta.json'))['property'])")
  P=$D/patch.diff; for alt in $D/patch_on_*.diff; do [ -f "$alt" ] && P=$alt; done
  W=/tmp/sreg/$N; rm -rf $W; git -C /repo worktree prune; mkdir -p /tmp/sreg
  git -C /repo worktree add -f $W HEAD -q || continue
  if ! git -C $W apply $P 2>/dev/null; then
    if ! (cd $W && patch -p1 -s --fuzz=3 < /verif/$P >/dev/null 2>&1); then echo "$N prop=$PROP NOAPPLY"; git -C /repo worktree remove --force $W; continue; fi
  fi
  OUT=$(VX_REPO=$W ./vx check $PROP --tier quick 2>&1); RC=$?
  mkdir -p /verif/build/sreg; echo "$OUT" > /verif/build/sreg/$N.log
  FIRST=$(echo "$OUT" | grep "^failed obligation\|^UNDECIDED" | head -1 | cut -c1-200)
  echo "$N prop=$PROP rc=$RC :: $FIRST"
  git -C /repo worktree remove --force $W
done
