#!/usr/bin/env python3
"""linkage.py — mechanical inventory of assumed callee contracts across units.
For every `#[verifier::external_body] fn NAME` / `assume_specification [..NAME]` written in a unit template (an ASSUMED
contract) report whether a function of the same name is extracted from /repo and verified against a contract in
another unit (then the assumption is a cross-unit link whose two contract texts must agree; compared by hand, listed
in the unit notes) or in no unit (then it is part of the trusted base).  Matching is by function name only; names in GENERIC are never
linked (counted as trusted), so the linked count is an under-estimate rather than an over-estimate.  Prints a table; writes build/linkage.json."""
import re,glob,json,os,collections
U=sorted(glob.glob(os.path.join(os.path.dirname(os.path.abspath(__file__)),'units','U-*.rs')))
proved=collections.defaultdict(set)   # fn name -> {unit}
stubs=collections.defaultdict(list)   # unit -> [(name, kind)]
for f in U:
    u=os.path.basename(f)[:-3]; t=open(f).read()
    for m in re.finditer(r'^//@ extract (\S+)(?: in `([^`]*)`)? (fn|region) (\w+)',t,re.M):
        proved[m.group(4)].add(u)
    for m in re.finditer(r'#\[verifier::external_body\]\s*(?:pub\s+)?(?:closed\s+|open\s+)?(?:proof\s+|exec\s+)?fn\s+(\w+)',t):
        stubs[u].append((m.group(1),'external_body'))
    for m in re.finditer(r'assume_specification[^\[]*\[\s*([^\]]+?)\s*\]',t):
        stubs[u].append((re.split(r'::',m.group(1))[-1].strip(),'assume_specification'))
GENERIC={'new','default','clone','from','hash','drop','get','next','write','path','flush','update','eq','len','read','finish','put','serialize','deserialize','finalize'}  # names too common to link by name
rows=[];tot=link=0
for u in sorted(stubs):
    l=[];a=[]
    for n,k in stubs[u]:
        others=[] if n in GENERIC else sorted(proved.get(n,set())-{u})
        (l if others else a).append((n,others))
    tot+=len(l)+len(a); link+=len(l)
    rows.append({'unit':u,'assumed':len(l)+len(a),'linked':[{'fn':n,'verified_in':o} for n,o in l],'unlinked':[n for n,_ in a]})
    print("%-16s assumed %3d  of which callee verified in another unit %3d"%(u,len(l)+len(a),len(l)))
print("TOTAL assumed contracts %d; callee under contract in another unit %d; trusted outright %d"%(tot,link,tot-link))
os.makedirs(os.path.join(os.path.dirname(os.path.abspath(__file__)),'build'),exist_ok=True)
json.dump(rows,open(os.path.join(os.path.dirname(os.path.abspath(__file__)),'build','linkage.json'),'w'),indent=1)
