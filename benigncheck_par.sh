#!/bin/bash
# benigncheck_par.sh <outfile> — every behaviour-preserving patch /tmp/seed/B*-out/patch{1,2,3}.diff against its property's quick check
# (full check: Verus + Kani + witness escalation), 5 at a time. rc 0 = quiet, 1 = FALSE ALARM, 2 = undecided
OUT=$1
cd /verif
for d in $(ls -d /tmp/seed/B*-out 2>/dev/null || ls -d /verif/benign/B*); do for k in 1 2 3; do [ -f $d/patch$k.diff ] && echo "$(basename $d -out) $k"; done; done | xargs -P 5 -L1 bash -c '
  ID=$0; k=$1; SRC=/tmp/seed/$ID-out; [ -d $SRC ] || SRC=/verif/benign/$ID
  PROP=$(python3 -c "import json;print(json.load(open(\"$SRC/meta.json\"))[\"property\"])")
  W=/tmp/bchkp/${ID}_$k; rm -rf $W; mkdir -p /tmp/bchkp
  git -C /repo worktree add -f $W HEAD -q 2>/dev/null || exit 0
  git -C $W apply $SRC/patch$k.diff 2>/dev/null || { echo "$ID patch$k prop=$PROP NOAPPLY"; git -C /repo worktree remove --force $W; exit 0; }
  O=$(cd /verif && VX_REPO=$W ./vx check $PROP --tier quick 2>&1); RC=$?
  echo "$O" > /tmp/bchkp/${ID}_$k.log
  echo "$ID patch$k prop=$PROP rc=$RC :: $(echo "$O" | grep "^failed obligation\|^UNDECIDED" | head -1 | cut -c1-200)"
  git -C /repo worktree remove --force $W
' > $OUT 2>&1
git -C /repo worktree prune
