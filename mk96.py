#!/usr/bin/env python3
"""Regenerates the table of DESIGN.md section 9.6 (units as built) from units/*.rs and props.json."""
import json, re, glob, os
props = json.load(open('/verif/props.json'))
byunit = {}
for pid, p in sorted(props.items()):
    for u in p.get('units', []):
        byunit.setdefault(u, []).append(pid)
rows = []
for f in sorted(glob.glob('/verif/units/U-*.rs')):
    u = os.path.basename(f)[:-3]
    files, fns = set(), set()
    srcs = [f]
    for l in open(f):
        m = re.match(r'//@ include (\S+)', l)
        if m and os.path.exists('/verif/units/' + m.group(1)): srcs.append('/verif/units/' + m.group(1))
    for s in srcs:
        for l in open(s):
            m = re.match(r'//@ extract (\S+) (?:in `[^`]*` )?(fn|region|struct|enum|const|type|impl|trait)\s+(\S+)', l)
            if m:
                files.add(m.group(1))
                if m.group(2) in ('fn', 'region'): fns.add(m.group(3))
    rows.append('| %s | %s | %s | %s |' % (u, ' '.join(byunit.get(u, [])) or '(support)', ', '.join('`%s`' % x for x in sorted(files)), ', '.join(sorted(fns))))
d = open('/verif/DESIGN.md').read()
m = re.search(r'(### 9\.6[^\n]*\n\n\| unit \|[^\n]*\n\|---[^\n]*\n)((?:\|[^\n]*\n)+)', d)
d = d[:m.start(2)] + '\n'.join(rows) + '\n' + d[m.end(2):]
open('/verif/DESIGN.md', 'w').write(d)
print(len(rows), 'units')
