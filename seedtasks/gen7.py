import json,glob,os,re,sys
base=open('/tmp/seed/TASK6-C05.md').read()
head=base[:base.index('## THIS TIME: deliver TWO independent seeds')]
tail_kind=base[base.index('## What kind of change'):]
for pid in sys.argv[1:]:
    earlier=[]
    for d in sorted(glob.glob('/verif/seeded/%s*/meta.json'%pid)):
        m=json.load(open(d))
        if m.get('property')!=pid: continue
        f=(m.get('files_touched') or ['?'])
        f=f[0] if isinstance(f,list) else str(f)
        earlier.append(" * %s: %s"%(f,re.sub(r'\s+',' ',str(m.get('summary','')))[:230]))
    t=head+"""## THIS TIME: deliver TWO independent seeds
Do the whole task twice, for two DIFFERENT functions (preferably in two different source files), one after the other in the same worktree (revert the first before starting the second). IDs: %sg1 and %sg2. Output directories /tmp/seed/%sg1-out/ and /tmp/seed/%sg2-out/ (each with its own patch.diff, demo/, meta.json as described above; demo test files named seed_%sg1.* / seed_%sg2.*; in both meta.json use "property": "%s"). Your single worktree is /tmp/seed/%sg; property text /tmp/seed/%s.property.txt. Use `CARGO_TARGET_DIR=/tmp/seed/%sg/target` and `-j 4` for every cargo command and remove that directory when you are done.

## Earlier seeds for this property (already known) — do NOT repeat their functions or their kind of mistake
%s

"""%(pid,pid,pid,pid,pid,pid,pid,pid,pid,pid,"\n".join(earlier))+tail_kind
    open('/tmp/seed/TASK7-%s.md'%pid,'w').write(t)
    print(pid,len(earlier))
