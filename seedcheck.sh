#!/bin/bash
# seedcheck.sh <ID> <crate> <test-args...>  — confirm a seeded change in a scratch worktree and run our check against it.
#  1. fresh worktree of /repo HEAD under /tmp/chk/<ID>; demo copied in; demo must PASS
#  2. patch applied; existing tests of <crate> must PASS; demo must FAIL
#  3. ./vx check on the properties given in $PROPS (default: the seed's property) against the patched worktree (VX_REPO)
#  4. worktree and build output removed
ID=$1; CRATE=$2; shift 2; TESTARGS="$@"
SRC=${SEEDDIR:-/tmp/seed/$ID-out}
W=/tmp/chk/$ID
PROPS=${PROPS:-$(python3 -c "import json;print(json.load(open('$SRC/meta.json'))['property'])")}
export CARGO_TARGET_DIR=/tmp/chk/target-$CRATE
rm -rf $W; mkdir -p /tmp/chk
git -C /repo worktree add -q --detach $W HEAD || exit 9
cp -r $SRC/demo/* $W/ 2>/dev/null; rm -f $W/RUN.md
cd $W
echo "== demo without patch (must pass)"
cargo test -p $CRATE --offline $TESTARGS 2>&1 | grep -E "^test result|FAILED|panicked|error(\[|:)" | head -8
git apply $SRC/patch.diff || { echo "PATCH DOES NOT APPLY"; }
echo "== existing tests of $CRATE with patch (must pass)"
cargo test -p $CRATE --offline --lib 2>&1 | grep -E "^test result|FAILED|error(\[|:)" | head -5
echo "== demo with patch (must fail)"
cargo test -p $CRATE --offline $TESTARGS 2>&1 | grep -E "^test result|FAILED|panicked|error(\[|:)" | head -8
echo "== our checks against the patched tree"
for P in $PROPS; do (cd /verif && VX_REPO=$W ./vx check $P 2>&1 | grep -v "^   site" | head -12; echo "rc=${PIPESTATUS[0]}"); done
cd /; git -C /repo worktree remove --force $W
