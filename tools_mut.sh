#!/bin/bash
# usage: tools_mut.sh <prop> <file> <sed-expr>   — run a check against a scratch copy of one mutated file (never touches /repo)
set -e
P=$1; F=$2; E=$3
D=$(mktemp -d /tmp/vxmut.XXXX)
mkdir -p $D/$(dirname $F)
# copy whole crate src dirs lazily: only rs files of the repo (small)
rsync -a --exclude target --exclude .git --include "*/" --include "*.rs" --exclude "*" /repo/ $D/
sed -i "$E" $D/$F
if cmp -s $D/$F /repo/$F; then echo "MUTATION DID NOT APPLY"; rm -rf $D; exit 3; fi
VX_REPO=$D /verif/vx check $P | grep -v "^   site" | head -8
echo "rc=${PIPESTATUS[0]}"
rm -rf $D
