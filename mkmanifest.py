#!/usr/bin/env python3
"""Write MANIFEST.json from props.json + claims.json (level text per property) + na.json (not-applicable reasons)."""
import json, os
HERE = os.path.dirname(os.path.abspath(__file__))
props = json.load(open(os.path.join(HERE, "props.json")))
claims = json.load(open(os.path.join(HERE, "claims.json")))
ALL = ["C%02d" % i for i in range(1, 21)]
checks = []
na = []
for pid in ALL:
    c = claims.get(pid, {})
    p = props.get(pid)
    if c.get("claim") and p and (p.get("units") or p.get("kani")):
        checks.append({
            "property_id": pid,
            "quick_cmd": "./vx check %s --tier quick" % pid,
            "thorough_cmd": "./vx check %s --tier thorough" % pid,
            "evidence_file": "/verif/evidence/%s.json" % pid,
            "replay_cmd_template": "./vx replay {path}",
            "engine": "vx",
            "level_claimed": {"category": "proof", "text": c["text"], "design_ref": c.get("design_ref", "DESIGN.md section 5")},
            "level_note": c["note"],
            "technique": c.get("technique", "contract-based deductive verification: Verus contracts on mechanically extracted functions"),
        })
    else:
        na.append({"property_id": pid, "reason": c.get("na_reason", "check not built yet (see DESIGN.md section 5)")})
m = {
    "version": 1,
    "setup_cmd": "./setup.sh",
    "hooks": {
        "guard": "xet_verif",
        "enable": "no hook is needed: every check extracts the functions from /repo's working tree mechanically (RUSTFLAGS='--cfg xet_verif' is reserved and unused)",
        "baseline_off_cmd": "cd /repo && cargo nextest run --workspace --no-fail-fast --test-threads 8 --offline || cargo test --workspace --no-fail-fast --offline",
        "source_commits": [],
        "add_only": True,
    },
    "engines": [
        {"name": "vx", "path": "/verif/vx", "serves_properties": [c["property_id"] for c in checks],
         "kind_free_text": "extract real functions from /repo (Python lexer/extractor, fixed rewrite catalogue), splice contracts from units/*.rs, discharge every obligation with Verus (z3); Kani/CBMC harnesses for bit-level codecs; real-crate replay for witnesses"},
    ],
    "checks": checks,
    "notes": "See DESIGN.md. exit 0 = every obligation discharged and vacuity probes fail as they must; exit 1 = VIOLATION of a named obligation; exit 2 = undecided (tool limit / lost function), never an alarm. 19 genuine defects were repaired in /repo by 'fix:' commits and 3 are recorded as known findings (known_findings.json, DESIGN.md 9.3).",
    "not_applicable": na,
}
json.dump(m, open(os.path.join(HERE, "MANIFEST.json"), "w"), indent=1)
print("claimed:", [c["property_id"] for c in checks])
print("not applicable:", [x["property_id"] for x in na])
