#!/bin/bash
# seedregress_par.sh <outfile> [env assignments...] — like seedregress.sh but 6 seeds at a time and Verus only (VX_VERUS_ONLY=1): for
# calibrating the driver's classification policy, not for deciding anything
OUT=$1; shift
cd /verif
ls -d seeded/*/ | xargs -n1 basename | xargs -P 6 -I{} env VX_VERUS_ONLY=1 "$@" bash -c '
  N={}; D=/verif/seeded/$N
  PROP=$(python3 -c "import json;print(json.load(open(\"$D/meta.json\"))[\"property\"])")
  P=$D/patch.diff; for alt in $D/patch_on_*.diff; do [ -f "$alt" ] && P=$alt; done
  W=/tmp/sregp_$PPID/$N; rm -rf $W; mkdir -p /tmp/sregp_$PPID
  git -C /repo worktree add -f $W HEAD -q 2>/dev/null || exit 0
  git -C $W apply $P 2>/dev/null || (cd $W && patch -p1 -s --fuzz=3 < $P >/dev/null 2>&1) || { echo "$N prop=$PROP NOAPPLY"; git -C /repo worktree remove --force $W; exit 0; }
  O=$(cd /verif && VX_REPO=$W ./vx check $PROP --tier quick 2>&1); RC=$?
  echo "$N prop=$PROP rc=$RC :: $(echo "$O" | grep "^failed obligation\|^UNDECIDED" | head -1 | cut -c1-160)"
  git -C /repo worktree remove --force $W
' > $OUT 2>&1
git -C /repo worktree prune
